------------------------------ MODULE CmdList ------------------------------
(***************************************************************************)
(* LPUSH LPUSHX RPUSH RPUSHX LPOP RPOP LLEN LRANGE LINDEX LSET LTRIM LREM  *)
(* LMOVE   -   internal/modules/list/commands.go                           *)
(*                                                                         *)
(* A list value is VList(l), l a TLA+ sequence of byte strings, head       *)
(* first.  Elements are never re-typed: the bytes pushed are the bytes     *)
(* kept.  The reference is property C15 (a list is a sequence; zero-based  *)
(* indices, negative ones count from the tail, out-of-range ones are       *)
(* clamped); where neither the property nor docs/docs/commands/list/*.mdx  *)
(* speak, the behaviour of the code is recorded ("as-code"):               *)
(*  - an empty list is a value of its own (LPOP/RPOP/LREM/LMOVE of the     *)
(*    last element leave an empty list behind; TYPE says "list", LLEN 0),  *)
(*    but LTRIM to an empty range deletes the key;                         *)
(*  - LPUSH k a b c puts the block a b c in front of the list in argument  *)
(*    order (not one element at a time);                                   *)
(*  - LPUSHX / RPUSHX on a missing key are errors; LSET on a missing key   *)
(*    is an error; LMOVE needs both keys to exist and replies OK;          *)
(*  - LPOP/RPOP count: the absolute value is used, count 0 on a non-empty  *)
(*    list replies an empty array, an empty list always replies nil;       *)
(*  - the order of checks (existence, type, numeric arguments) decides     *)
(*    between nil / 0 / OK and an error when several apply;                *)
(*  - every write goes through setValues: a live key keeps its deadline.   *)
(***************************************************************************)
EXTENDS CmdBase

ListOps == {"LPUSH", "LPUSHX", "RPUSH", "RPUSHX", "LPOP", "RPOP", "LLEN", "LRANGE", "LINDEX", "LSET",
            "LTRIM", "LREM", "LMOVE"}

----------------------------------------------------------------------------
\* vocabulary

LIsList(C, k) == Live(C, k) /\ ValOf(C, k).k = "list"
LOf(C, k)     == ValOf(C, k).l

\* the bytes of the tokens a[from], a[from+1], ... in order
LElems(a, from) == IF Len(a) < from THEN <<>> ELSE [i \in 1..(Len(a) - from + 1) |-> TokBytes(a[i + from - 1])]

LBulks(l) == RArr(IF l = <<>> THEN <<>> ELSE [i \in 1..Len(l) |-> RStr(l[i])])

LRev(l) == IF l = <<>> THEN <<>> ELSE [i \in 1..Len(l) |-> l[Len(l) + 1 - i]]

\* strconv.Atoi on the wire form of a token: "ok", "bad" (error reply) or "skip" (more digits than
\* the bounded integers of the model follow)
LNumKind(t) ==
    LET b == TokBytes(t) IN
    IF IsParseInt(b) THEN "ok"
    ELSE IF b # <<>> /\ NumBody(b) # <<>> /\ AllDigits(NumBody(b)) THEN "skip"
    ELSE "bad"
LNum(t) == ParseIntVal(TokBytes(t))

\* LEFT / RIGHT in any letter case
LLower(b) == [i \in DOMAIN b |-> IF b[i] >= 65 /\ b[i] <= 90 THEN b[i] + 32 ELSE b[i]]
LWhere(t) == LET w == LLower(TokBytes(t)) IN
             IF w = <<108, 101, 102, 116>> THEN "left"
             ELSE IF w = <<114, 105, 103, 104, 116>> THEN "right"
             ELSE ""

\* the inclusive index range start..end of a list of length n, after counting negative indices
\* from the tail and clamping: <<lo, hi>> zero-based, empty when lo > hi
LLo(n, s) == IF s < 0 THEN Max2(n + s, 0) ELSE s
LHi(n, e) == Min2(IF e < 0 THEN n + e ELSE e, n - 1)
LSlice(l, s, e) == LET lo == LLo(Len(l), s)   hi == LHi(Len(l), e) IN
                   IF lo > hi THEN <<>> ELSE SubSeq(l, lo + 1, hi + 1)

\* l without its first c elements equal to v (all of them when c < 0)
RECURSIVE LDropFirst(_, _, _)
LDropFirst(l, v, c) ==
    IF l = <<>> \/ c = 0 THEN l
    ELSE IF l[1] = v THEN LDropFirst(Tail(l), v, IF c < 0 THEN c ELSE c - 1)
    ELSE <<l[1]>> \o LDropFirst(Tail(l), v, c)

----------------------------------------------------------------------------
\* LPUSH / LPUSHX / RPUSH / RPUSHX key element [element ...]

XLPush(C, a, left, onlyIfExists) ==
    IF Len(a) < 3 THEN Fail(C)
    ELSE LET k   == a[2].s
             new == LElems(a, 3)
         IN IF ~Live(C, k)
            THEN (IF onlyIfExists THEN Fail(C)                       \* as-code: an error, not 0
                  ELSE Res(Write(C, k, VList(new)), RInt(Len(new))))
            ELSE IF ValOf(C, k).k # "list" THEN Fail(C)
            ELSE LET l == IF left THEN new \o LOf(C, k) ELSE LOf(C, k) \o new    \* as-code: block order kept
                 IN Res(Write(C, k, VList(l)), RInt(Len(l)))

----------------------------------------------------------------------------
\* LPOP / RPOP key [count]

XLPop(C, a, left) ==
    IF Len(a) < 2 \/ Len(a) > 3 THEN Fail(C)
    ELSE LET k == a[2].s IN
         IF ~Live(C, k) THEN Res(C.S, RNil)                          \* before the count is looked at
         ELSE IF ValOf(C, k).k # "list" THEN Fail(C)
         ELSE IF Len(a) = 3 /\ LNumKind(a[3]) = "skip" THEN Skip(C)
         ELSE IF Len(a) = 3 /\ LNumKind(a[3]) = "bad" THEN Fail(C)
         ELSE LET l == LOf(C, k)   n == Len(l) IN
              IF n = 0 THEN Res(C.S, RNil)                           \* as-code: also with a count
              ELSE IF Len(a) = 2
                   THEN Res(Write(C, k, VList(IF left THEN Tail(l) ELSE SubSeq(l, 1, n - 1))),
                            RStr(IF left THEN l[1] ELSE l[n]))
              ELSE LET c == Min2(Abs(LNum(a[3])), n)                 \* as-code: |count|
                   IN Res(Write(C, k, VList(IF left THEN SubSeq(l, c + 1, n) ELSE SubSeq(l, 1, n - c))),
                          LBulks(IF left THEN SubSeq(l, 1, c) ELSE LRev(SubSeq(l, n - c + 1, n))))

----------------------------------------------------------------------------
\* LLEN key

XLLen(C, a) ==
    IF Len(a) # 2 THEN Fail(C)
    ELSE IF ~Live(C, a[2].s) THEN Res(C.S, RInt(0))
    ELSE IF ValOf(C, a[2].s).k # "list" THEN Fail(C)
    ELSE Res(C.S, RInt(Len(LOf(C, a[2].s))))

----------------------------------------------------------------------------
\* LINDEX key index

XLIndex(C, a) ==
    IF Len(a) # 3 THEN Fail(C)
    ELSE LET k == a[2].s IN
         IF ~Live(C, k) THEN Res(C.S, RNil)                          \* before the index is looked at
         ELSE IF ValOf(C, k).k # "list" THEN Fail(C)
         ELSE IF LNumKind(a[3]) = "skip" THEN Skip(C)
         ELSE IF LNumKind(a[3]) = "bad" THEN Fail(C)
         ELSE LET l == LOf(C, k)
                  i == IF LNum(a[3]) < 0 THEN Len(l) + LNum(a[3]) ELSE LNum(a[3])
              IN IF i < 0 \/ i >= Len(l) THEN Res(C.S, RNil) ELSE Res(C.S, RStr(l[i + 1]))

----------------------------------------------------------------------------
\* LRANGE key start end

XLRange(C, a) ==
    IF Len(a) # 4 THEN Fail(C)
    ELSE LET k == a[2].s IN
         IF ~Live(C, k) THEN Res(C.S, LBulks(<<>>))                  \* before the indices are looked at
         ELSE IF ValOf(C, k).k # "list" THEN Fail(C)
         ELSE IF LNumKind(a[3]) = "skip" \/ (LNumKind(a[3]) = "ok" /\ LNumKind(a[4]) = "skip") THEN Skip(C)
         ELSE IF LNumKind(a[3]) = "bad" \/ LNumKind(a[4]) = "bad" THEN Fail(C)
         ELSE Res(C.S, LBulks(LSlice(LOf(C, k), LNum(a[3]), LNum(a[4]))))

----------------------------------------------------------------------------
\* LSET key index element

XLSet(C, a) ==
    IF Len(a) # 4 THEN Fail(C)
    ELSE LET k == a[2].s IN
         IF ~Live(C, k) THEN Fail(C)                                 \* as-code: no such key is an error
         ELSE IF LNumKind(a[3]) = "skip" THEN Skip(C)
         ELSE IF LNumKind(a[3]) = "bad" THEN Fail(C)
         ELSE IF ValOf(C, k).k # "list" THEN Fail(C)
         ELSE LET l == LOf(C, k)
                  i == IF LNum(a[3]) < 0 THEN Len(l) + LNum(a[3]) ELSE LNum(a[3])
              IN IF i < 0 \/ i >= Len(l) THEN Fail(C)
                 ELSE Res(Write(C, k, VList([l EXCEPT ![i + 1] = TokBytes(a[4])])), ROk)

----------------------------------------------------------------------------
\* LTRIM key start end

XLTrim(C, a) ==
    IF Len(a) # 4 THEN Fail(C)
    ELSE LET k == a[2].s IN
         IF ~Live(C, k) THEN Res(C.S, ROk)                           \* before the indices are looked at
         ELSE IF LNumKind(a[3]) = "skip" \/ (LNumKind(a[3]) = "ok" /\ LNumKind(a[4]) = "skip") THEN Skip(C)
         ELSE IF LNumKind(a[3]) = "bad" \/ LNumKind(a[4]) = "bad" THEN Fail(C)
         ELSE IF ValOf(C, k).k # "list" THEN Fail(C)
         ELSE LET kept == LSlice(LOf(C, k), LNum(a[3]), LNum(a[4])) IN
              IF kept = <<>> THEN Res(Del(C.S, C.db, k), ROk)        \* as-code: nothing kept, key removed
              ELSE Res(Write(C, k, VList(kept)), ROk)

----------------------------------------------------------------------------
\* LREM key count element : count > 0 from the head, count < 0 from the tail, 0 all

XLRem(C, a) ==
    IF Len(a) # 4 THEN Fail(C)
    ELSE LET k == a[2].s IN
         IF LNumKind(a[3]) = "skip" THEN Skip(C)
         ELSE IF LNumKind(a[3]) = "bad" THEN Fail(C)                 \* even when the key is missing
         ELSE IF ~Live(C, k) THEN Res(C.S, RInt(0))
         ELSE IF ValOf(C, k).k # "list" THEN Fail(C)
         ELSE LET l == LOf(C, k)
                  c == LNum(a[3])
                  v == TokBytes(a[4])
                  r == IF c > 0 THEN LDropFirst(l, v, c)
                       ELSE IF c < 0 THEN LRev(LDropFirst(LRev(l), v, -c))
                       ELSE LDropFirst(l, v, -1)
              IN Res(Write(C, k, VList(r)), RInt(Len(l) - Len(r)))

----------------------------------------------------------------------------
\* LMOVE source destination <LEFT | RIGHT> <LEFT | RIGHT>
\* One element leaves one end of source and enters one end of destination.  With source =
\* destination this is a rotation (or nothing, for LEFT LEFT / RIGHT RIGHT).
\* as-code: both keys must exist; the reply is OK, not the element.  An empty source has no
\* element to move: error.

XLMove(C, a) ==
    IF Len(a) # 5 THEN Fail(C)
    ELSE LET s  == a[2].s
             d  == a[3].s
             wf == LWhere(a[4])
             wt == LWhere(a[5])
         IN IF wf = "" \/ wt = "" THEN Fail(C)
            ELSE IF ~Live(C, s) \/ ~Live(C, d) THEN Fail(C)
            ELSE IF ValOf(C, s).k # "list" \/ ValOf(C, d).k # "list" THEN Fail(C)
            ELSE IF LOf(C, s) = <<>> THEN Fail(C)
            ELSE LET sl == LOf(C, s)
                     n  == Len(sl)
                     e  == IF wf = "left" THEN sl[1] ELSE sl[n]
                     s2 == IF wf = "left" THEN Tail(sl) ELSE SubSeq(sl, 1, n - 1)
                     dl == IF s = d THEN s2 ELSE LOf(C, d)
                     d2 == IF wt = "left" THEN <<e>> \o dl ELSE dl \o <<e>>
                     S1 == SetVal(C.S, C.now, C.db, s, VList(s2))
                 IN Res(SetVal(S1, C.now, C.db, d, VList(d2)), ROk)

----------------------------------------------------------------------------

ExecList(C, a, g) ==
    LET op == a[1].s IN
    CASE op = "LPUSH"  -> XLPush(C, a, TRUE, FALSE)
      [] op = "LPUSHX" -> XLPush(C, a, TRUE, TRUE)
      [] op = "RPUSH"  -> XLPush(C, a, FALSE, FALSE)
      [] op = "RPUSHX" -> XLPush(C, a, FALSE, TRUE)
      [] op = "LPOP"   -> XLPop(C, a, TRUE)
      [] op = "RPOP"   -> XLPop(C, a, FALSE)
      [] op = "LLEN"   -> XLLen(C, a)
      [] op = "LINDEX" -> XLIndex(C, a)
      [] op = "LRANGE" -> XLRange(C, a)
      [] op = "LSET"   -> XLSet(C, a)
      [] op = "LTRIM"  -> XLTrim(C, a)
      [] op = "LREM"   -> XLRem(C, a)
      [] op = "LMOVE"  -> XLMove(C, a)

\* no open deviations: every defect found in this module was small enough to repair
ListDevs(a) == {}

=============================================================================
