------------------------------ MODULE CmdList ------------------------------
(* placeholder: semantics of the list commands (to be written) *)
EXTENDS CmdBase

ListOps == {}
ExecList(C, a, g) == Skip(C)
ListDevs(a) == {}

=============================================================================
