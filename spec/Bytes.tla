------------------------------- MODULE Bytes -------------------------------
(***************************************************************************)
(* Byte sequences and the small amount of number <-> text conversion the   *)
(* command semantics needs.  A byte string is a TLA+ sequence of integers  *)
(* 0..255.  Floats are restricted to multiples of 1/4 ("quarter units"),   *)
(* which are exact in binary floating point and closed under + and -.      *)
(***************************************************************************)
EXTENDS Integers, Sequences, FiniteSets

Abs(n) == IF n < 0 THEN -n ELSE n
Min2(a, b) == IF a < b THEN a ELSE b
Max2(a, b) == IF a > b THEN a ELSE b

Range(s) == {s[i] : i \in DOMAIN s}

\* ASCII
cCR == 13   cLF == 10   cPlus == 43   cMinus == 45   cDot == 46   cZero == 48

IsDigit(c) == c >= 48 /\ c <= 57

AllDigits(b) == \A i \in DOMAIN b : IsDigit(b[i])

RECURSIVE DigitsVal(_)
DigitsVal(b) == IF b = <<>> THEN 0
                ELSE 10 * DigitsVal(SubSeq(b, 1, Len(b) - 1)) + (b[Len(b)] - 48)

RECURSIVE DecNat(_)
DecNat(n) == IF n < 10 THEN <<48 + n>> ELSE DecNat(n \div 10) \o <<48 + (n % 10)>>

\* canonical decimal rendering of an integer (what %d prints)
Dec(n) == IF n < 0 THEN <<cMinus>> \o DecNat(-n) ELSE DecNat(n)

\* "0" | [-] nonzero-digit digit*      (what strconv.Itoa can print)
IsCanonInt(b) ==
    /\ b # <<>>
    /\ LET neg  == b[1] = cMinus
           body == IF neg THEN Tail(b) ELSE b
       IN /\ body # <<>>
          /\ AllDigits(body)
          /\ Len(body) <= 9
          /\ (body[1] = cZero => (Len(body) = 1 /\ ~neg))

CanonIntVal(b) == IF b[1] = cMinus THEN -DigitsVal(Tail(b)) ELSE DigitsVal(b)

\* what strconv.ParseInt(s, 10, 64) accepts: [+-]? digit+   (we only handle short literals)
IsParseInt(b) ==
    /\ b # <<>>
    /\ LET sg   == b[1] \in {cMinus, cPlus}
           body == IF sg THEN Tail(b) ELSE b
       IN body # <<>> /\ AllDigits(body) /\ Len(body) <= 9

ParseIntVal(b) == IF b[1] = cMinus THEN -DigitsVal(Tail(b))
                  ELSE IF b[1] = cPlus THEN DigitsVal(Tail(b)) ELSE DigitsVal(b)

(***************************************************************************)
(* Loose decimal literals:  [+-]? ( digit+ [ "." digit* ] | "." digit+ )   *)
(* This is the exponent-free part of what math/big.ParseFloat and          *)
(* strconv.ParseFloat accept.  Drivers never generate exponent forms,      *)
(* "inf"/"nan" spellings, hex floats or underscores.                       *)
(***************************************************************************)
DotPos(b) == IF \E i \in DOMAIN b : b[i] = cDot
             THEN CHOOSE i \in DOMAIN b : b[i] = cDot /\ \A j \in 1..(i-1) : b[j] # cDot
             ELSE 0

NumBody(b) == IF b[1] \in {cMinus, cPlus} THEN Tail(b) ELSE b

\* the shape alone, whatever the length
IsNumShape(b) ==
    /\ b # <<>>
    /\ LET body == NumBody(b)
           p    == DotPos(body)
           ip   == IF p = 0 THEN body ELSE SubSeq(body, 1, p - 1)
           fp   == IF p = 0 THEN <<>> ELSE SubSeq(body, p + 1, Len(body))
       IN /\ body # <<>>
          /\ AllDigits(ip) /\ AllDigits(fp)
          /\ Len(ip) + Len(fp) >= 1

\* literals short enough for TLC's 32-bit integers
IsLooseNum(b) == IsNumShape(b) /\ Len(NumBody(b)) <= 7

Pow10(n) == CASE n = 0 -> 1 [] n = 1 -> 10 [] n = 2 -> 100 [] n = 3 -> 1000 [] n = 4 -> 10000
              [] n = 5 -> 100000 [] n = 6 -> 1000000 [] OTHER -> 10000000

\* value in quarter units, or "not a quarter" (ok = FALSE)
LooseNum(b) ==
    LET sg   == b[1] \in {cMinus, cPlus}
        neg  == b[1] = cMinus
        body == IF sg THEN Tail(b) ELSE b
        p    == DotPos(body)
        ip   == IF p = 0 THEN body ELSE SubSeq(body, 1, p - 1)
        fp   == IF p = 0 THEN <<>> ELSE SubSeq(body, p + 1, Len(body))
        num  == DigitsVal(ip) * Pow10(Len(fp)) + DigitsVal(fp)   \* value * 10^|fp|
        sc   == Pow10(Len(fp))
        q4   == 4 * num
    IN [ok    |-> (q4 % sc) = 0,
        q     |-> IF neg THEN -(q4 \div sc) ELSE q4 \div sc,
        isint |-> (num % sc) = 0,
        n     |-> IF neg THEN -(num \div sc) ELSE num \div sc]

\* %g / %v rendering of the float q/4 (|q| small: no exponent form)
FmtQ(q) ==
    LET a    == Abs(q)
        frac == CASE a % 4 = 0 -> <<>>
                  [] a % 4 = 1 -> <<cDot, 50, 53>>
                  [] a % 4 = 2 -> <<cDot, 53>>
                  [] a % 4 = 3 -> <<cDot, 55, 53>>
    IN (IF q < 0 THEN <<cMinus>> ELSE <<>>) \o DecNat(a \div 4) \o frac

\* a float literal is canonical when printing its value gives back the same bytes
IsCanonFloat(b) == IsLooseNum(b) /\ LooseNum(b).ok /\ ~LooseNum(b).isint /\ FmtQ(LooseNum(b).q) = b

HasCRLF(b) == \E i \in 1..(Len(b) - 1) : b[i] = cCR /\ b[i + 1] = cLF

\* lexicographic order on byte strings (bytes.Compare)
RECURSIVE LexLess(_, _)
LexLess(a, b) == IF b = <<>> THEN FALSE
                 ELSE IF a = <<>> THEN TRUE
                 ELSE IF a[1] # b[1] THEN a[1] < b[1]
                 ELSE LexLess(Tail(a), Tail(b))

FloorDiv(a, b) == a \div b      \* TLA+ \div already floors for positive b

=============================================================================
