------------------------------- MODULE MC_Hash -------------------------------
(***************************************************************************)
(* Bounded instance of Sugar for property C14: the hash commands (all but  *)
(* the random HRANDFIELD) over two keys, three fields and a value pool     *)
(* with the awkward cases (empty, numeric, non-canonical numeral, float,   *)
(* CR LF), started from hashes with string / integer / float field values, *)
(* an emptied hash, a volatile hash and keys of the other value types.     *)
(*                                                                         *)
(* Besides the generic ErrNoChange / Frame and the module's own            *)
(* HReadOnlyPure, the laws below state what "a map from field to value"    *)
(* means.  They are written against the store itself (HLawMap reads the    *)
(* map straight out of the keyspace) and never mention the XH* operators:  *)
(* the readers are checked against the map, the writers against the       *)
(* algebra of maps.                                                        *)
(***************************************************************************)
EXTENDS Sugar, TLC

HK(k) == [s |-> k]
HW(w) == [s |-> w]
HV(b) == [b |-> b]
HN(n) == [i |-> n]
HQ(q) == [q |-> q, inf |-> 0]

HMCKeys == {"k1", "k2"}
HF1 == <<102, 49>>
HF2 == <<102, 50>>
HMCFields == {<<102, 49>>, <<102, 50>>, <<>>}                     \* "f1", "f2", ""
\* "", "a", "7", "007", "1.5", "a\r\nb"
HMCVals == {<<>>, <<97>>, <<55>>, <<48, 48, 55>>, <<49, 46, 53>>, <<97, 13, 10, 98>>}

HMCT0 == 100000

HMCCmds ==
    {<<HW("HSET"), HK("k1"), HV(HF1), HV(v)>> : v \in HMCVals}
    \cup {<<HW("HSET"), HK("k1"), HV(HF2), HV(v)>> : v \in {<<97>>, <<55>>}}
    \cup {<<HW("HSET"), HK("k1"), HV(<<>>), HV(<<49, 46, 53>>)>>}
    \cup {<<HW("HSET"), HK("k2"), HV(HF1), HV(v)>> : v \in {<<97>>, <<48, 48, 55>>}}
    \cup {<<HW("HSETNX"), HK("k1"), HV(f), HV(v)>> : f \in {HF1, <<>>}, v \in {<<97>>, <<55>>}}
    \cup {<<HW("HSETNX"), HK("k2"), HV(HF1), HV(<<97>>)>>}
    \cup {<<HW(op), HK("k1"), HV(HF1), HV(<<97>>), HV(HF2), HV(<<55>>)>> : op \in {"HSET", "HSETNX"}}
    \cup {<<HW(op), HK("k1"), HV(HF1), HV(<<97>>), HV(HF1), HV(<<98>>)>> : op \in {"HSET", "HSETNX"}}      \* repeated field
    \cup {<<HW(op), HK("k1"), HV(HF1), HV(<<97>>), HV(HF2)>> : op \in {"HSET", "HSETNX"}}                   \* value missing
    \cup {<<HW(op), HK("k1"), HV(HF1)>> : op \in {"HSET", "HSETNX", "HINCRBY", "HINCRBYFLOAT"}}            \* too short
    \cup {<<HW(op), HK("k1"), HV(f)>> : op \in {"HGET", "HMGET", "HSTRLEN", "HEXISTS"}, f \in HMCFields}
    \cup {<<HW(op), HK("k2"), HV(HF1)>> : op \in {"HGET", "HMGET", "HSTRLEN", "HEXISTS"}}
    \cup {<<HW("HDEL"), HK(k), HV(f)>> : k \in HMCKeys, f \in HMCFields}
    \cup {<<HW(op), HK("k1"), HV(HF1), HV(HF2), HV(HF1)>> : op \in {"HGET", "HMGET", "HSTRLEN", "HEXISTS", "HDEL"}}
    \cup {<<HW(op), HK(k)>> : op \in {"HVALS", "HKEYS", "HGETALL", "HLEN", "DEL", "TYPE"}, k \in HMCKeys}
    \cup {<<HW(op), HK("k1")>> : op \in {"HGET", "HDEL", "HEXISTS"}}                                       \* too short
    \cup {<<HW(op), HK("k1"), HK("k2")>> : op \in {"HVALS", "HKEYS", "HGETALL", "HLEN"}}                  \* too long
    \cup {<<HW("HINCRBY"), HK("k1"), HV(f), HN(n)>> : f \in {HF1, HF2}, n \in {1, -2}}
    \cup {<<HW("HINCRBYFLOAT"), HK("k1"), HV(f), HQ(q)>> : f \in {HF1, HF2}, q \in {6, -1}}
    \cup {<<HW("HINCRBY"), HK("k2"), HV(HF1), HN(1)>>, <<HW("HINCRBYFLOAT"), HK("k2"), HV(HF1), HQ(6)>>}
    \cup {<<HW("HINCRBY"), HK("k1"), HV(HF1), HV(<<120>>)>>, <<HW("HINCRBYFLOAT"), HK("k1"), HV(HF1), HV(<<120>>)>>,
          <<HW("HINCRBY"), HK("k1"), HV(HF1), HQ(6)>>, <<HW("HINCRBY"), HK("k1"), HV(HF1), HN(1), HN(1)>>}
    \cup {<<HW("SET"), HK("k1"), HV(<<97>>)>>}

HashOf(m) == Ent(VHash(m), NoD)

HMCInits ==
    { EmptyStore,
      (<<"0", "k1">> :> HashOf(HF1 :> VStr(<<97>>) @@ HF2 :> VInt(7) @@ <<>> :> VFlt(6))),
      (<<"0", "k1">> :> HashOf(HF1 :> VStr(<<48, 48, 55>>))) @@ (<<"0", "k2">> :> Ent(VStr(<<97>>), NoD)),
      (<<"0", "k1">> :> HashOf(<<>>)) @@ (<<"0", "k2">> :> Ent(VList(<< HF1 >>), NoD)),
      (<<"0", "k1">> :> Ent(VSet({HF1}), NoD)) @@ (<<"0", "k2">> :> Ent(VZSet(HF1 :> [q |-> 4, inf |-> 0]), NoD)),
      \* a volatile hash that is still live, and an expired one (absent for every observer)
      (<<"0", "k1">> :> Ent(VHash(HF1 :> VInt(1)), HMCT0 + 400)) @@ (<<"0", "k2">> :> Ent(VInt(41), NoD)),
      (<<"0", "k1">> :> Ent(VHash(HF1 :> VInt(1)), HMCT0 - 1)) @@ (<<"0", "k2">> :> Ent(VFlt(6), HMCT0 - 1)) }

HMCDBs == {"0"}
HMCTicks == {}        \* liveness of a deadline is exercised by the last two presets

----------------------------------------------------------------------------
\* C13  the commands documented as reads never change what a later command can observe
HReadOnlyPure == [][last' # NoCmd /\ OpOf(last') \in HReadOps => Norm(store', now') = Norm(store, now')]_vars

----------------------------------------------------------------------------
\* The laws.  HLawMap: the field -> value map a key denotes, read directly from the keyspace.

HLawIsHash(S, t, k) == LiveS(S, t, "0", k) /\ S[<<"0", k>>].v.k = "hash"
HLawOther(S, t, k)  == LiveS(S, t, "0", k) /\ S[<<"0", k>>].v.k # "hash"
HLawMap(S, t, k)    == IF HLawIsHash(S, t, k) THEN S[<<"0", k>>].v.h ELSE <<>>

\* the text a reply element carries / the text of a stored value
HLawTxt(r) == IF r.t = "int" THEN Dec(r.n) ELSE r.b
HLawQ(v)   == CASE v.k = "int" -> 4 * v.n [] v.k = "flt" -> v.q [] OTHER -> LooseNum(v.b).q

HLawAsk(op, k) == Exec(Ctx, <<HW(op), HK(k)>>, RNil).r
HLawAsk1(op, k, f) == Exec(Ctx, <<HW(op), HK(k), HV(f)>>, RNil).r
HLawFieldSeq == HSetToSeq(HMCFields)
HLawAskAll(op, k) == Exec(Ctx, <<HW(op), HK(k)>> \o [i \in 1..Len(HLawFieldSeq) |-> HV(HLawFieldSeq[i])], RNil).r

\* L1  every reader reports exactly the current map (and an absent key is the empty map)
HLawReaders ==
    \A k \in HMCKeys : ~HLawOther(store, now, k) =>
        LET m  == HLawMap(store, now, k)
            n  == Cardinality(DOMAIN m)
            ks == HLawAsk("HKEYS", k)
            vs == HLawAsk("HVALS", k)
            ga == HLawAsk("HGETALL", k)
            hg == HLawAskAll("HGET", k)
            hs == HLawAskAll("HSTRLEN", k)
        IN /\ HLawAsk("HLEN", k) = RInt(n)
           /\ Len(ks.a) = n /\ {ks.a[i].b : i \in 1..n} = DOMAIN m
           /\ Len(vs.a) = n
           /\ \A t \in {Render(m[f]) : f \in DOMAIN m} :
                 Cardinality({i \in 1..n : HLawTxt(vs.a[i]) = t}) = Cardinality({f \in DOMAIN m : Render(m[f]) = t})
           /\ Len(ga.a) = 2 * n /\ {ga.a[2 * i - 1].b : i \in 1..n} = DOMAIN m
           /\ \A i \in 1..n : HLawTxt(ga.a[2 * i]) = Render(m[ga.a[2 * i - 1].b])
           /\ \A f \in HMCFields : HLawAsk1("HEXISTS", k, f) = RInt(IF f \in DOMAIN m THEN 1 ELSE 0)
           /\ HLawAskAll("HMGET", k) = hg
           /\ IF ~LiveS(store, now, "0", k) THEN hg = RNil /\ hs = RNil      \* as-code: one nil for a missing key
              ELSE \A i \in 1..Len(HLawFieldSeq) :
                      LET f == HLawFieldSeq[i] IN
                      /\ IF f \in DOMAIN m THEN HLawTxt(hg.a[i]) = Render(m[f]) ELSE hg.a[i] = RNil
                      /\ hs.a[i] = RInt(IF f \in DOMAIN m THEN Len(Render(m[f])) ELSE 0)

\* L2  a hash command on a key of another type is an error (and, by ErrNoChange, changes nothing)
HLawWrongType ==
    \A a \in Cmds : (OpOf(a) \in HashOps /\ Len(a) >= 2 /\ HLawOther(store, now, a[2].s))
                        => Exec(Ctx, a, RNil).r = RErr

\* field / value of the i-th pair of an HSET / HSETNX command
HLawF(a, i) == TokBytes(a[2 * i + 1])
HLawV(a, i) == TokBytes(a[2 * i + 2])

\* L3  HSET: exactly the named fields change, each to the bytes of its last value; reply = their number
HLawHSet ==
    [][(last' # NoCmd /\ OpOf(last') = "HSET" /\ reply'.t = "int") =>
        LET a  == last'   k == a[2].s   n == (Len(a) - 2) \div 2
            F  == {HLawF(a, i) : i \in 1..n}
            m  == HLawMap(store, now, k)
            m2 == HLawMap(store', now', k)
        IN /\ DOMAIN m2 = (DOMAIN m) \cup F
           /\ \A f \in (DOMAIN m) \ F : m2[f] = m[f]
           /\ \A i \in 1..n : (\A j \in (i + 1)..n : HLawF(a, j) # HLawF(a, i)) => Render(m2[HLawF(a, i)]) = HLawV(a, i)
           /\ reply'.n = Cardinality(F)]_vars

\* L4  HSETNX never changes an existing field; reply = number of fields created
HLawHSetNX ==
    [][(last' # NoCmd /\ OpOf(last') = "HSETNX" /\ reply'.t = "int") =>
        LET a  == last'   k == a[2].s   n == (Len(a) - 2) \div 2
            F  == {HLawF(a, i) : i \in 1..n}
            m  == HLawMap(store, now, k)
            m2 == HLawMap(store', now', k)
        IN /\ DOMAIN m2 = (DOMAIN m) \cup F
           /\ \A f \in DOMAIN m : m2[f] = m[f]
           /\ \A f \in F \ DOMAIN m : \E i \in 1..n : HLawF(a, i) = f /\ Render(m2[f]) = HLawV(a, i)
           /\ reply'.n = Cardinality(DOMAIN m2) - Cardinality(DOMAIN m)]_vars

\* L5  HDEL removes exactly the named fields; reply = how many were there; no key is created
HLawHDel ==
    [][(last' # NoCmd /\ OpOf(last') = "HDEL" /\ reply'.t = "int") =>
        LET a  == last'   k == a[2].s
            G  == {TokBytes(a[i]) : i \in 3..Len(a)}
            m  == HLawMap(store, now, k)
            m2 == HLawMap(store', now', k)
        IN /\ DOMAIN m2 = (DOMAIN m) \ G
           /\ \A f \in DOMAIN m2 : m2[f] = m[f]
           /\ reply'.n = Cardinality((DOMAIN m) \cap G)
           /\ LiveS(store', now', "0", k) = LiveS(store, now', "0", k)]_vars

\* L6  HINCRBY / HINCRBYFLOAT add the increment to the field (absent = 0), reply the new value,
\*     touch no other field
HLawIncr ==
    [][(last' # NoCmd /\ OpOf(last') \in {"HINCRBY", "HINCRBYFLOAT"} /\ reply'.t # "err") =>
        LET a  == last'   k == a[2].s   f == TokBytes(a[3])
            inc == IF IsQT(a[4]) THEN a[4].q ELSE 4 * a[4].i
            m  == HLawMap(store, now, k)
            m2 == HLawMap(store', now', k)
            was == IF f \in DOMAIN m THEN HLawQ(m[f]) ELSE 0
        IN /\ DOMAIN m2 = (DOMAIN m) \cup {f}
           /\ \A x \in (DOMAIN m) \ {f} : m2[x] = m[x]
           /\ HLawQ(m2[f]) = was + inc
           /\ HLawTxt(reply') = Render(m2[f])
           /\ HLawTxt(reply') = FmtQ(was + inc)]_vars

\* L7  every value of the pool reads back byte for byte under the reference typing
HPoolRoundTrips == \A v \in HMCVals : Render(Typed(v, {})) = v
ASSUME HPoolRoundTrips

=============================================================================
