------------------------------ MODULE CmdHash ------------------------------
(* placeholder: semantics of the hash commands (to be written) *)
EXTENDS CmdBase

HashOps == {}
ExecHash(C, a, g) == Skip(C)
HashDevs(a) == {}

=============================================================================
