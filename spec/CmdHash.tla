------------------------------ MODULE CmdHash ------------------------------
(***************************************************************************)
(* Semantics of the 14 hash commands (property C14): a hash is a map from  *)
(* field (bytes) to a scalar value.  internal/modules/hash/commands.go.    *)
(*                                                                         *)
(* A field value written by HSET/HSETNX is typed exactly like a value      *)
(* written by SET (Typed: canonical integer -> int, canonical quarter      *)
(* float -> float, anything else -> string; the implementation's parsing   *)
(* of non-canonical numerals is the open deviation AdaptCanon).            *)
(*                                                                         *)
(* Reply conventions (as-code, see NOTES / DECISIONS):                     *)
(*   - an integer field value is sent as a RESP integer, strings and       *)
(*     floats as bulk strings (HValReply);                                 *)
(*   - HGET/HMGET/HSTRLEN always reply an array, one entry per field       *)
(*     asked; on a missing key they reply a single nil;                    *)
(*   - replies that enumerate the map (HKEYS, HVALS, HGETALL, HRANDFIELD   *)
(*     of the whole hash) are in no particular order: RBag / RPairBag;     *)
(*   - a hash emptied by HDEL stays as an empty hash.                      *)
(* Every operator defined here starts with H or XH.                        *)
(***************************************************************************)
EXTENDS CmdBase

HashOps == {"HSET", "HSETNX", "HGET", "HMGET", "HSTRLEN", "HVALS", "HRANDFIELD", "HLEN", "HKEYS",
            "HINCRBY", "HINCRBYFLOAT", "HGETALL", "HEXISTS", "HDEL"}

HReadOps == {"HGET", "HMGET", "HSTRLEN", "HVALS", "HRANDFIELD", "HLEN", "HKEYS", "HGETALL", "HEXISTS"}

----------------------------------------------------------------------------
\* helpers

HNoFields == [f \in {} |-> VStr(<<>>)]

HIsHash(C, k)  == Live(C, k) /\ ValOf(C, k).k = "hash"
HWrongType(C, k) == Live(C, k) /\ ValOf(C, k).k # "hash"
\* the reference map behind key k (a missing key is the empty map)
HMap(C, k) == IF HIsHash(C, k) THEN ValOf(C, k).h ELSE HNoFields

RECURSIVE HSetToSeq(_)
HSetToSeq(s) == IF s = {} THEN <<>>
                ELSE LET x == CHOOSE y \in s : TRUE IN <<x>> \o HSetToSeq(s \ {x})

\* how a field value is put on the wire: int -> ":n", string / float -> bulk
HValReply(v) == IF v.k = "int" THEN RInt(v.n) ELSE RStr(Render(v))

\* the same test against one element of a logged reply
HValMatches(v, ge) == IF v.k = "int" THEN ge.t = "int" /\ ge.n = v.n
                      ELSE ge.t = "bulk" /\ ge.b = Render(v)

\* strconv.Atoi on a token as the harness puts it on the wire (a Q token that is a whole number
\* is written without a fraction and so parses)
HIntOk(t) == IsIntT(t) \/ (IsQT(t) /\ t.inf = 0 /\ t.q % 4 = 0) \/ (~IsQT(t) /\ ~IsIntT(t) /\ IsBytesT(t) /\ IsParseInt(t.b))
HIntVal(t) == IF IsIntT(t) THEN t.i ELSE IF IsQT(t) THEN t.q \div 4 ELSE ParseIntVal(t.b)

\* a reply no logged reply can equal (an illegal random choice)
HNoMatch == [t |-> "illegal-choice"]

----------------------------------------------------------------------------
\* HSET key field value [field value ...]      HSETNX key field value [field value ...]
\* The pairs of one command are collected into a map first (for a repeated field the last value
\* wins - also for HSETNX, as-code) and then merged into the hash.  Reply: the number of distinct
\* fields written (HSET) / created (HSETNX).
\* Reference (C01, api docs): a key of another type is an error.  The implementation replaces the
\* value with the new hash: deviation HSetWrongType.

XHSet(C, a, nx) ==
    IF Len(a) < 4 THEN Fail(C)
    ELSE IF (Len(a) - 2) % 2 # 0 THEN Fail(C)
    ELSE LET k      == a[2].s
             n      == (Len(a) - 2) \div 2
             fld(i) == TokBytes(a[2 * i + 1])
             val(i) == TokBytes(a[2 * i + 2])
             F      == {fld(i) : i \in 1..n}
             last(f) == CHOOSE i \in 1..n : fld(i) = f /\ \A j \in (i + 1)..n : fld(j) # f
             new    == [f \in F |-> Typed(val(last(f)), C.D)]
         IN IF \E i \in 1..n : Unmodelled(val(i)) THEN Skip(C)
            ELSE IF HWrongType(C, k)
                 THEN IF Dev(C, "HSetWrongType")
                      THEN Res(Write(C, k, VHash(new)), RInt(Cardinality(F)))
                      ELSE Fail(C)
            ELSE LET old    == HMap(C, k)
                     merged == [f \in (DOMAIN old) \cup F |->
                                   IF nx THEN (IF f \in DOMAIN old THEN old[f] ELSE new[f])
                                   ELSE (IF f \in F THEN new[f] ELSE old[f])]
                     cnt    == IF nx THEN Cardinality(F \ DOMAIN old) ELSE Cardinality(F)
                 IN Res(Write(C, k, VHash(merged)), RInt(cnt))

----------------------------------------------------------------------------
\* HGET key field [field ...]   HMGET key field [field ...]  : array, nil for an absent field

XHGet(C, a) ==
    IF Len(a) < 3 THEN Fail(C)
    ELSE LET k == a[2].s IN
         IF ~Live(C, k) THEN Res(C.S, RNil)                  \* as-code: a single nil
         ELSE IF HWrongType(C, k) THEN Fail(C)
         ELSE LET h == HMap(C, k) IN
              Res(C.S, RArr([i \in 1..(Len(a) - 2) |->
                               LET f == TokBytes(a[i + 2]) IN
                               IF f \in DOMAIN h THEN HValReply(h[f]) ELSE RNil]))

\* HSTRLEN key field [field ...] : array of the lengths of the values as text, 0 for an absent field
XHStrLen(C, a) ==
    IF Len(a) < 3 THEN Fail(C)
    ELSE LET k == a[2].s IN
         IF ~Live(C, k) THEN Res(C.S, RNil)                  \* as-code: a single nil
         ELSE IF HWrongType(C, k) THEN Fail(C)
         ELSE LET h == HMap(C, k) IN
              Res(C.S, RArr([i \in 1..(Len(a) - 2) |->
                               LET f == TokBytes(a[i + 2]) IN
                               IF f \in DOMAIN h THEN RInt(Len(Render(h[f]))) ELSE RInt(0)]))

----------------------------------------------------------------------------
\* HVALS / HKEYS / HGETALL / HLEN key

XHVals(C, a) ==
    IF Len(a) # 2 THEN Fail(C)
    ELSE IF HWrongType(C, a[2].s) THEN Fail(C)
    ELSE LET h == HMap(C, a[2].s)   fs == HSetToSeq(DOMAIN h) IN
         Res(C.S, RBag([i \in 1..Len(fs) |-> HValReply(h[fs[i]])]))

XHKeys(C, a) ==
    IF Len(a) # 2 THEN Fail(C)
    ELSE IF HWrongType(C, a[2].s) THEN Fail(C)
    ELSE LET h == HMap(C, a[2].s)   fs == HSetToSeq(DOMAIN h) IN
         Res(C.S, RBag([i \in 1..Len(fs) |-> RStr(fs[i])]))

XHGetAll(C, a) ==
    IF Len(a) # 2 THEN Fail(C)
    ELSE IF HWrongType(C, a[2].s) THEN Fail(C)
    ELSE LET h == HMap(C, a[2].s)   fs == HSetToSeq(DOMAIN h) IN
         Res(C.S, RPairBag([i \in 1..(2 * Len(fs)) |->
                              IF i % 2 = 1 THEN RStr(fs[(i + 1) \div 2]) ELSE HValReply(h[fs[i \div 2]])]))

XHLen(C, a) ==
    IF Len(a) # 2 THEN Fail(C)
    ELSE IF HWrongType(C, a[2].s) THEN Fail(C)
    ELSE Res(C.S, RInt(Cardinality(DOMAIN HMap(C, a[2].s))))

\* HEXISTS key field
XHExists(C, a) ==
    IF Len(a) # 3 THEN Fail(C)
    ELSE IF HWrongType(C, a[2].s) THEN Fail(C)
    ELSE Res(C.S, RInt(IF TokBytes(a[3]) \in DOMAIN HMap(C, a[2].s) THEN 1 ELSE 0))

----------------------------------------------------------------------------
\* HDEL key field [field ...] : number of fields removed (a repeated field counts once).
\* as-code: a missing key is not created; a hash that loses its last field stays (empty).

XHDel(C, a) ==
    IF Len(a) < 3 THEN Fail(C)
    ELSE LET k == a[2].s IN
         IF ~Live(C, k) THEN Res(C.S, RInt(0))
         ELSE IF HWrongType(C, k) THEN Fail(C)
         ELSE LET h    == HMap(C, k)
                  gone == {TokBytes(a[i]) : i \in 3..Len(a)} \cap DOMAIN h
              IN Res(Write(C, k, VHash([f \in (DOMAIN h) \ gone |-> h[f]])), RInt(Cardinality(gone)))

----------------------------------------------------------------------------
\* HINCRBY key field integer      HINCRBYFLOAT key field float
\* A missing key / field counts as 0.  as-code: an integer stays an integer under HINCRBY and
\* becomes a float under HINCRBYFLOAT (even when the sum is whole); a float stays a float under
\* both.  Reply: ":n" for an integer result, "+text" for a float result.

HNumeric(v) == v.k \in {"int", "flt"} \/ (v.k = "str" /\ IsLooseNum(v.b) /\ LooseNum(v.b).ok)
\* [isint, n, q] view of a numeric value (a numeric string only exists in the reference typing)
HNumOf(v) == CASE v.k = "int" -> [isint |-> TRUE, n |-> v.n, q |-> 4 * v.n]
               [] v.k = "flt" -> [isint |-> FALSE, n |-> 0, q |-> v.q]
               [] OTHER       -> [isint |-> LooseNum(v.b).isint, n |-> LooseNum(v.b).n, q |-> LooseNum(v.b).q]

XHIncrBy(C, a, flt) ==
    IF Len(a) # 4 THEN Fail(C)
    ELSE IF flt /\ IsQT(a[4]) /\ a[4].inf # 0 THEN Skip(C)
    ELSE IF flt /\ ~IsQT(a[4]) /\ ~IsIntT(a[4]) /\ IsBytesT(a[4]) /\ Unmodelled(a[4].b) THEN Skip(C)
    ELSE IF flt /\ ~FltArgOk(a[4]) THEN Fail(C)
    ELSE IF ~flt /\ ~HIntOk(a[4]) THEN Fail(C)
    ELSE LET k    == a[2].s
             f    == TokBytes(a[3])
             incq == IF flt THEN FltArg(a[4]) ELSE 4 * HIntVal(a[4])
         IN IF HWrongType(C, k) THEN Fail(C)
            ELSE LET h   == HMap(C, k)
                     cur == IF f \in DOMAIN h THEN h[f] ELSE VInt(0)
                 IN IF cur.k = "str" /\ Unmodelled(cur.b) THEN Skip(C)
                    ELSE IF cur.k = "flt" /\ cur.inf # 0 THEN Skip(C)
                    ELSE IF ~HNumeric(cur) THEN Fail(C)
                    ELSE LET c   == HNumOf(cur)
                             new == IF c.isint /\ ~flt THEN VInt(c.n + (incq \div 4)) ELSE VFlt(c.q + incq)
                             h2  == [x \in (DOMAIN h) \cup {f} |-> IF x = f THEN new ELSE h[x]]
                         IN Res(Write(C, k, VHash(h2)),
                                IF new.k = "int" THEN RInt(new.n) ELSE RStr(FmtQ(new.q)))

----------------------------------------------------------------------------
\* HRANDFIELD key [count [WITHVALUES]]
\* Always an array (as-code, also without a count: one element).  count > 0: min(count, size)
\* distinct fields; count < 0: exactly |count| fields, repetitions allowed; count = 0 or an empty
\* / missing hash: the empty array.  With WITHVALUES each field is followed by its current value.
\* The choice is read off the logged reply g and checked to be legal.

HIsWithValues(t) == IsSym(t) /\ KW(t) = "WITHVALUES"

XHRandField(C, a, g) ==
    IF Len(a) < 2 \/ Len(a) > 4 THEN Fail(C)
    ELSE IF Len(a) >= 3 /\ ~HIntOk(a[3]) THEN Fail(C)
    ELSE IF Len(a) = 4 /\ ~HIsWithValues(a[4]) THEN Fail(C)
    ELSE LET k     == a[2].s
             cnt   == IF Len(a) >= 3 THEN HIntVal(a[3]) ELSE 1
             withv == Len(a) = 4
         IN IF HWrongType(C, k) THEN Fail(C)
            ELSE LET h    == HMap(C, k)
                     n    == Cardinality(DOMAIN h)
                     want == IF cnt > 0 THEN Min2(cnt, n) ELSE (IF n = 0 THEN 0 ELSE -cnt)
                     step == IF withv THEN 2 ELSE 1
                 IN IF want = 0 THEN Res(C.S, RArr(<<>>))
                    ELSE IF ~("t" \in DOMAIN g) \/ g.t # "arr" THEN Res(C.S, HNoMatch)
                    ELSE IF Len(g.a) # want * step THEN Res(C.S, HNoMatch)
                    ELSE LET fpos(i) == (i - 1) * step + 1
                             legal ==
                                /\ \A i \in 1..want : g.a[fpos(i)].t = "bulk" /\ g.a[fpos(i)].b \in DOMAIN h
                                /\ cnt > 0 => \A i, j \in 1..want : i # j => g.a[fpos(i)].b # g.a[fpos(j)].b
                                /\ withv => \A i \in 1..want : HValMatches(h[g.a[fpos(i)].b], g.a[fpos(i) + 1])
                         IN IF ~legal THEN Res(C.S, HNoMatch)
                            ELSE Res(C.S, RArr([j \in 1..(want * step) |->
                                                  IF withv /\ j % 2 = 0 THEN HValReply(h[g.a[j - 1].b])
                                                  ELSE RStr(g.a[j].b)]))

----------------------------------------------------------------------------

ExecHash(C, a, g) ==
    LET op == a[1].s IN
    CASE op = "HSET"         -> XHSet(C, a, FALSE)
      [] op = "HSETNX"       -> XHSet(C, a, TRUE)
      [] op = "HGET"         -> XHGet(C, a)
      [] op = "HMGET"        -> XHGet(C, a)
      [] op = "HSTRLEN"      -> XHStrLen(C, a)
      [] op = "HVALS"        -> XHVals(C, a)
      [] op = "HRANDFIELD"   -> XHRandField(C, a, g)
      [] op = "HLEN"         -> XHLen(C, a)
      [] op = "HKEYS"        -> XHKeys(C, a)
      [] op = "HINCRBY"      -> XHIncrBy(C, a, FALSE)
      [] op = "HINCRBYFLOAT" -> XHIncrBy(C, a, TRUE)
      [] op = "HGETALL"      -> XHGetAll(C, a)
      [] op = "HEXISTS"      -> XHExists(C, a)
      [] op = "HDEL"         -> XHDel(C, a)

HashDevs(a) ==
    LET op == a[1].s IN
    CASE op \in {"HSET", "HSETNX"} -> {"AdaptCanon", "HSetWrongType"}
      [] OTHER -> {}

=============================================================================
