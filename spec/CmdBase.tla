------------------------------ MODULE CmdBase ------------------------------
(***************************************************************************)
(* Command tokens, execution context and result records shared by the      *)
(* per-module command semantics.                                           *)
(*                                                                         *)
(* A command is a sequence of tagged tokens (see harness abs.go):          *)
(*    [s |-> "SET"]          symbol: command name, key, option keyword     *)
(*    [i |-> 10]             integer literal in canonical decimal          *)
(*    [b |-> <<55, 48>>]     raw bytes                                     *)
(*    [at |-> ms, u |-> "s"] absolute instant (ms relative to the epoch)   *)
(*    [q |-> 6, inf |-> 0]   float literal in quarter units                *)
(*                                                                         *)
(* The context C = [S, now, db, D]: store, clock, selected database and    *)
(* the set D of implementation deviations allowed to fire.                 *)
(***************************************************************************)
EXTENDS Store

IsSym(t)   == "s" \in DOMAIN t
IsIntT(t)  == "i" \in DOMAIN t
IsBytesT(t) == "b" \in DOMAIN t
IsAtT(t)   == "at" \in DOMAIN t
IsQT(t)    == "q" \in DOMAIN t

UpperTable == [ex |-> "EX", px |-> "PX", exat |-> "EXAT", pxat |-> "PXAT", nx |-> "NX", xx |-> "XX",
               gt |-> "GT", lt |-> "LT", get |-> "GET", persist |-> "PERSIST", left |-> "LEFT",
               right |-> "RIGHT", withscores |-> "WITHSCORES", withvalues |-> "WITHVALUES",
               limit |-> "LIMIT", count |-> "COUNT", min |-> "MIN", max |-> "MAX", ch |-> "CH",
               incr |-> "INCR", weights |-> "WEIGHTS", aggregate |-> "AGGREGATE", sum |-> "SUM",
               rev |-> "REV", byscore |-> "BYSCORE", bylex |-> "BYLEX"]

\* keyword carried by a token ("" when the token is not a symbol)
KW(t) == IF IsSym(t) THEN (IF t.s \in DOMAIN UpperTable THEN UpperTable[t.s] ELSE t.s) ELSE ""

\* the bytes a token puts on the wire, for tokens used in value positions
TokBytes(t) == CASE IsBytesT(t) -> t.b
                 [] IsIntT(t)   -> Dec(t.i)
                 [] IsQT(t)     -> IF t.inf # 0 THEN (IF t.inf > 0 THEN <<43, 105, 110, 102>> ELSE <<45, 105, 110, 102>>)
                                   ELSE FmtQ(t.q)

IsValTok(t) == IsBytesT(t) \/ IsIntT(t) \/ IsQT(t)

\* strconv.ParseInt on a token
IntArgOk(t) == IsIntT(t) \/ (IsBytesT(t) /\ IsParseInt(t.b))
IntArg(t)   == IF IsIntT(t) THEN t.i ELSE ParseIntVal(t.b)

\* strconv.ParseFloat on a token, in quarter units
FltArgOk(t) == IsIntT(t) \/ (IsQT(t) /\ t.inf = 0) \/ (IsBytesT(t) /\ IsLooseNum(t.b) /\ LooseNum(t.b).ok)
FltArg(t)   == CASE IsIntT(t) -> 4 * t.i [] IsQT(t) -> t.q [] OTHER -> LooseNum(t.b).q

Res(S, r)  == [S |-> S, r |-> r, rel |-> "eq"]
Fail(C)    == [S |-> C.S, r |-> RErr, rel |-> "eq"]
Skip(C)    == [S |-> C.S, r |-> RErr, rel |-> "skip"]      \* outside the model: nothing is claimed
Panics(C)  == [S |-> C.S, r |-> RPanic, rel |-> "panic"]   \* the process dies; no state afterwards

Live(C, k)   == LiveS(C.S, C.now, C.db, k)
EntOf(C, k)  == C.S[<<C.db, k>>]
ValOf(C, k)  == C.S[<<C.db, k>>].v
Write(C, k, v) == SetVal(C.S, C.now, C.db, k, v)

Dev(C, name) == name \in C.D

=============================================================================
