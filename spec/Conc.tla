-------------------------------- MODULE Conc --------------------------------
(***************************************************************************)
(* C05: commands of concurrent clients at the implementation's real grain  *)
(* of atomicity.  The store lock is taken per keyspace call (keysExist,    *)
(* getValues, setValues, setExpiry, getExpiry, DeleteKey - keyspace.go),   *)
(* not per command, so a command handler is a little program of atomic     *)
(* keyspace steps with local variables in between.  This module gives the  *)
(* step programs of the handlers (transcribed from the handler code) and   *)
(* interleaves them; Exec - the sequential meaning of the same commands -  *)
(* is the serial oracle.                                                   *)
(*                                                                         *)
(* TLC enumerates every interleaving of every pair of commands in Pairs    *)
(* from every store in Inits.  For each complete behaviour it prints       *)
(* (ToJson) the schedule, the replies and final store the step semantics   *)
(* yields, and whether that outcome equals some serial order.  The Go      *)
(* replayer forces each schedule on the real handlers through the          *)
(* ks.*.enter gates and compares.                                          *)
(*                                                                         *)
(* Checked here:                                                           *)
(*   SoloIsExec   a handler program run alone means exactly what Exec says *)
(*   AtomicPairs  pairs of commands that are a single keyspace step are    *)
(*                linearizable in every interleaving                       *)
(* The behaviours flagged serial = FALSE are the open finding LostUpdate   *)
(* (no per-command atomicity) with the schedule as witness.                *)
(***************************************************************************)
EXTENDS Exec, TLC, Json, SequencesExt

CONSTANTS Pairs,      \* set of <<cmd1, cmd2>> (token sequences)
          Inits,      \* set of initial stores
          Now

VARIABLES cmds, store, pc, loc, reply, sched, init
vars == <<cmds, store, pc, loc, reply, sched, init>>

Procs == {1, 2}
DB == "0"
VNil == [k |-> "nil"]

NoLoc == [e |-> FALSE, v |-> VNil, x |-> NoD, y |-> NoD]

----------------------------------------------------------------------------
\* the keyspace primitives (each is one critical section of keyspace.go)
PLive(S, k) == LiveS(S, Now, DB, k)
\* getValues: an expired entry is deleted on the way and read as nil
PGet(S, k)  == IF PLive(S, k) THEN [S |-> S, v |-> S[<<DB, k>>].v]
               ELSE [S |-> IF Has(S, DB, k) THEN Del(S, DB, k) ELSE S, v |-> VNil]
PSet(S, k, v) == SetVal(S, Now, DB, k, v)
PDel(S, k)  == IF Has(S, DB, k) THEN Del(S, DB, k) ELSE S
PExp(S, k)  == IF Has(S, DB, k) THEN S[<<DB, k>>].d ELSE NoD
\* setExpiry rewrites the entry with whatever value is there now - nil when the key is gone
PSetExp(S, k, d) == Put(S, DB, k, Ent(IF Has(S, DB, k) THEN S[<<DB, k>>].v ELSE VNil, d))

ReplyOfScalar(v) == IF v = VNil THEN RNil ELSE IF IsScalar(v) THEN RStr(Render(v)) ELSE RErr

----------------------------------------------------------------------------
(* Step(S, c, n, L): step n (1-based) of the handler of command c with     *)
(* locals L on store S.  Result [S, L, next, r]: next = 0 when the handler *)
(* returns with reply r.                                                   *)
Ret(S, L, r)     == [S |-> S, L |-> L, next |-> 0, r |-> r]
Go(S, L, n)      == [S |-> S, L |-> L, next |-> n, r |-> RNil]

Step(S, c, n, L) ==
    LET op == c[1].s
        k  == c[2].s
    IN
    CASE op = "GET" ->
           IF n = 1 THEN (IF PLive(S, k) THEN Go(S, L, 2) ELSE Ret(S, L, RNil))
           ELSE LET g == PGet(S, k) IN Ret(g.S, L, ReplyOfScalar(g.v))
      [] op = "MGET" ->
           LET g1 == PGet(S, c[2].s)   g2 == PGet(g1.S, c[3].s) IN
           Ret(g2.S, L, RArr(<<ReplyOfScalar(g1.v), ReplyOfScalar(g2.v)>>))
      [] op = "SET" ->            \* SET k v [NX] | SET k v PXAT t
           LET nx == Len(c) = 4 /\ KW(c[4]) = "NX"
               ex == Len(c) = 5 /\ KW(c[4]) = "PXAT"
           IN IF n = 1 THEN (IF nx /\ PLive(S, k) THEN Ret(S, L, RErr) ELSE Go(S, L, 2))
              ELSE IF n = 2 THEN (IF ex THEN Go(PSet(S, k, Typed(TokBytes(c[3]), {})), L, 3)
                                  ELSE Ret(PSet(S, k, Typed(TokBytes(c[3]), {})), L, ROk))
              ELSE Ret(PSetExp(S, k, c[5].at), L, ROk)
      [] op = "MSET" ->
           Ret(PSet(PSet(S, c[2].s, Typed(TokBytes(c[3]), {})), c[4].s, Typed(TokBytes(c[5]), {})), L, ROk)
      [] op = "INCR" ->
           IF n = 1 THEN LET g == PGet(S, k) IN
                         IF g.v = VNil THEN Go(g.S, [L EXCEPT !.v = VNil], 2)
                         ELSE IF CurIntOk(g.v) THEN Go(g.S, [L EXCEPT !.v = g.v], 2)
                         ELSE Ret(g.S, L, RErr)
           ELSE LET m == IF L.v = VNil THEN 1 ELSE CurInt(L.v) + 1 IN
                Ret(PSet(S, k, VStr(Dec(m))), L, RInt(m))
      [] op = "APPEND" ->
           IF n = 1 THEN Go(S, [L EXCEPT !.e = PLive(S, k)], 2)
           ELSE IF ~L.e THEN Ret(PSet(S, k, Typed(TokBytes(c[3]), {})), L, RInt(Len(TokBytes(c[3]))))
           ELSE IF n = 2 THEN LET g == PGet(S, k) IN
                              IF g.v = VNil \/ g.v.k # "str" THEN Ret(g.S, L, RErr)
                              ELSE Go(g.S, [L EXCEPT !.v = g.v], 3)
           ELSE LET nv == L.v.b \o TokBytes(c[3]) IN Ret(PSet(S, k, Typed(nv, {})), L, RInt(Len(nv)))
      [] op = "DEL" ->            \* single key
           IF n = 1 THEN (IF PLive(S, k) THEN Go(S, L, 2) ELSE Ret(S, L, RInt(0)))
           ELSE Ret(PDel(S, k), L, RInt(1))
      [] op = "GETDEL" ->
           IF n = 1 THEN (IF PLive(S, k) THEN Go(S, L, 2) ELSE Ret(S, L, RNil))
           ELSE IF n = 2 THEN LET g == PGet(S, k) IN
                              IF g.v # VNil /\ ~IsScalar(g.v) THEN Ret(g.S, L, RErr)
                              ELSE Go(g.S, [L EXCEPT !.v = g.v], 3)
           ELSE Ret(PDel(S, k), L, ReplyOfScalar(L.v))
      [] op = "RENAME" ->         \* RENAME a b, a # b
           LET b == c[3].s IN
           IF n = 1 THEN LET g == PGet(S, k) IN
                         IF g.v = VNil THEN Ret(g.S, L, RErr) ELSE Go(g.S, [L EXCEPT !.v = g.v], 2)
           ELSE IF n = 2 THEN Go(S, [L EXCEPT !.x = PExp(S, k)], 3)
           ELSE IF n = 3 THEN Go(S, [L EXCEPT !.y = PExp(S, b)], 4)
           ELSE IF n = 4 THEN Go(PSet(S, b, L.v), L, IF L.x # NoD \/ L.y # NoD THEN 5 ELSE 6)
           ELSE IF n = 5 THEN Go(PSetExp(S, b, L.x), L, 6)
           ELSE Ret(PDel(S, k), L, ROk)
      [] op = "RPUSH" ->          \* RPUSH k e
           IF n = 1 THEN Go(S, [L EXCEPT !.e = PLive(S, k)], 2)
           ELSE IF ~L.e THEN Ret(PSet(S, k, VList(<<TokBytes(c[3])>>)), L, RInt(1))
           ELSE IF n = 2 THEN LET g == PGet(S, k) IN
                              IF g.v = VNil \/ g.v.k # "list" THEN Ret(g.S, L, RErr)
                              ELSE Go(g.S, [L EXCEPT !.v = g.v], 3)
           ELSE LET nl == Append(L.v.l, TokBytes(c[3])) IN Ret(PSet(S, k, VList(nl)), L, RInt(Len(nl)))

\* commands whose handler is one keyspace step
SingleStep(c) == c[1].s \in {"MGET", "MSET"}

----------------------------------------------------------------------------
Init == /\ \E pr \in Pairs : cmds = pr
        /\ \E S0 \in Inits : store = S0 /\ init = S0
        /\ pc = [p \in Procs |-> 1] /\ loc = [p \in Procs |-> NoLoc]
        /\ reply = [p \in Procs |-> RNil] /\ sched = <<>>

Move(p) == /\ pc[p] # 0
           /\ LET s == Step(store, cmds[p], pc[p], loc[p]) IN
              /\ store' = s.S
              /\ loc' = [loc EXCEPT ![p] = s.L]
              /\ pc' = [pc EXCEPT ![p] = s.next]
              /\ reply' = [reply EXCEPT ![p] = s.r]
           /\ sched' = Append(sched, p)
           /\ UNCHANGED <<cmds, init>>

Next == \E p \in Procs : Move(p)
Spec == Init /\ [][Next]_vars

Done == \A p \in Procs : pc[p] = 0

----------------------------------------------------------------------------
\* the serial oracle
Serial(order) ==
    LET o1 == Exec([S |-> init, now |-> Now, db |-> DB, D |-> {}], cmds[order[1]], RNil)
        o2 == Exec([S |-> o1.S, now |-> Now, db |-> DB, D |-> {}], cmds[order[2]], RNil)
    IN [S |-> Norm(o2.S, Now), r |-> [p \in Procs |-> IF p = order[1] THEN o1.r ELSE o2.r],
        skip |-> o1.rel = "skip" \/ o2.rel = "skip"]

\* some command of the pair is outside the sequential model on this store (e.g. MGET of a list)
OutOfModel == Serial(<<1, 2>>).skip \/ Serial(<<2, 1>>).skip

Outcome == [S |-> Norm(store, Now), r |-> reply, skip |-> FALSE]

Serializable == Outcome = Serial(<<1, 2>>) \/ Outcome = Serial(<<2, 1>>)

IsSolo(order) == LET n == Cardinality({i \in 1..Len(sched) : sched[i] = order[1]}) IN
                 \A i \in 1..Len(sched) : (i <= n) = (sched[i] = order[1])

\* a handler program run alone is the sequential meaning of the command
SoloIsExec == (Done /\ ~OutOfModel) => /\ (IsSolo(<<1, 2>>) => Outcome = Serial(<<1, 2>>))
                      /\ (IsSolo(<<2, 1>>) => Outcome = Serial(<<2, 1>>))

\* commands that are a single critical section are atomic with respect to each other
AtomicPairs == (Done /\ ~OutOfModel /\ SingleStep(cmds[1]) /\ SingleStep(cmds[2])) => Serializable

\* export of complete behaviours for the replayer (always TRUE)
StoreSeq(S) == SetToSeq({[db |-> x[1], key |-> x[2], v |-> S[x].v, d |-> S[x].d] : x \in DOMAIN S})

Export == Done => PrintT(<<"BEH", ToJson([cmds |-> cmds, init |-> StoreSeq(init), sched |-> sched,
                                            replies |-> <<reply[1], reply[2]>>,
                                            final |-> StoreSeq(Norm(store, Now)), serial |-> Serializable,
                                            skip |-> OutOfModel])>>)

=============================================================================
