------------------------------- MODULE MC_Wire -------------------------------
EXTENDS Wire
\* units are abstract; the replayer maps a kind to real bytes (big = a frame of exactly 8192 bytes, huge = more)
MCKinds == {"ping", "echo", "bad", "big"}
MCSize(k) == CASE k = "ping" -> 2 [] k = "echo" -> 3 [] k = "bad" -> 2 [] k = "big" -> 4
=============================================================================
