------------------------------- MODULE MC_List -------------------------------
(***************************************************************************)
(* Bounded instance of Sugar for the list module (C15, with C01 / C13):    *)
(* the 13 list commands in one database over two keys and three elements ("a", "b", ""),   *)
(* presets with lists that contain duplicates, an empty list, a list with  *)
(* a deadline and keys of other types, plus DEL / SET / TYPE.              *)
(*                                                                         *)
(* Besides the generic properties of Sugar (ErrNoChange, Frame,            *)
(* ReadOnlyPure, Isolation) it checks laws of the list commands that are   *)
(* written from the property statement in terms of index sets and of       *)
(* relations between different commands, not in terms of the X operators   *)
(* of CmdList:  a mistake in an X operator breaks a law here.              *)
(***************************************************************************)
EXTENDS Sugar, TLC

K(k) == [s |-> k]
W(w) == [s |-> w]
V(b) == [b |-> b]
N(n) == [i |-> n]
\* direction words carry their bytes, as every symbol does in a recorded trace
Dw(w) == [s |-> w, b |-> CASE w = "LEFT" -> <<76, 69, 70, 84>> [] w = "RIGHT" -> <<82, 73, 71, 72, 84>>
                           [] w = "left" -> <<108, 101, 102, 116>> [] w = "Right" -> <<82, 105, 103, 104, 116>>
                           [] w = "UP" -> <<85, 80>>]

MCKeys == {"k1", "k2"}
ea == <<97>>
eb == <<98>>
ee == <<>>
MCElems == {ea, eb, ee}

MCT0 == 100000

MCCmds ==
    {<<W(op), K(k), V(v)>> : op \in {"LPUSH", "RPUSH", "LPUSHX", "RPUSHX"}, k \in MCKeys, v \in {ea, eb}}
    \cup {<<W(op), K("k1"), V(ea), V(eb)>> : op \in {"LPUSH", "RPUSH", "LPUSHX"}}
    \cup {<<W("RPUSH"), K("k2"), V(ee), V(ea), V(ea)>>}
    \cup {<<W(op), K(k)>> : op \in {"LPOP", "RPOP", "LLEN", "DEL", "TYPE"}, k \in MCKeys}
    \cup {<<W(op), K("k1"), N(c)>> : op \in {"LPOP", "RPOP"}, c \in {0, 2, -1}} \cup {<<W("RPOP"), K("k2"), N(9)>>}
    \cup {<<W("LINDEX"), K("k1"), N(i)>> : i \in {0, -1, -3, 5}}
    \cup {<<W("LRANGE"), K("k1"), N(s), N(e)>> : s \in {0, 1, -2, -5}, e \in {-1, 1, 5, -4}}
    \cup {<<W("LRANGE"), K("k2"), N(0), N(-1)>>}
    \cup {<<W("LSET"), K("k1"), N(i), V(eb)>> : i \in {0, -1, 2, -4}} \cup {<<W("LSET"), K("k1"), N(1), V(ee)>>}
    \cup {<<W("LTRIM"), K("k1"), N(s), N(e)>> : s \in {0, 1, -2, -5}, e \in {-1, 1, -3}}
    \cup {<<W("LTRIM"), K("k2"), N(1), N(5)>>}
    \cup {<<W("LREM"), K("k1"), N(c), V(v)>> : c \in {0, 1, -1, 2, -2}, v \in {ea, eb}}
    \cup {<<W("LMOVE"), K(s), K(d), Dw(f), Dw(t)>> : s \in MCKeys, d \in MCKeys, f \in {"LEFT", "RIGHT"}, t \in {"LEFT", "RIGHT"}}
    \* malformed: arities, non-numeric arguments, unknown direction, lower-case direction
    \cup {<<W(op), K("k1")>> : op \in {"LPUSH", "LINDEX", "LSET", "LREM", "LMOVE"}} \cup {<<W("LLEN")>>}
    \cup {<<W("LLEN"), K("k1"), K("k2")>>, <<W("LPOP"), K("k1"), N(1), N(1)>>, <<W("LINDEX"), K("k1"), N(0), N(0)>>,
          <<W("LRANGE"), K("k1"), N(0), N(1), N(2)>>, <<W("LMOVE"), K("k1"), K("k2"), Dw("LEFT"), Dw("LEFT"), Dw("LEFT")>>}
    \cup {<<W("LPOP"), K("k1"), V(<<120>>)>>, <<W("LINDEX"), K("k1"), V(<<120>>)>>, <<W("LRANGE"), K("k1"), N(0), V(<<120>>)>>,
          <<W("LRANGE"), K("k1"), V(<<49, 46, 53>>), N(1)>>, <<W("LSET"), K("k1"), V(<<>>), V(ea)>>,
          <<W("LTRIM"), K("k1"), V(<<120>>), N(1)>>, <<W("LREM"), K("k1"), V(<<120>>), V(ea)>>,
          <<W("LREM"), K("k2"), V(<<45>>), V(ea)>>}
    \cup {<<W("LMOVE"), K("k1"), K("k2"), Dw("UP"), Dw("LEFT")>>, <<W("LMOVE"), K("k1"), K("k2"), Dw("left"), Dw("Right")>>}
    \cup {<<W("SET"), K("k2"), V(<<118>>)>>}

MCInits ==
    { EmptyStore,
      (<<"0", "k1">> :> Ent(VList(<<ea, eb, ea>>), NoD)),
      (<<"0", "k1">> :> Ent(VList(<<ea, ea, eb, ea>>), MCT0 + 400)) @@ (<<"0", "k2">> :> Ent(VStr(<<122>>), NoD))
,
      (<<"0", "k1">> :> Ent(VList(<<>>), NoD)) @@ (<<"0", "k2">> :> Ent(VList(<<eb, ee>>), NoD)),
      (<<"0", "k1">> :> Ent(VHash(<<102>> :> VStr(<<118>>)), NoD)) @@ (<<"0", "k2">> :> Ent(VSet({ea}), NoD)),
      (<<"0", "k1">> :> Ent(VList(<<eb, ea>>), MCT0 - 1)) @@ (<<"0", "k2">> :> Ent(VInt(7), NoD)) }

MCDBs == {"0"}
MCTicks == {500}

----------------------------------------------------------------------------
\* vocabulary of the laws (nothing below refers to an operator of CmdList)

LReadOps == {"LLEN", "LRANGE", "LINDEX"}
LOps == {"LPUSH", "LPUSHX", "RPUSH", "RPUSHX", "LPOP", "RPOP", "LLEN", "LRANGE", "LINDEX", "LSET", "LTRIM", "LREM", "LMOVE"}

\* the list an observer sees under key k of database d at time t (<<>> when there is none)
HasList(S, t, d, k) == <<d, k>> \in DOMAIN S /\ LiveEnt(S[<<d, k>>], t) /\ S[<<d, k>>].v.k = "list"
Seen(S, t, d, k)    == IF HasList(S, t, d, k) THEN S[<<d, k>>].v.l ELSE <<>>
Absent(S, t, d, k)  == ~(<<d, k>> \in DOMAIN S /\ LiveEnt(S[<<d, k>>], t))

WasList(k) == HasList(store, now', db, k)
IsList(k)  == HasList(store', now', db', k)
Before(k)  == Seen(store, now', db, k)
After(k)   == Seen(store', now', db', k)

Ask(S, t, d, a) == Exec([S |-> S, now |-> t, db |-> d, D |-> {}], a, RNil)

Args(a, from) == [i \in 1..(Len(a) - from + 1) |-> a[i + from - 1].b]

\* elements of l at the positions in I, in list order
Pick(l, I) == LET F[i \in 0..Len(l)] == IF i = 0 THEN <<>> ELSE IF i \in I THEN Append(F[i - 1], l[i]) ELSE F[i - 1]
              IN F[Len(l)]

\* zero-based positions denoted by the index pair (s, e): negative indices count from the tail;
\* positions outside the list simply do not exist
Span(n, s, e) == LET lo == IF s < 0 THEN n + s ELSE s
                     hi == IF e < 0 THEN n + e ELSE e
                 IN {i \in 0..(n - 1) : lo <= i /\ i <= hi}

Bulks(l) == RArr([i \in 1..Len(l) |-> RStr(l[i])])

Done(op) == last' # NoCmd /\ OpOf(last') = op

----------------------------------------------------------------------------
\* C13: the three read commands change nothing; C01: a list command on a key of another type fails
LReadOnlyPure == [][last' # NoCmd /\ OpOf(last') \in LReadOps => Norm(store', now') = Norm(store, now')]_vars

LWrongType ==
    [][(last' # NoCmd /\ OpOf(last') \in LOps /\ Len(last') >= 2
          /\ ~Absent(store, now', db, last'[2].s) /\ ~WasList(last'[2].s))
        => reply'.t = "err" /\ store' = store]_vars

\* a list command names one key (LMOVE two) and changes nothing else
LFrame ==
    [][(last' # NoCmd /\ OpOf(last') \in LOps /\ Len(last') >= 2) =>
          LET named == IF OpOf(last') = "LMOVE" /\ Len(last') >= 3 THEN {last'[2].s, last'[3].s} ELSE {last'[2].s} IN
          \A x \in (DOMAIN store) \cup (DOMAIN store') :
              (x[1] # db \/ ~(x[2] \in named)) => (x \in DOMAIN store /\ x \in DOMAIN store' /\ store'[x] = store[x])]_vars

\* LLEN, LINDEX and LRANGE describe one and the same sequence
ReadsAgree ==
    \A k \in MCKeys :
        LET l == Seen(store, now, db, k) IN
        HasList(store, now, db, k) =>
            /\ Ask(store, now, db, <<W("LLEN"), K(k)>>).r = RInt(Len(l))
            /\ Ask(store, now, db, <<W("LRANGE"), K(k), N(0), N(-1)>>).r = Bulks(l)
            /\ \A i \in (-Len(l) - 2)..(Len(l) + 1) :
                  Ask(store, now, db, <<W("LINDEX"), K(k), N(i)>>).r
                    = (LET p == IF i < 0 THEN Len(l) + i ELSE i IN IF p \in 0..(Len(l) - 1) THEN RStr(l[p + 1]) ELSE RNil)

\* LRANGE returns exactly the elements whose position lies in the span, in order
RangeLaw ==
    [][(Done("LRANGE") /\ Len(last') = 4 /\ WasList(last'[2].s) /\ IsIntT(last'[3]) /\ IsIntT(last'[4])) =>
          LET l == Before(last'[2].s) IN
          reply' = Bulks(Pick(l, {i + 1 : i \in Span(Len(l), last'[3].i, last'[4].i)}))]_vars

\* a successful push: the reply is the new length, the old list is still there, in order, after
\* (LPUSH) or before (RPUSH) the new elements, which appear in argument order
PushLaw ==
    [][(last' # NoCmd /\ OpOf(last') \in {"LPUSH", "LPUSHX", "RPUSH", "RPUSHX"} /\ reply'.t = "int") =>
          LET k    == last'[2].s
              old  == Before(k)
              new  == After(k)
              els  == Args(last', 3)
              left == OpOf(last') \in {"LPUSH", "LPUSHX"}
          IN /\ IsList(k) /\ Len(new) = Len(old) + Len(els) /\ reply'.n = Len(new)
             /\ (OpOf(last') \in {"LPUSHX", "RPUSHX"} => WasList(k))
             /\ \A i \in 1..Len(els) : new[IF left THEN i ELSE Len(old) + i] = els[i]
             /\ \A i \in 1..Len(old) : new[IF left THEN Len(els) + i ELSE i] = old[i]]_vars

\* a pop without count returns the end element, and putting it back gives the old list
PopLaw ==
    [][(last' # NoCmd /\ OpOf(last') \in {"LPOP", "RPOP"} /\ Len(last') = 2 /\ reply'.t = "str") =>
          LET k == last'[2].s IN
          /\ WasList(k) /\ IsList(k)
          /\ Before(k) = (IF OpOf(last') = "LPOP" THEN <<reply'.b>> \o After(k) ELSE After(k) \o <<reply'.b>>)]_vars

\* a pop with count: what was popped, re-attached in the order it was popped, restores the list
PopCountLaw ==
    [][(last' # NoCmd /\ OpOf(last') \in {"LPOP", "RPOP"} /\ Len(last') = 3 /\ reply'.t = "arr") =>
          LET k   == last'[2].s
              got == [i \in 1..Len(reply'.a) |-> reply'.a[i].b]
              c   == IF last'[3].i < 0 THEN -last'[3].i ELSE last'[3].i
          IN /\ WasList(k) /\ IsList(k)
             /\ Len(got) = (IF c < Len(Before(k)) THEN c ELSE Len(Before(k)))
             /\ Len(After(k)) = Len(Before(k)) - Len(got)
             /\ IF OpOf(last') = "LPOP"
                THEN Before(k) = got \o After(k)
                ELSE /\ \A i \in 1..Len(After(k)) : After(k)[i] = Before(k)[i]
                     /\ \A i \in 1..Len(got) : got[i] = Before(k)[Len(Before(k)) + 1 - i]]_vars

\* LSET replaces exactly one position, the one LINDEX reads with the same index
SetLaw ==
    [][(Done("LSET") /\ reply'.t = "ok") =>
          LET k == last'[2].s   old == Before(k)   new == After(k)
              p == IF last'[3].i < 0 THEN Len(old) + last'[3].i ELSE last'[3].i
          IN /\ WasList(k) /\ IsList(k) /\ Len(new) = Len(old) /\ p \in 0..(Len(old) - 1)
             /\ new[p + 1] = last'[4].b
             /\ \A i \in 1..Len(old) : i # p + 1 => new[i] = old[i]
             /\ Ask(store', now', db', <<W("LINDEX"), last'[2], last'[3]>>).r = RStr(last'[4].b)]_vars

\* what LTRIM s e keeps is what LRANGE s e showed
TrimLaw ==
    [][(Done("LTRIM") /\ reply'.t = "ok" /\ WasList(last'[2].s)) =>
          LET k == last'[2].s
              shown == Ask(store, now', db, <<W("LRANGE"), last'[2], last'[3], last'[4]>>).r
          IN /\ Ask(store', now', db', <<W("LRANGE"), last'[2], N(0), N(-1)>>).r = shown
             /\ (~IsList(k) => shown = Bulks(<<>>) /\ Absent(store', now', db', k))
             /\ (IsList(k) => After(k) = Pick(Before(k), {i + 1 : i \in Span(Len(Before(k)), last'[3].i, last'[4].i)}))]_vars

\* LREM k c v removes min(|c|, occurrences) copies of v (all when c = 0): the first ones when
\* c >= 0, the last ones when c < 0; nothing else moves
RemLaw ==
    [][(Done("LREM") /\ reply'.t = "int" /\ WasList(last'[2].s)) =>
          LET k   == last'[2].s   old == Before(k)   new == After(k)
              c   == last'[3].i   v == last'[4].b
              occ == {i \in 1..Len(old) : old[i] = v}
              m   == IF c = 0 \/ Cardinality(occ) < Abs(c) THEN Cardinality(occ) ELSE Abs(c)
              gone == IF c >= 0 THEN {i \in occ : Cardinality({j \in occ : j < i}) < m}
                      ELSE {i \in occ : Cardinality({j \in occ : j > i}) < m}
          IN /\ reply'.n = m /\ IsList(k)
             /\ new = Pick(old, (1..Len(old)) \ gone)]_vars

\* LMOVE: one element leaves one end of the source and arrives at one end of the destination
MoveLaw ==
    [][(Done("LMOVE") /\ reply'.t = "ok") =>
          LET s == last'[2].s   d == last'[3].s
              f == IF KW(last'[4]) = "LEFT" THEN "LEFT" ELSE "RIGHT"
              t == IF KW(last'[5]) = "LEFT" THEN "LEFT" ELSE "RIGHT"
              os == Before(s)   od == Before(d)   ns == After(s)   nd == After(d)
          IN /\ WasList(s) /\ WasList(d) /\ IsList(s) /\ IsList(d) /\ Len(os) >= 1
             /\ LET e    == IF f = "LEFT" THEN os[1] ELSE os[Len(os)]
                    rest == IF f = "LEFT" THEN SubSeq(os, 2, Len(os)) ELSE SubSeq(os, 1, Len(os) - 1)
                    into == IF s = d THEN rest ELSE od
                IN /\ (s # d => ns = rest)
                   /\ nd = (IF t = "LEFT" THEN <<e>> \o into ELSE into \o <<e>>)
                   /\ (s = d => Len(nd) = Len(os))]_vars

\* moving an element there and back again (opposite ends swapped) restores both lists
MoveBack ==
    \A s \in MCKeys, d \in MCKeys, f \in {"LEFT", "RIGHT"}, t \in {"LEFT", "RIGHT"} :
        LET o1 == Ask(store, now, db, <<W("LMOVE"), K(s), K(d), Dw(f), Dw(t)>>) IN
        o1.r = ROk => Ask(o1.S, now, db, <<W("LMOVE"), K(d), K(s), Dw(t), Dw(f)>>).S = store

\* a failed or empty-handed command (error, nil, 0 from LREM/LLEN of a missing key) leaves no key behind
NoGhostKeys ==
    [][(last' # NoCmd /\ OpOf(last') \in LOps /\ reply'.t \in {"err", "nil"}) => store' = store]_vars

=============================================================================
