SPECIFICATION Spec
CONSTANT Deviations = {"AdaptCanon"}
INVARIANT Report
POSTCONDITION TraceAccepted
CHECK_DEADLOCK FALSE
