------------------------------ MODULE MC_ZSet ------------------------------
(***************************************************************************)
(* Bounded instance of Sugar for the sorted-set module (C17, and the parts *)
(* of C01 / C13 that concern it): the Z* commands over two keys and three  *)
(* members ("a", "b", "ab": a tie, a prefix pair), scores {0, 1, 2, +-inf} *)
(* with equal scores on purpose, presets that also hold other value types  *)
(* and one key with a deadline the clock can pass.                         *)
(* Checked: ErrNoChange, Frame (from Sugar), ZReadOnlyPure, and laws about *)
(* the sorted-set reference that are written here from scratch (they use   *)
(* their own notion of order, MBefore, not the operators of CmdZSet).      *)
(* ZRANDMEMBER (random choice) is not in the alphabet.                     *)
(***************************************************************************)
EXTENDS Sugar, TLC

K(k)   == [s |-> k]
W(w)   == [s |-> w]
V(b)   == [b |-> b]
N(n)   == [i |-> n]
Qt(q)  == [q |-> q, inf |-> 0]
QI(sg) == [q |-> 0, inf |-> sg]

mA == <<97>>   mB == <<98>>   mAB == <<97, 98>>

MZKeys == {"k1", "k2"}
MZT0 == 100000

MZCmds ==
    {<<W("ZADD"), K(k), Qt(q), V(m)>> : k \in MZKeys, q \in {0, 4}, m \in {mA, mB}}
    \cup {<<W("ZADD"), K("k1"), W(f), Qt(8), V(mA)>> : f \in {"NX", "XX", "GT", "LT", "CH", "INCR"}}
    \cup {<<W("ZADD"), K("k1"), W("XX"), W("INCR"), Qt(4), V(mAB)>>, <<W("ZADD"), K("k1"), W("NX"), W("GT"), Qt(4), V(mA)>>,
          <<W("ZADD"), K("k1"), W("GT"), W("CH"), Qt(0), V(mA), Qt(8), V(mB), Qt(4), V(mB)>>,
          <<W("ZADD"), K("k2"), QI(1), V(mB), QI(-1), V(mAB)>>, <<W("ZADD"), K("k1"), Qt(4), V(mA), V(<<120>>), V(mB)>>,
          <<W("ZADD"), K("k1"), Qt(4)>>, <<W("ZADD"), K("k1"), W("INCR"), Qt(4), V(mA), Qt(4), V(mB)>>}
    \cup {<<W("ZCARD"), K(k)>> : k \in MZKeys}
    \cup {<<W("ZCOUNT"), K("k1"), Qt(0), Qt(4)>>, <<W("ZCOUNT"), K("k1"), QI(-1), QI(1)>>, <<W("ZCOUNT"), K("k1"), V(<<120>>), Qt(4)>>,
          <<W("ZLEXCOUNT"), K("k1"), V(mA), V(mAB)>>, <<W("ZSCORE"), K("k1"), V(mA)>>, <<W("ZMSCORE"), K("k1"), V(mA), V(mAB)>>,
          <<W("ZRANK"), K("k1"), V(mB)>>, <<W("ZREVRANK"), K("k1"), V(mB), W("WITHSCORES")>>}
    \cup {<<W("ZINCRBY"), K("k1"), Qt(4), V(mA)>>, <<W("ZINCRBY"), K("k2"), Qt(-4), V(mB)>>, <<W("ZINCRBY"), K("k1"), V(<<120>>), V(mA)>>}
    \cup {<<W("ZREM"), K("k1"), V(mA)>>, <<W("ZREM"), K("k1"), V(mA), V(mB), V(mA)>>,
          <<W("ZREMRANGEBYSCORE"), K("k1"), Qt(0), Qt(4)>>, <<W("ZREMRANGEBYRANK"), K("k1"), N(0), N(0)>>,
          <<W("ZREMRANGEBYRANK"), K("k1"), N(-1), N(0)>>, <<W("ZREMRANGEBYRANK"), K("k1"), N(0), N(5)>>,
          <<W("ZREMRANGEBYLEX"), K("k1"), V(mA), V(mAB)>>}
    \cup {<<W(op), K(k)>> : op \in {"ZPOPMIN", "ZPOPMAX"}, k \in MZKeys}
    \cup {<<W("ZPOPMIN"), K("k1"), N(2)>>, <<W("ZPOPMAX"), K("k1"), N(0)>>, <<W("ZPOPMIN"), K("k1"), V(<<120>>)>>,
          <<W("ZMPOP"), K("k1"), K("k2"), W("MIN")>>, <<W("ZMPOP"), K("k2"), K("k1"), W("MAX"), W("COUNT"), N(2)>>,
          <<W("ZMPOP"), K("k1"), W("COUNT"), N(0)>>}
    \cup {<<W("ZRANGE"), K("k1"), QI(-1), QI(1)>>, <<W("ZRANGE"), K("k1"), Qt(0), Qt(4), W("REV"), W("WITHSCORES")>>,
          <<W("ZRANGE"), K("k1"), QI(-1), QI(1), W("LIMIT"), N(1), N(1)>>, <<W("ZRANGE"), K("k1"), V(mA), V(mB), W("BYLEX")>>,
          <<W("ZRANGE"), K("k1"), QI(-1), QI(1), W("LIMIT"), N(-1), N(1)>>,
          <<W("ZRANGESTORE"), K("k2"), K("k1"), QI(-1), QI(1)>>, <<W("ZRANGESTORE"), K("k1"), K("k1"), Qt(0), Qt(4), W("LIMIT"), N(0), N(1)>>}
    \cup {<<W("ZDIFF"), K("k1"), K("k2")>>, <<W("ZDIFF"), K("k2"), K("k1"), W("WITHSCORES")>>,
          <<W("ZDIFFSTORE"), K("k1"), K("k1"), K("k2")>>, <<W("ZDIFFSTORE"), K("k2"), K("k1")>>,
          <<W("ZINTER"), K("k1"), K("k2"), W("WITHSCORES")>>, <<W("ZINTER"), K("k1"), K("k2"), W("WEIGHTS"), N(1)>>,
          <<W("ZINTERSTORE"), K("k1"), K("k1"), K("k2"), W("WEIGHTS"), N(2), N(1), W("AGGREGATE"), W("MAX")>>,
          <<W("ZINTERSTORE"), K("k2"), K("k1"), W("AGGREGATE")>>,
          <<W("ZUNION"), K("k1"), K("k2"), W("WEIGHTS"), N(1), N(2), W("WITHSCORES")>>, <<W("ZUNION"), K("k1"), W("AGGREGATE"), W("MIN")>>,
          <<W("ZUNIONSTORE"), K("k2"), K("k1"), K("k2"), W("AGGREGATE"), W("MIN")>>, <<W("ZUNIONSTORE"), K("k1"), K("k1"), K("k1")>>}
    \cup {<<W("ZADD"), K("k2"), W(f), Qt(8), V(mB)>> : f \in {"NX", "XX", "GT", "LT"}}
    \cup {<<W("ZADD"), K("k2"), W("LT"), W("CH"), Qt(0), V(mB), Qt(0), V(mAB)>>, <<W("ZADD"), K("k2"), W("XX"), W("CH"), W("INCR"), Qt(-4), V(mB)>>,
          <<W("ZADD"), K("k1"), W("BOGUS"), Qt(4), V(mA)>>, <<W("ZADD"), K("k1"), W("GT"), W("INCR"), Qt(-4), V(mA)>>}
    \cup {<<W("ZRANGE"), K("k2"), QI(-1), QI(1), W("REV"), W("LIMIT"), N(0), N(2)>>, <<W("ZRANGE"), K("k2"), V(<<>>), V(<<255>>), W("BYLEX"), W("REV")>>,
          <<W("ZRANGE"), K("k1"), QI(1), QI(-1)>>, <<W("ZRANGE"), K("k1"), V(<<120>>), Qt(4)>>, <<W("ZRANGE"), K("k1"), Qt(0), Qt(8), W("LIMIT"), N(1)>>,
          <<W("ZRANGE"), K("k1"), QI(-1), QI(1), W("LIMIT"), N(0), N(-1), W("WITHSCORES")>>,
          <<W("ZRANGESTORE"), K("k2"), K("k2"), QI(-1), QI(1), W("REV"), W("LIMIT"), N(1), N(5)>>,
          <<W("ZRANGESTORE"), K("k1"), K("k2"), V(mA), V(mB), W("BYLEX")>>}
    \cup {<<W("ZUNION"), K("k1"), K("k2"), W("AGGREGATE"), W("MAX"), W("WEIGHTS"), N(-1), N(2)>>,
          <<W("ZINTER"), K("k1"), K("k1"), W("WEIGHTS"), N(2), Qt(2), W("AGGREGATE"), W("SUM"), W("WITHSCORES")>>,
          <<W("ZUNION"), K("k1"), W("WEIGHTS"), N(1), N(2)>>, <<W("ZINTERSTORE"), K("k2"), K("k1"), W("WEIGHTS"), N(3)>>,
          <<W("ZUNIONSTORE"), K("k1"), K("k2"), W("WEIGHTS"), V(<<120>>)>>, <<W("ZDIFF"), W("WITHSCORES")>>, <<W("ZDIFF"), K("k2")>>}
    \cup {<<W("ZREMRANGEBYSCORE"), K("k2"), QI(-1), QI(1)>>, <<W("ZREMRANGEBYRANK"), K("k2"), N(1), N(-1)>>, <<W("ZREMRANGEBYLEX"), K("k2"), V(<<>>), V(mB)>>,
          <<W("ZCOUNT"), K("k2"), QI(1), QI(1)>>, <<W("ZRANK"), K("k2"), V(mAB), W("WITHSCORES")>>, <<W("ZLEXCOUNT"), K("k2"), V(<<>>), V(<<255>>)>>,
          <<W("ZMSCORE"), K("k2"), V(mB)>>, <<W("ZSCORE"), K("k2"), V(mB), V(mB)>>, <<W("ZCARD")>>, <<W("ZREM"), K("k2")>>, <<W("ZINCRBY"), K("k2"), QI(1), V(mA)>>,
          <<W("ZMPOP"), K("k2"), W("MAX"), W("COUNT")>>, <<W("ZPOPMAX"), K("k2"), N(5)>>}
    \cup {<<W("DEL"), K("k1")>>, <<W("SET"), K("k2"), V(<<120>>)>>}

MSc(q) == [q |-> q, inf |-> 0]
MInf(sg) == [q |-> 0, inf |-> sg]

MZInits ==
    { EmptyStore,
      (<<"0", "k1">> :> Ent(VZSet((mA :> MSc(4)) @@ (mB :> MSc(4)) @@ (mAB :> MSc(0))), NoD)),
      (<<"0", "k1">> :> Ent(VZSet((mA :> MSc(4)) @@ (mB :> MInf(1))), NoD))
          @@ (<<"0", "k2">> :> Ent(VZSet((mB :> MSc(8)) @@ (mAB :> MInf(-1))), MZT0 + 400)),
      (<<"0", "k1">> :> Ent(VStr(<<120>>), NoD)) @@ (<<"0", "k2">> :> Ent(VZSet((mA :> MSc(0))), NoD)),
      (<<"0", "k1">> :> Ent(VZSet((mA :> MSc(4))), NoD)) @@ (<<"0", "k2">> :> Ent(VList(<<mA>>), NoD)) }

MZDBs == {"0"}
MZTicks == {500}

----------------------------------------------------------------------------
\* C13: the commands documented as reads change nothing at all
ZReadOps == {"ZCARD", "ZCOUNT", "ZDIFF", "ZINTER", "ZLEXCOUNT", "ZMSCORE", "ZRANDMEMBER", "ZRANGE", "ZRANK",
             "ZREVRANK", "ZSCORE", "ZUNION"}
ZReadOnlyPure == [][last' # NoCmd /\ OpOf(last') \in ZReadOps => store' = store]_vars

\* C01 for this module: a Z command on a live key of another type fails (and by ErrNoChange
\* changes nothing).  Only single-key commands and the first key are covered here.
ZWrongTypeFails ==
    [][(last' # NoCmd /\ OpOf(last') \in ZSetOps /\ Len(last') >= 2 /\ ~(OpOf(last') \in {"ZDIFFSTORE", "ZINTERSTORE", "ZUNIONSTORE", "ZRANGESTORE"})
        /\ LiveS(store, now, db, last'[2].s) /\ store[<<db, last'[2].s>>].v.k # "zset")
       => reply'.t = "err"]_vars

----------------------------------------------------------------------------
\* laws, written without the operators of CmdZSet

Ask(S, cmd) == Exec([S |-> S, now |-> now, db |-> db, D |-> {}], cmd, RNil).r

IsZ(S, k) == LiveS(S, now, db, k) /\ S[<<db, k>>].v.k = "zset"
ZMap(S, k) == IF IsZ(S, k) THEN S[<<db, k>>].v.z ELSE <<>>

\* scores as integers for comparison (the alphabet's finite scores are tiny)
MVal(x) == IF x.inf > 0 THEN 1000000 ELSE IF x.inf < 0 THEN -1000000 ELSE x.q
MBefore(z, m1, m2) == MVal(z[m1]) < MVal(z[m2]) \/ (MVal(z[m1]) = MVal(z[m2]) /\ LexLess(m1, m2))
MText(x) == IF x.inf > 0 THEN <<43, 73, 110, 102>> ELSE IF x.inf < 0 THEN <<45, 73, 110, 102>> ELSE FmtQ(x.q)

FullRange(S, k) == Ask(S, <<W("ZRANGE"), K(k), QI(-1), QI(1), W("WITHSCORES")>>)

\* L1  ZRANGE -inf +inf lists every member once with its score, strictly increasing in (score, member)
LawRangeIsTheOrder ==
    \A k \in MZKeys : IsZ(store, k) =>
        LET z == ZMap(store, k)   r == FullRange(store, k) IN
        /\ r.t = "arr" /\ Len(r.a) = Cardinality(DOMAIN z)
        /\ \A i \in 1..Len(r.a) : r.a[i].a[1].b \in DOMAIN z /\ r.a[i].a[2].b = MText(z[r.a[i].a[1].b])
        /\ \A i \in 1..(Len(r.a) - 1) : MBefore(z, r.a[i].a[1].b, r.a[i + 1].a[1].b)

\* L2  ZRANK is the number of members before m; ZRANK + ZREVRANK = card - 1; ZSCORE is the score
LawRank ==
    \A k \in MZKeys : IsZ(store, k) =>
        LET z == ZMap(store, k) IN
        \A m \in {mA, mB, mAB} :
            LET rk == Ask(store, <<W("ZRANK"), K(k), V(m)>>)
                rv == Ask(store, <<W("ZREVRANK"), K(k), V(m)>>)
                sc == Ask(store, <<W("ZSCORE"), K(k), V(m)>>)
            IN IF m \in DOMAIN z
               THEN /\ rk = RArr(<<RInt(Cardinality({y \in DOMAIN z : MBefore(z, y, m)}))>>)
                    /\ rv.t = "arr" /\ rk.a[1].n + rv.a[1].n = Cardinality(DOMAIN z) - 1
                    /\ sc = RStr(MText(z[m]))
               ELSE rk = RNil /\ rv = RNil /\ sc = RNil

\* L3  ZCARD and ZCOUNT agree with the map and with the by-score range
LawCount ==
    \A k \in MZKeys : IsZ(store, k) =>
        LET z == ZMap(store, k) IN
        /\ Ask(store, <<W("ZCARD"), K(k)>>) = RInt(Cardinality(DOMAIN z))
        /\ \A lo \in {-4, 0, 4} : \A hi \in {0, 4, 8} :
              LET c == Ask(store, <<W("ZCOUNT"), K(k), Qt(lo), Qt(hi)>>)
                  r == Ask(store, <<W("ZRANGE"), K(k), Qt(lo), Qt(hi), W("BYSCORE")>>)
              IN /\ c = RInt(Cardinality({m \in DOMAIN z : z[m].inf = 0 /\ lo <= z[m].q /\ z[m].q <= hi}))
                 /\ r.t = "arr" /\ Len(r.a) = c.n

\* L3b  REV is the mirror image of the order; LIMIT offset count is the window [offset, offset + count)
\*      of the selected members (count < 0: to the end)
Members(r) == [i \in 1..Len(r.a) |-> r.a[i].a[1].b]
LawRevLimit ==
    \A k \in MZKeys : IsZ(store, k) =>
        LET full == Members(FullRange(store, k))   n == Len(full) IN
        /\ Members(Ask(store, <<W("ZRANGE"), K(k), QI(-1), QI(1), W("REV")>>)) = [i \in 1..n |-> full[n + 1 - i]]
        /\ \A off \in 0..2 : \A cnt \in -1..2 :
              LET r    == Members(Ask(store, <<W("ZRANGE"), K(k), QI(-1), QI(1), W("LIMIT"), N(off), N(cnt)>>))
                  room == IF n > off THEN n - off ELSE 0
                  len  == IF cnt < 0 \/ cnt > room THEN room ELSE cnt
              IN r = [i \in 1..len |-> full[off + i]]

\* L4  algebra: one-operand ZUNION is the operand; ZINTER / ZDIFF select by membership in both / only the first
BagMembers(r) == {r.a[i].a[1].b : i \in 1..Len(r.a)}
LawAlgebra ==
    /\ \A k \in MZKeys : IsZ(store, k) =>
          LET u == Ask(store, <<W("ZUNION"), K(k), W("WITHSCORES")>>)   z == ZMap(store, k) IN
          /\ u.t = "bag" /\ Len(u.a) = Cardinality(DOMAIN z)
          /\ \A i \in 1..Len(u.a) : u.a[i].a[1].b \in DOMAIN z /\ u.a[i].a[2].b = MText(z[u.a[i].a[1].b])
    /\ (IsZ(store, "k1") /\ IsZ(store, "k2")) =>
          LET z1 == ZMap(store, "k1")   z2 == ZMap(store, "k2")
              i == Ask(store, <<W("ZINTER"), K("k1"), K("k2")>>)
              d == Ask(store, <<W("ZDIFF"), K("k1"), K("k2")>>)
              u == Ask(store, <<W("ZUNION"), K("k1"), K("k2")>>)
          IN /\ BagMembers(i) = (DOMAIN z1) \cap (DOMAIN z2) /\ Len(i.a) = Cardinality(BagMembers(i))
             /\ BagMembers(d) = (DOMAIN z1) \ (DOMAIN z2)     /\ Len(d.a) = Cardinality(BagMembers(d))
             /\ BagMembers(u) = (DOMAIN z1) \cup (DOMAIN z2)  /\ Len(u.a) = Cardinality(BagMembers(u))

\* L5  a successful plain ZADD (no CH, no INCR) replies the growth of ZCARD, and every pair named last
\*     without NX/XX/GT/LT has its score afterwards
LawZAddGrowth ==
    [][(last' # NoCmd /\ OpOf(last') = "ZADD" /\ reply'.t = "int"
        /\ \A i \in 3..Len(last') : ~(KW(last'[i]) \in {"CH", "INCR"}))
       => Cardinality(DOMAIN ZMap(store', last'[2].s)) = Cardinality(DOMAIN ZMap(store, last'[2].s)) + reply'.n]_vars

LawZAddSets ==
    [][(last' # NoCmd /\ OpOf(last') = "ZADD" /\ Len(last') = 4 /\ reply'.t = "int")
       => Ask(store', <<W("ZSCORE"), last'[2], last'[4]>>) = RStr(MText([q |-> last'[3].q, inf |-> last'[3].inf]))]_vars

\* L6  ZPOPMIN / ZPOPMAX remove exactly the head / tail of the order, as many as asked (at least one)
LawPop ==
    [][(last' # NoCmd /\ OpOf(last') \in {"ZPOPMIN", "ZPOPMAX"} /\ reply'.t = "bag" /\ IsZ(store, last'[2].s))
       => LET k   == last'[2].s
              z   == ZMap(store, k)
              ord == FullRange(store, k)
              n   == Len(reply'.a)
              want == IF Len(last') = 3 /\ last'[3].i > 0 THEN last'[3].i ELSE 1
              idx == IF OpOf(last') = "ZPOPMIN" THEN 1..n ELSE (Len(ord.a) - n + 1)..Len(ord.a)
          IN /\ n = (IF want < Len(ord.a) THEN want ELSE Len(ord.a))
             /\ BagMembers(reply') = {ord.a[i].a[1].b : i \in idx}
             /\ IsZ(store', k)
             /\ DOMAIN ZMap(store', k) = (DOMAIN z) \ BagMembers(reply')
             /\ \A m \in DOMAIN ZMap(store', k) : ZMap(store', k)[m] = z[m]]_vars

\* L7  ZINCRBY replies the new score, which ZSCORE then reports; other members keep theirs
LawIncr ==
    [][(last' # NoCmd /\ OpOf(last') = "ZINCRBY" /\ reply'.t = "str")
       => LET k == last'[2].s   m == last'[4].b   z == ZMap(store, k)   z2 == ZMap(store', k) IN
          /\ Ask(store', <<W("ZSCORE"), K(k), V(m)>>) = reply'
          /\ DOMAIN z2 = (DOMAIN z) \cup {m}
          /\ \A y \in DOMAIN z : y # m => z2[y] = z[y]
          /\ (m \in DOMAIN z /\ z[m].inf = 0 /\ last'[3].inf = 0) => z2[m] = [q |-> z[m].q + last'[3].q, inf |-> 0]]_vars

\* L8  a STORE form leaves in the destination exactly what the plain form replies (same operands)
LawStore ==
    [][(last' # NoCmd /\ OpOf(last') \in {"ZDIFFSTORE", "ZUNIONSTORE", "ZINTERSTORE"} /\ reply'.t = "int")
       => LET plain == Ask(store, <<W(CASE OpOf(last') = "ZDIFFSTORE" -> "ZDIFF" [] OpOf(last') = "ZUNIONSTORE" -> "ZUNION" [] OTHER -> "ZINTER")>>
                                   \o SubSeq(last', 3, Len(last')) \o <<W("WITHSCORES")>>)
              after == Ask(store', <<W("ZUNION"), last'[2], W("WITHSCORES")>>)
          IN /\ plain.t \in {"bag", "arr"} /\ Len(plain.a) = reply'.n
             /\ {<<plain.a[i].a[1].b, plain.a[i].a[2].b>> : i \in 1..Len(plain.a)}
                  = {<<after.a[i].a[1].b, after.a[i].a[2].b>> : i \in 1..Len(after.a)}]_vars

ZTypeOK ==
    /\ \A x \in DOMAIN store : Modellable(store[x].v) /\ (store[x].d = NoD \/ store[x].d >= 0)
    /\ reply.t \in {"ok", "nil", "err", "int", "str", "arr", "bag"}

=============================================================================
