------------------------------ MODULE Trace_Wire ------------------------------
(***************************************************************************)
(* Trace validation for C12.                                               *)
(*  stream  a frame sequence sent with a segmentation enumerated by TLC    *)
(*          from Wire.tla: the replies must be exactly the behaviour of    *)
(*          the reference read loop - one reply per complete frame, of the *)
(*          right kind and payload ("ok"), in order, nothing more          *)
(*  sweep   a registered command with 0..5 arguments of assorted classes:  *)
(*          exactly one well-formed reply                                  *)
(*  bytes   a value with CR/LF/NUL/empty/> 8 KiB written and read back     *)
(*          through a write/read command pair: the same bytes              *)
(* After every event a second connection must still get PONG for PING.     *)
(***************************************************************************)
EXTENDS Integers, Sequences, FiniteSets, Json, IOUtils, TLC

Trace == ndJsonDeserialize(IOEnv.TRACE)
VARIABLE l
Ev == Trace[l]

WellFormed == {"simple", "bulk", "int", "nil", "err", "arr", "map", "set", "push"}

Init == l = 1

Good(e) ==
    CASE e.ev = "reset"  -> TRUE
      [] e.ev = "stream" -> /\ e.alive
                            /\ Len(e.replies) = Len(e.frames)
                            /\ \A i \in 1..Len(e.replies) : e.replies[i].ok
      [] e.ev = "sweep"  -> e.alive /\ e.got /\ e.t \in WellFormed /\ e.extra = 0
      [] e.ev = "bytes"  -> e.alive /\ e.same
      [] OTHER -> FALSE

Step == l <= Len(Trace) /\ Good(Ev) /\ l' = l + 1

DiagLine == IF "DIAG" \in DOMAIN IOEnv THEN atoi(IOEnv.DIAG) ELSE 0
Stuck == /\ l <= Len(Trace) /\ l = DiagLine
         /\ PrintT(<<"MISMATCH-LINE", l>>) /\ PrintT(<<"MISMATCH-NOTE", "event not a behaviour of the reference read loop", Ev>>)
         /\ FALSE /\ UNCHANGED l

Next == Step \/ Stuck
Spec == Init /\ [][Next]_l
Report == (l = Len(Trace) + 1) => PrintT(<<"SUMMARY", Len(Trace), [none |-> 0], 0>>)
TraceAccepted == TLCGet("stats").diameter - 1 = Len(Trace)
=============================================================================
