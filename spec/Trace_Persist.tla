---------------------------- MODULE Trace_Persist ----------------------------
(***************************************************************************)
(* Trace validation for the persistence properties C02 (AOF durability),   *)
(* C09 (rewrite transparency / crash atomicity), C20 (placement survives). *)
(*                                                                         *)
(* The harness runs a write workload on a real server with a data          *)
(* directory, copies the directory at every instrumented file operation    *)
(* (process death) and cuts the log copy at byte offsets after the last    *)
(* sync (power loss), restores a fresh real server from every image and    *)
(* records what it serves.  Trace lines:                                   *)
(*   reset / cmd     as in Trace_Sugar (cmd carries "logged": the AOF grew)*)
(*   rewrite         a REWRITEAOF completed after `acked` commands         *)
(*   image           [at, acked, exec, powerloss, sync, recs, pre, inrw,   *)
(*                    now, st]: what a fresh server restored from the image*)
(*   again           the recovered server keeps writing, stops, restarts   *)
(*                                                                         *)
(* Two judgements per image:                                               *)
(*   conformance  the restored dataset equals Faithful(e): the preamble    *)
(*                content and the surviving log records of that instant,   *)
(*                replayed through Exec.  A mismatch is a VIOLATION.       *)
(*   property     the restored dataset is the state after a prefix p of    *)
(*                the executed commands, lo <= p <= exec, where lo is the  *)
(*                number of acknowledged commands (process death, or       *)
(*                power loss under "always") or 0.  When conformance holds *)
(*                and the property does not, the image is explained by an  *)
(*                open finding (PersistJSONTypes / RewriteNotAtomic) or    *)
(*                it is a VIOLATION.                                       *)
(***************************************************************************)
EXTENDS Proj, Json, IOUtils, TLC

CONSTANT Deviations

Trace == ndJsonDeserialize(IOEnv.TRACE)

Findings == {"PersistJSONTypes", "AofReplayClock", "RewriteNotAtomic"}

VARIABLES l, st, hist, rws, dev, nskip, nimg, wpc, sync, saves
vars == <<l, st, hist, rws, dev, nskip, nimg, wpc, sync, saves>>

\* hist[p + 1] = [S, cmd, db, logged] after p commands; rws = positions (acked counts) and times of rewrites

Checkpoint(S, t, lossy) ==      \* expired keys are not persisted
    LET N == Norm(S, t) IN [x \in DOMAIN N |-> Ent(IF lossy THEN JVal(N[x].v) ELSE N[x].v, N[x].d)]

\* cmds: sequence of [cmd, db, now]; orig = TRUE replays every command at the instant it was
\* originally executed (what a faithful log would do), FALSE at the restore instant t (the code)
RECURSIVE Replay(_, _, _, _)
Replay(S, cmds, t, orig) ==
    IF cmds = <<>> THEN [S |-> S, ok |-> TRUE]
    ELSE LET o == Exec([S |-> S, now |-> IF orig THEN cmds[1].now ELSE t, db |-> cmds[1].db, D |-> Deviations],
                       cmds[1].cmd, RNil) IN
         IF o.rel # "eq" THEN [S |-> S, ok |-> FALSE]
         ELSE Replay(o.S, Tail(cmds), t, orig)

\* logged commands among positions (a, b]
LoggedIn(a, b) == LET idx == {p \in (a + 1)..b : hist[p + 1].logged}
                      F[i \in 0..b] == IF i <= a THEN <<>>
                                       ELSE IF i \in idx THEN Append(F[i - 1], [cmd |-> hist[i + 1].cmd, db |-> hist[i + 1].db, now |-> hist[i + 1].now])
                                       ELSE F[i - 1]
                  IN F[b]

Take(s, n) == SubSeq(s, 1, IF n < Len(s) THEN n ELSE Len(s))

\* e.rwn = number of rewrites begun when the image was taken (the one in progress included);
\* rws[i] = [at, now] of the i-th rewrite
LastDone(e) == IF e.inrw THEN e.rwn - 1 ELSE e.rwn
CurRw(e)    == e.rwn

AfterPreWrite == {"aof.pre.write", "aof.pre.sync", "aof.log.truncate", "aof.log.select", "aof.log.sync", "rw.done"}
AfterLogTrunc == {"aof.log.truncate", "aof.log.select", "aof.log.sync", "rw.done"}

\* content of the preamble file at the instant of the image
PreAt(e, lossy) ==
    IF e.pre = "empty" THEN EmptyStore
    ELSE IF e.inrw /\ e.rwstage \in AfterPreWrite
         THEN Checkpoint(hist[e.rwbegin + 1].S, rws[CurRw(e)].now, lossy)
         ELSE LET i == LastDone(e) IN
              IF i = 0 THEN EmptyStore ELSE Checkpoint(hist[rws[i].at + 1].S, rws[i].now, lossy)

\* position after which the records of the log file of the image were written
\* (a rewrite truncates the log after `trunc` acknowledged commands; commands acknowledged between
\* its state copy - `at` - and that moment were logged only in the old log and are gone)
LogBase(e) == IF e.inrw /\ e.rwstage \in AfterLogTrunc THEN e.acked
              ELSE LET i == LastDone(e) IN IF i = 0 THEN 0 ELSE rws[i].trunc

LostWrites(e) == LET i == LastDone(e) IN i > 0 /\ rws[i].trunc > rws[i].at

\* orig = TRUE is the time-faithful restore the finding AofReplayClock is measured against: every logged
\* command is replayed at the instant it was executed AND the checkpoint is loaded as it stood then (the code
\* drops the checkpoint's keys that have expired by restore time before it replays - a later logged SET of
\* such a key, which kept the old deadline when it ran, then brings the key back without a deadline)
Faithful(e, lossy, orig) ==
    Replay(Checkpoint(PreAt(e, lossy), IF orig THEN 0 ELSE e.now, FALSE), Take(LoggedIn(LogBase(e), e.exec), e.recs), e.now, orig)

Lo(e) == IF e.powerloss /\ e.sync # "always" THEN 0 ELSE e.acked

PrefixOK(e, got) == \E p \in Lo(e)..e.exec : got = Norm(hist[p + 1].S, e.now)

Got(e) == Norm(ProjStore(e.st), e.now)

----------------------------------------------------------------------------
Outcome(e, D) == Exec([S |-> st, now |-> e.now, db |-> e.db, D |-> D], e.cmd, e.r)

Matches(e, D) ==
    LET o == Outcome(e, D) IN
    CASE o.rel = "eq"    -> ReplyEq(o.r, e.r) /\ Norm(o.S, e.now) = Norm(ProjStore(e.st), e.now)
      [] o.rel = "skip"  -> TRUE
      [] OTHER           -> FALSE

CmdDevs(e) == RelevantDevs(e.cmd) \cap Deviations

\* the AOF writer's discipline: a command is logged iff it is write-classified (WriteOps, Proj.tla) and succeeded
LoggedOK(e) == e.logged <=> (e.cmd[1].s \in WriteOps /\ e.r.t # "err")

Init == l = 1 /\ st = EmptyStore /\ hist = <<>> /\ rws = <<>> /\ nskip = 0 /\ nimg = 0 /\ wpc = <<"idle", "idle", 0>> /\ sync = "always" /\ saves = <<>>
        /\ dev = [n \in Deviations \cup Findings |-> 0]

TraceReset ==
    /\ l <= Len(Trace) /\ Trace[l].ev = "reset"
    /\ st' = ProjStore(Trace[l].st)
    /\ hist' = <<[S |-> ProjStore(Trace[l].st), cmd |-> <<>>, db |-> "0", logged |-> FALSE, now |-> Trace[l].now]>>
    /\ rws' = <<>>
    /\ wpc' = <<"idle", "idle", 0>> /\ sync' = Trace[l].cfg.sync /\ saves' = <<>>
    /\ l' = l + 1 /\ UNCHANGED <<dev, nskip, nimg>>

TraceCmd ==
    /\ l <= Len(Trace) /\ Trace[l].ev = "cmd"
    /\ LET e == Trace[l] IN
       /\ \E D \in SUBSET CmdDevs(e) : Matches(e, D)
       /\ LoggedOK(e)
       /\ nskip' = IF Outcome(e, {}).rel = "skip" THEN nskip + 1 ELSE nskip
       /\ st' = ProjStore(e.st)
       /\ hist' = Append(hist, [S |-> ProjStore(e.st), cmd |-> e.cmd, db |-> e.db, logged |-> e.logged, now |-> e.now])
    /\ l' = l + 1 /\ UNCHANGED <<dev, rws, nimg, wpc, sync, saves>>

TraceRewrite ==
    /\ l <= Len(Trace) /\ Trace[l].ev = "rewrite"
    /\ ~("err" \in DOMAIN Trace[l])
    /\ rws' = Append(rws, [at |-> Trace[l].acked, trunc |-> Trace[l].trunc, now |-> Trace[l].now])
    /\ l' = l + 1 /\ UNCHANGED <<st, hist, dev, nskip, nimg, wpc, sync, saves>>

\* File-operation events: the order of the instrumented operations of one run must be a run of
\* the writer / rewrite step programs (the action structure of spec/Persist.tla):
\*   command:  cmd.handled [ [aof.log.select] aof.log.write [aof.log.sync] cmd.logged ]
\*   rewrite:  aof.pre.copied aof.pre.truncate aof.pre.write aof.pre.sync
\*             aof.log.truncate [aof.log.select] aof.log.sync rw.done
\* Under "always" the sync between write and cmd.logged is mandatory; under "everysec" sync
\* events of the background ticker may appear anywhere.
SnapOps == {"snap.copied", "snap.manifest.create", "snap.manifest.write", "snap.manifest.sync", "snap.manifest.rename",
            "snap.mkdir", "snap.state.create", "snap.state.write", "snap.state.sync", "snap.state.rename", "snap.done",
            "snap.finished"}

\* the snapshot writer's step program (spec/SnapFiles.tla, StateFirst order)
SnapSeq == <<"snap.copied", "snap.mkdir", "snap.state.create", "snap.state.write", "snap.state.sync", "snap.state.rename",
             "snap.manifest.create", "snap.manifest.write", "snap.manifest.sync", "snap.manifest.rename", "snap.done",
             "snap.finished">>
SnapNext(p, op) == IF p = 0 /\ op = "snap.finished" THEN 0                 \* an attempt that found nothing new
                   ELSE IF p < Len(SnapSeq) /\ SnapSeq[p + 1] = op THEN (IF p + 1 = Len(SnapSeq) THEN 0 ELSE p + 1)
                   ELSE -1

\* pc = <<writer pc, rewrite pc, snapshot pc>>: a client's command may run inside the rewrite window
FopStep(pc, op, sy) ==
    LET w == pc[1]   r == pc[2] IN
    CASE op = "cmd.handled"      /\ w \in {"idle", "handled"}             -> <<"handled", r, pc[3]>>
      [] op = "aof.log.select"   /\ w = "handled"                         -> <<"selected", r, pc[3]>>
      [] op = "aof.log.write"    /\ w \in {"handled", "selected"}         -> <<"written", r, pc[3]>>
      [] op = "aof.log.sync"     /\ w = "written" /\ sy = "always"        -> <<"synced", r, pc[3]>>
      [] op = "cmd.logged"       /\ w = (IF sy = "always" THEN "synced" ELSE "written") -> <<"idle", r, pc[3]>>
      [] op = "aof.pre.copied"   /\ r = "idle" /\ w \in {"idle", "handled"} -> <<"idle", "rw1", pc[3]>>
      [] op = "aof.pre.truncate" /\ r = "rw1"                             -> <<w, "rw2", pc[3]>>
      [] op = "aof.pre.write"    /\ r = "rw2"                             -> <<w, "rw3", pc[3]>>
      [] op = "aof.pre.sync"     /\ r = "rw3" /\ w \in {"idle", "handled"} -> <<"idle", "rw4", pc[3]>>
      [] op = "aof.log.truncate" /\ r = "rw4"                             -> <<w, "rw5", pc[3]>>
      [] op = "aof.log.select"   /\ r = "rw5"                             -> <<w, "rw5s", pc[3]>>
      [] op = "aof.log.sync"     /\ r \in {"rw5", "rw5s"}                 -> <<w, "rw6", pc[3]>>
      [] op = "rw.done"          /\ r = "rw6"                             -> <<w, "idle", pc[3]>>
      \* under "everysec" a background goroutine syncs the log at any moment: its sync right after the rewrite's
      \* truncation is indistinguishable from the rewrite's own, which then follows the SELECT marker
      [] op = "aof.log.select"   /\ r = "rw6" /\ sy = "everysec"          -> pc
      [] op = "aof.log.sync"     /\ sy = "everysec"                       -> pc
      [] op \in SnapOps /\ SnapNext(pc[3], op) # -1                         -> <<w, r, SnapNext(pc[3], op)>>
      [] op = "end.running"      /\ w \in {"idle", "handled"} /\ r = "idle" -> <<"idle", "idle", pc[3]>>
      [] OTHER -> <<"bad", "bad", 0>>

TraceFop ==
    /\ l <= Len(Trace) /\ Trace[l].ev = "fop"
    /\ wpc' = FopStep(wpc, Trace[l].op, sync)
    /\ wpc'[1] # "bad"
    /\ l' = l + 1 /\ UNCHANGED <<st, hist, rws, dev, nskip, nimg, sync, saves>>

TraceOther ==
    /\ l <= Len(Trace) /\ Trace[l].ev = "endrun"
    /\ l' = l + 1 /\ UNCHANGED <<st, hist, rws, dev, nskip, nimg, wpc, sync, saves>>

\* result: set of finding names that explain the image ({} = the property holds), or {"violation"}, or {"skip"}
ImageVerdict1(e) ==
    LET got  == Got(e)
        f    == Faithful(e, TRUE, FALSE)                    \* what the code does: lossy checkpoints, replay at restore time
        ok(x) == x.ok /\ PrefixOK(e, Norm(x.S, e.now))
        has(n) == n \in Deviations
    IN IF "err" \in DOMAIN e THEN {"violation"}
       ELSE IF ~f.ok THEN {"skip"}
       ELSE IF got # Norm(f.S, e.now) THEN {"violation"}                     \* conformance
       ELSE IF PrefixOK(e, got) THEN {}                                      \* the property
       ELSE IF has("PersistJSONTypes") /\ ok(Faithful(e, FALSE, FALSE)) THEN {"PersistJSONTypes"}
       ELSE IF has("AofReplayClock") /\ ok(Faithful(e, TRUE, TRUE)) THEN {"AofReplayClock"}
       ELSE IF has("PersistJSONTypes") /\ has("AofReplayClock") /\ ok(Faithful(e, FALSE, TRUE))
            THEN {"PersistJSONTypes", "AofReplayClock"}
       ELSE IF (e.inrw \/ LostWrites(e)) /\ has("RewriteNotAtomic") THEN {"RewriteNotAtomic"}
       ELSE {"violation"}

\* Under "everysec" the background syncer is a goroutine of its own: an image taken at ITS point while a rewrite
\* is under way may catch the rewrite between a file operation and the point that reports it, so the files may be
\* one rewrite step ahead of the recorded stage.  Such an image is judged against both stages.
RwNext == [x \in {"aof.pre.copied", "aof.pre.truncate", "aof.pre.write", "aof.pre.sync", "aof.log.truncate", "aof.log.select"} |->
             CASE x = "aof.pre.copied" -> "aof.pre.truncate" [] x = "aof.pre.truncate" -> "aof.pre.write"
               [] x = "aof.pre.write" -> "aof.pre.sync" [] x = "aof.pre.sync" -> "aof.log.truncate"
               [] x = "aof.log.truncate" -> "aof.log.select" [] OTHER -> "aof.log.sync"]
ImageVerdict(e) ==
    LET v == ImageVerdict1(e) IN
    IF v # {"violation"} THEN v
    ELSE IF e.inrw /\ sync = "everysec" /\ e.at = "aof.log.sync" /\ e.rwstage \in DOMAIN RwNext
         THEN ImageVerdict1([e EXCEPT !.rwstage = RwNext[e.rwstage]])
    ELSE v

TraceImage ==
    /\ l <= Len(Trace) /\ Trace[l].ev = "image"
    /\ LET e == Trace[l]   v == ImageVerdict(e) IN
       /\ v # {"violation"}
       /\ nskip' = IF v = {"skip"} THEN nskip + 1 ELSE nskip
       /\ dev' = [n \in DOMAIN dev |-> IF n \in v THEN dev[n] + 1 ELSE dev[n]]
       /\ IF \E n \in v \cap Findings : dev[n] = 0
          THEN PrintT(<<"DEVIATION", l, v, e.at, e.acked, e.exec, e.cut>>) ELSE TRUE
    /\ nimg' = nimg + 1
    /\ l' = l + 1 /\ UNCHANGED <<st, hist, rws, wpc, sync, saves>>


(***************************************************************************)
(* Snapshots (C03, C10).  saves[i] = [at, now] of the i-th snapshot that   *)
(* completed.  A snapshot image (simage) was restored with snapshot        *)
(* restore; e.nsave snapshots had completed when it was taken, and         *)
(* e.insave tells that another one was being written.                      *)
(***************************************************************************)
LastSaveOf(i) == IF i = 0 THEN 0 ELSE saves[i].now

TraceSave ==
    /\ l <= Len(Trace) /\ Trace[l].ev = "save"
    /\ LET e == Trace[l] IN
       /\ ~("err" \in DOMAIN e)
       /\ e.r.t = "simple"
       /\ saves' = IF e.done THEN Append(saves, [at |-> e.acked, now |-> e.now]) ELSE saves
       \* LASTSAVE: the time of the snapshot just taken; untouched by an attempt that found nothing new
       /\ e.lastsave = (IF e.done THEN e.now ELSE LastSaveOf(Len(saves)))
       \* "nothing new" is only a legal outcome when the dataset equals that of the last snapshot
       /\ (e.done \/ (Len(saves) > 0 /\ Checkpoint(st, e.now, FALSE) =
                                         Checkpoint(hist[saves[Len(saves)].at + 1].S, e.now, FALSE)))
    /\ l' = l + 1 /\ UNCHANGED <<st, hist, rws, dev, nskip, nimg, wpc, sync>>

SnapExpected(i, t, lossy) == IF i = 0 THEN EmptyStore ELSE Checkpoint(Checkpoint(hist[saves[i].at + 1].S, saves[i].now, lossy), t, FALSE)

\* result: {} ok | {"PersistJSONTypes"} | {"violation"}
SImageVerdict(e) ==
    LET got   == Got(e)
        cands == IF e.insave THEN {e.nsave, e.nsave + 1} ELSE {e.nsave}
        hit(lossy) == {i \in cands : i <= Len(saves) /\ got = SnapExpected(i, e.now, lossy) /\ e.lastsave = LastSaveOf(i)}
    IN IF "err" \in DOMAIN e THEN {"violation"}
       ELSE IF hit(FALSE) # {} THEN {}
       ELSE IF hit(TRUE) # {} /\ "PersistJSONTypes" \in Deviations THEN {"PersistJSONTypes"}
       ELSE {"violation"}

TraceSImage ==
    /\ l <= Len(Trace) /\ Trace[l].ev = "simage"
    /\ LET e == Trace[l]   v == SImageVerdict(e) IN
       /\ v # {"violation"}
       /\ dev' = [n \in DOMAIN dev |-> IF n \in v THEN dev[n] + 1 ELSE dev[n]]
       /\ IF \E n \in v : dev[n] = 0 THEN PrintT(<<"DEVIATION", l, v, e.at, e.acked, e.nsave>>) ELSE TRUE
    /\ nimg' = nimg + 1
    /\ l' = l + 1 /\ UNCHANGED <<st, hist, rws, nskip, wpc, sync, saves>>

\* durable again: the recovered server executes more writes (judged by Exec), is stopped, and a
\* server restored from its directory serves exactly the state it had
RECURSIVE AgainFold(_, _)
AgainFold(S, cs) ==
    IF cs = <<>> THEN [S |-> S, ok |-> TRUE, skip |-> FALSE]
    ELSE LET o == Exec([S |-> S, now |-> cs[1].now, db |-> cs[1].db, D |-> Deviations], cs[1].cmd, cs[1].r) IN
         IF o.rel = "skip" THEN [S |-> S, ok |-> TRUE, skip |-> TRUE]
         ELSE IF o.rel = "eq" /\ ReplyEq(o.r, cs[1].r) THEN AgainFold(o.S, Tail(cs))
         ELSE [S |-> S, ok |-> FALSE, skip |-> FALSE]

TraceAgain ==
    /\ l <= Len(Trace) /\ Trace[l].ev = "again"
    /\ LET e == Trace[l]
           a == AgainFold(ProjStore(e.base), e.cmds)
       IN /\ ~("err" \in DOMAIN e)
          /\ a.ok
          /\ (a.skip \/ (/\ Norm(a.S, e.now) = Norm(ProjStore(e.st2), e.now)
                          /\ Norm(ProjStore(e.st3), e.now) = Norm(ProjStore(e.st2), e.now)))
          /\ nskip' = IF a.skip THEN nskip + 1 ELSE nskip
    /\ nimg' = nimg + 1
    /\ l' = l + 1 /\ UNCHANGED <<st, hist, rws, dev, wpc, sync, saves>>

\* C03, the automatic snapshot: once the changes since the last snapshot have reached the threshold a snapshot
\* is taken within a few intervals (and none before), and a restart from it brings the dataset back
TraceAutoSnap ==
    /\ l <= Len(Trace) /\ Trace[l].ev = "autosnap"
    /\ LET e == Trace[l] IN
       /\ ~("err" \in DOMAIN e)
       /\ ~e.early
       /\ (e.writes >= e.threshold) => e.took
       /\ e.took => Norm(ProjStore(e.st2), e.now) = Norm(ProjStore(e.st), e.now)
    /\ nimg' = nimg + 1
    /\ l' = l + 1 /\ UNCHANGED <<st, hist, rws, dev, nskip, wpc, sync, saves>>

TraceStuck ==
    /\ l <= Len(Trace)
    /\ LET e == Trace[l] IN
       \/ /\ e.ev = "image" /\ ImageVerdict(e) = {"violation"}
          /\ PrintT(<<"MISMATCH-LINE", l>>)
          /\ PrintT(<<"MISMATCH-IMAGE", e.at, "acked", e.acked, "exec", e.exec, "cut", e.cut, "powerloss", e.powerloss,
                      "recs", e.recs, "pre", e.pre, "inrw", e.inrw>>)
          /\ PrintT(<<"MISMATCH-RESTORED", Got(e)>>)
          /\ PrintT(<<"MISMATCH-MODEL-FILES", "rewrites", rws, "lastdone", LastDone(e), "logbase", LogBase(e), "preamble", PreAt(e, TRUE),
                      "log", Take(LoggedIn(LogBase(e), e.exec), e.recs)>>)
          /\ PrintT(<<"MISMATCH-FAITHFUL-MODEL", Faithful(e, TRUE, FALSE)>>)
          /\ PrintT(<<"MISMATCH-EXPECTED-PREFIXES", [p \in Lo(e)..e.exec |-> Norm(hist[p + 1].S, e.now)]>>)
       \/ /\ e.ev = "cmd" /\ ~((\E D \in SUBSET CmdDevs(e) : Matches(e, D)) /\ LoggedOK(e))
          /\ PrintT(<<"MISMATCH-LINE", l>>)
          /\ PrintT(<<"MISMATCH-CMD", e.cmd, "logged", e.logged>>)
          /\ PrintT(<<"MISMATCH-MODEL-REPLY", Outcome(e, {}).r>>)
          /\ PrintT(<<"MISMATCH-LOGGED-REPLY", e.r>>)
          /\ PrintT(<<"MISMATCH-MODEL-STATE", Norm(Outcome(e, {}).S, e.now)>>)
          /\ PrintT(<<"MISMATCH-LOGGED-STATE", Norm(ProjStore(e.st), e.now)>>)
       \/ /\ e.ev = "simage" /\ SImageVerdict(e) = {"violation"}
          /\ PrintT(<<"MISMATCH-LINE", l>>)
          /\ PrintT(<<"MISMATCH-IMAGE", e.at, "acked", e.acked, "snapshots completed", e.nsave, "one in progress", e.insave,
                      "restored lastsave", e.lastsave>>)
          /\ PrintT(<<"MISMATCH-RESTORED", Got(e)>>)
          /\ PrintT(<<"MISMATCH-EXPECTED-PREFIXES", [i \in (IF e.insave THEN {e.nsave, e.nsave + 1} ELSE {e.nsave}) \cap (0..Len(saves)) |->
                        [dataset |-> SnapExpected(i, e.now, TRUE), lastsave |-> LastSaveOf(i)]]>>)
       \/ /\ e.ev = "save"
          /\ ~(/\ ~("err" \in DOMAIN e) /\ e.r.t = "simple"
               /\ e.lastsave = (IF e.done THEN e.now ELSE LastSaveOf(Len(saves)))
               /\ (e.done \/ (Len(saves) > 0 /\ Checkpoint(st, e.now, FALSE) =
                                                 Checkpoint(hist[saves[Len(saves)].at + 1].S, e.now, FALSE))))
          /\ PrintT(<<"MISMATCH-LINE", l>>)
          /\ PrintT(<<"MISMATCH-NOTE", "SAVE attempt not explained", "done", e.done, "lastsave", e.lastsave, "previous", LastSaveOf(Len(saves))>>)
       \/ /\ e.ev = "fop" /\ FopStep(wpc, e.op, sync)[1] = "bad"
          /\ PrintT(<<"MISMATCH-LINE", l>>)
          /\ PrintT(<<"MISMATCH-FOP", "writer/rewrite pc", wpc, "next file operation", e.op, "sync strategy", sync>>)
       \/ /\ e.ev = "autosnap"
          /\ PrintT(<<"MISMATCH-LINE", l>>)
          /\ PrintT(<<"MISMATCH-NOTE", "automatic snapshot", "writes", e.writes, "threshold", e.threshold, "a snapshot before the threshold",
                      e.early, "a snapshot after it", e.took>>)
       \/ /\ e.ev = "again"
          /\ LET a == AgainFold(ProjStore(e.base), e.cmds) IN
             ~(~("err" \in DOMAIN e) /\ a.ok /\ (a.skip \/ (Norm(a.S, e.now) = Norm(ProjStore(e.st2), e.now)
               /\ Norm(ProjStore(e.st3), e.now) = Norm(ProjStore(e.st2), e.now))))
          /\ PrintT(<<"MISMATCH-LINE", l>>)
          /\ PrintT(<<"MISMATCH-AGAIN", "after-writes", Norm(ProjStore(e.st2), e.now), "after-restart", Norm(ProjStore(e.st3), e.now)>>)
    /\ FALSE
    /\ UNCHANGED vars

Next == TraceReset \/ TraceCmd \/ TraceRewrite \/ TraceFop \/ TraceOther \/ TraceImage \/ TraceAgain
        \/ TraceSave \/ TraceSImage \/ TraceAutoSnap \/ TraceStuck

Spec == Init /\ [][Next]_vars

Report == (l = Len(Trace) + 1) => PrintT(<<"SUMMARY", Len(Trace), dev, nskip>>)

TraceAccepted == TLCGet("stats").diameter - 1 = Len(Trace)

=============================================================================
