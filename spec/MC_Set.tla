------------------------------- MODULE MC_Set -------------------------------
(***************************************************************************)
(* Bounded instance of Sugar for the set commands (C16, with C01 and C13): *)
(* the 14 deterministic set commands over two keys (plus a third name that *)
(* only ever appears as an absent operand / fresh destination) and three   *)
(* members, started from presets that contain sets, an existing empty set, *)
(* and values of other types.  SPOP / SRANDMEMBER are not in the alphabet  *)
(* (their outcome is read off an observed reply).                          *)
(*                                                                         *)
(* Besides ErrNoChange / Frame / read-only purity the model is checked     *)
(* against laws of finite sets that are written WITHOUT the X operators of *)
(* CmdSet: they only relate replies of different commands to each other    *)
(* and to the stored value.                                                *)
(***************************************************************************)
EXTENDS Sugar, TLC

K(k) == [s |-> k]
W(w) == [s |-> w]
V(b) == [b |-> b]
N(n) == [i |-> n]

MCKeys == {"k1", "k2"}
AllKeys == {"k1", "k2", "k3"}
ma == <<97>>   mb == <<98>>   mc == <<>>          \* "a", "b", ""
MCMems == {ma, mb, mc}
MCT0 == 100000

MCCmds ==
    {<<W("SADD"), K(k), V(m)>> : k \in MCKeys, m \in MCMems}
    \cup {<<W("SADD"), K("k1"), V(ma), V(mb), V(ma)>>, <<W("SADD"), K("k2"), V(mb), V(mc)>>, <<W("SADD"), K("k1")>>}
    \cup {<<W("SREM"), K(k), V(m)>> : k \in MCKeys, m \in {ma, mb}}
    \cup {<<W("SREM"), K("k1"), V(ma), V(mc), V(ma)>>, <<W("SREM"), K("k1")>>}
    \cup {<<W(op), K(k)>> : op \in {"SCARD", "SMEMBERS"}, k \in MCKeys}
    \cup {<<W("SCARD")>>, <<W("SMEMBERS"), K("k1"), K("k2")>>}
    \cup {<<W("SISMEMBER"), K(k), V(ma)>> : k \in MCKeys}
    \cup {<<W("SMISMEMBER"), K(k), V(ma), V(mc), V(ma)>> : k \in MCKeys}
    \cup {<<W(op), K(p[1]), K(p[2])>> : op \in {"SDIFF", "SINTER", "SUNION"},
                                         p \in {<<"k1", "k2">>, <<"k2", "k1">>, <<"k1", "k1">>, <<"k2", "k3">>}}
    \cup {<<W(op), K("k1")>> : op \in {"SDIFF", "SINTER", "SUNION", "SINTERCARD"}}
    \cup {<<W(op), K("k2"), K("k1"), K("k3"), K("k1")>> : op \in {"SDIFF", "SINTER", "SUNION"}}
    \cup {<<W(op)>> : op \in {"SDIFF", "SINTER", "SUNION", "SINTERCARD", "SDIFFSTORE", "SUNIONSTORE"}}
    \cup {<<W("SINTERCARD"), K("k1"), K("k2")>>, <<W("SINTERCARD"), K("k1"), K("k2"), W("LIMIT"), N(1)>>,
          <<W("SINTERCARD"), K("k1"), K("k2"), K("k1"), W("limit"), N(2)>>, <<W("SINTERCARD"), K("k1"), W("LIMIT")>>,
          <<W("SINTERCARD"), K("k1"), W("LIMIT"), V(<<120>>)>>, <<W("SINTERCARD"), W("LIMIT"), N(1)>>,
          <<W("SINTERCARD"), K("k1"), W("LIMIT"), N(0)>>, <<W("SINTERCARD"), K("k2"), W("LIMIT"), N(-1)>>}
    \cup {<<W(op), K(d), K(p[1]), K(p[2])>> : op \in {"SDIFFSTORE", "SINTERSTORE", "SUNIONSTORE"}, d \in {"k1", "k3"},
                                              p \in {<<"k1", "k2">>, <<"k2", "k1">>, <<"k2", "k2">>}}
    \cup {<<W(op), K("k2"), K("k1")>> : op \in {"SDIFFSTORE", "SINTERSTORE", "SUNIONSTORE"}}
    \cup {<<W(op), K("k1"), K("k3")>> : op \in {"SDIFFSTORE", "SINTERSTORE", "SUNIONSTORE"}}
    \cup {<<W("SINTERSTORE"), K("k1")>>}
    \cup {<<W("SMOVE"), K(p[1]), K(p[2]), V(m)>> : m \in {ma, mb},
                                                   p \in {<<"k1", "k2">>, <<"k2", "k1">>, <<"k1", "k3">>, <<"k1", "k1">>}}
    \cup {<<W("SMOVE"), K("k3"), K("k1"), V(ma)>>, <<W("SMOVE"), K("k1"), K("k2")>>,
          <<W("SMOVE"), K("k1"), K("k2"), V(ma), V(mb)>>}
    \cup {<<W("DEL"), K("k1")>>, <<W("SET"), K("k2"), V(<<120>>)>>}

E(v) == Ent(v, NoD)
MCInits ==
    { EmptyStore,
      (<<"0", "k1">> :> E(VSet({ma, mb}))) @@ (<<"0", "k2">> :> E(VSet({mb, mc}))),
      (<<"0", "k1">> :> E(VSet({ma, mb, mc}))) @@ (<<"0", "k2">> :> E(VSet({}))),
      (<<"0", "k1">> :> E(VSet({ma}))) @@ (<<"0", "k2">> :> E(VStr(<<120>>))),
      (<<"0", "k1">> :> E(VList(<<ma, mb>>))) @@ (<<"0", "k2">> :> E(VSet({ma, mb}))),
      (<<"0", "k1">> :> E(VSet({mb}))) @@ (<<"0", "k2">> :> E(VSet({ma, mb}))) @@ (<<"1", "k1">> :> E(VSet({mc}))) }

MCDBs == {"0"}
MCTicks == {}

----------------------------------------------------------------------------
\* classification, written from the documented syntax (docs/docs/commands/set)

SReadOps == {"SCARD", "SDIFF", "SINTER", "SINTERCARD", "SISMEMBER", "SMEMBERS", "SMISMEMBER", "SUNION", "SRANDMEMBER"}

\* C13: the read commands of the module never change the store (not even physically)
SReadOnlyPure == [][last' # NoCmd /\ OpOf(last') \in SReadOps => store' = store]_vars

STypeOK ==
    /\ \A x \in DOMAIN store : Modellable(store[x].v) /\ store[x].d = NoD
    /\ reply.t \in {"ok", "nil", "err", "int", "str", "arr", "bag"}

----------------------------------------------------------------------------
\* Laws of finite sets, phrased over replies only.  Ask(S, c) is the reply to c in store S.

Ask(S, c) == Exec([S |-> S, now |-> MCT0, db |-> "0", D |-> {}], c, RNil).r

Elems(r)   == {r.a[i].b : i \in DOMAIN r.a}                      \* of an array-of-strings reply
Members(S, k) == LET r == Ask(S, <<W("SMEMBERS"), K(k)>>) IN IF r.t = "err" THEN {} ELSE Elems(r)
Card(S, k)    == Ask(S, <<W("SCARD"), K(k)>>).n
IsSetOrAbsent(S, k) == Ask(S, <<W("SCARD"), K(k)>>).t = "int"    \* SCARD fails exactly on a non-set

\* what is stored under k, read directly (not through any command)
Stored(S, k) == IF <<"0", k>> \in DOMAIN S /\ S[<<"0", k>>].v.k = "set" THEN S[<<"0", k>>].v.s ELSE {}

\* L1  the query commands agree with each other and with the stored value
QueriesAgree ==
    \A k \in AllKeys : IsSetOrAbsent(store, k) =>
        LET r == Ask(store, <<W("SMEMBERS"), K(k)>>) IN
        /\ Elems(r) = Stored(store, k)
        /\ Len(r.a) = Cardinality(Elems(r))                        \* no member listed twice
        /\ Card(store, k) = Len(r.a)
        /\ \A m \in MCMems : Ask(store, <<W("SISMEMBER"), K(k), V(m)>>) = RInt(IF m \in Elems(r) THEN 1 ELSE 0)
        /\ Ask(store, <<W("SMISMEMBER"), K(k), V(ma), V(mb), V(mc)>>)
             = RArr(<<Ask(store, <<W("SISMEMBER"), K(k), V(ma)>>), Ask(store, <<W("SISMEMBER"), K(k), V(mb)>>),
                      Ask(store, <<W("SISMEMBER"), K(k), V(mc)>>)>>)

\* L2  SUNION / SINTER / SDIFF are union, intersection and difference of SMEMBERS; inclusion-exclusion;
\*     SDIFF and SINTER partition the first operand; SINTERCARD = |SINTER|, cut at a positive limit
Algebra ==
    \A x \in AllKeys, y \in AllKeys : (IsSetOrAbsent(store, x) /\ IsSetOrAbsent(store, y)) =>
        LET u == Ask(store, <<W("SUNION"), K(x), K(y)>>)
            i == Ask(store, <<W("SINTER"), K(x), K(y)>>)
            d == Ask(store, <<W("SDIFF"), K(x), K(y)>>)
            n == Ask(store, <<W("SINTERCARD"), K(x), K(y)>>)
        IN /\ Elems(u) = Members(store, x) \cup Members(store, y)
           /\ Elems(i) = Members(store, x) \cap Members(store, y)
           /\ Elems(d) = Members(store, x) \ Members(store, y)
           /\ Len(u.a) + Len(i.a) = Card(store, x) + Card(store, y)
           /\ Elems(d) \cup Elems(i) = Members(store, x) /\ Elems(d) \cap Elems(i) = {}
           /\ n = RInt(Len(i.a))
           /\ \A l \in 1..3 : Ask(store, <<W("SINTERCARD"), K(x), K(y), W("LIMIT"), N(l)>>) = RInt(Min2(l, Len(i.a)))
           /\ Ask(store, <<W("SINTER"), K(x), K(y), K(x)>>) = i    \* idempotent in repeated operands
           /\ Elems(Ask(store, <<W("SDIFF"), K(x), K(x)>>)) = {}

\* L2' the same over three operands (left-associated difference; the limit cuts the final cardinality only)
Algebra3 ==
    \A x \in AllKeys, y \in AllKeys, z \in AllKeys :
        (IsSetOrAbsent(store, x) /\ IsSetOrAbsent(store, y) /\ IsSetOrAbsent(store, z)) =>
        LET X == Members(store, x)   Y == Members(store, y)   Z == Members(store, z)
            ks == <<K(x), K(y), K(z)>>
        IN /\ Elems(Ask(store, <<W("SUNION")>> \o ks)) = (X \cup Y) \cup Z
           /\ Elems(Ask(store, <<W("SINTER")>> \o ks)) = (X \cap Y) \cap Z
           /\ Elems(Ask(store, <<W("SDIFF")>> \o ks)) = (X \ Y) \ Z
           /\ \A l \in 0..2 : Ask(store, <<W("SINTERCARD")>> \o ks \o <<W("LIMIT"), N(l)>>)
                                = RInt(IF l = 0 THEN Cardinality((X \cap Y) \cap Z) ELSE Min2(l, Cardinality((X \cap Y) \cap Z)))

\* L3  SADD / SREM report and perform exactly the membership changes
AddRemLaw ==
    [][(last' # NoCmd /\ OpOf(last') \in {"SADD", "SREM"} /\ reply'.t = "int") =>
          LET k    == last'[2].s
              args == {last'[j].b : j \in 3..Len(last')}
              add  == OpOf(last') = "SADD"
          IN /\ Members(store', k) = IF add THEN Members(store, k) \cup args ELSE Members(store, k) \ args
             /\ Card(store', k) = IF add THEN Card(store, k) + reply'.n ELSE Card(store, k) - reply'.n
             /\ reply'.n >= 0 /\ reply'.n <= Cardinality(args)]_vars

\* L4  a STORE variant leaves in the destination exactly what the plain variant replied just before
\*     (also when the destination is one of the sources) and replies its cardinality
StoreLaw ==
    [][(last' # NoCmd /\ OpOf(last') \in {"SDIFFSTORE", "SINTERSTORE", "SUNIONSTORE"} /\ reply'.t = "int") =>
          LET plain == CASE OpOf(last') = "SDIFFSTORE" -> "SDIFF" [] OpOf(last') = "SINTERSTORE" -> "SINTER"
                         [] OTHER -> "SUNION"
              r == Ask(store, <<W(plain)>> \o SubSeq(last', 3, Len(last')))
          IN /\ r.t = "bag"
             /\ Stored(store', last'[2].s) = Elems(r)
             /\ <<"0", last'[2].s>> \in DOMAIN store' /\ store'[<<"0", last'[2].s>>].v.k = "set"
             /\ reply'.n = Cardinality(Elems(r))]_vars
\*     ... and fails exactly when the plain variant fails
StoreFailsLikePlain ==
    [][(last' # NoCmd /\ OpOf(last') \in {"SINTERSTORE", "SUNIONSTORE", "SDIFFSTORE"} /\ Len(last') >= 3) =>
          LET plain == CASE OpOf(last') = "SDIFFSTORE" -> "SDIFF" [] OpOf(last') = "SINTERSTORE" -> "SINTER"
                         [] OTHER -> "SUNION"
          IN (reply'.t = "err") <=> (Ask(store, <<W(plain)>> \o SubSeq(last', 3, Len(last'))).t = "err")]_vars

\* L5  SMOVE moves one member: nothing is lost or invented, and the reply says whether it moved
MoveLaw ==
    [][(last' # NoCmd /\ OpOf(last') = "SMOVE" /\ reply'.t = "int") =>
          LET s == last'[2].s   d == last'[3].s   m == last'[4].b IN
          /\ reply'.n = (IF m \in Members(store, s) THEN 1 ELSE 0)
          /\ Members(store', s) \cup Members(store', d) = Members(store, s) \cup Members(store, d)
          /\ reply'.n = 1 => (m \in Members(store', d) /\ (s # d => ~(m \in Members(store', s))))
          /\ reply'.n = 0 => store' = store]_vars

\* L6  a set command naming a live non-set key (as source or as operand) fails
WrongTypeFails ==
    [][(last' # NoCmd /\ OpOf(last') \in SetOps /\ reply'.t # "err") =>
          \A j \in 2..Len(last') :
              (IsSym(last'[j]) /\ KW(last'[j]) # "LIMIT" /\ <<"0", last'[j].s>> \in DOMAIN store
               /\ store[<<"0", last'[j].s>>].v.k # "set")
              => \* the only non-set key a successful command may name is the destination it overwrites
                 \/ (j = 2 /\ OpOf(last') \in {"SDIFFSTORE", "SINTERSTORE", "SUNIONSTORE"}
                     /\ ~(\E i \in 3..Len(last') : last'[i].s = last'[2].s))
                 \* as-code: SMOVE from an absent source replies 0 before looking at the destination
                 \/ (j = 3 /\ OpOf(last') = "SMOVE" /\ ~(<<"0", last'[2].s>> \in DOMAIN store))]_vars

=============================================================================
