----------------------------- MODULE Trace_Conc -----------------------------
(***************************************************************************)
(* Conformance of the real lock discipline with the atomic steps of        *)
(* Conc.tla.  Every keyspace primitive is one critical section; the probe  *)
(* parks a client INSIDE it (ks.*.locked, or between the keys of one       *)
(* setValues call, or inside the state copy of SAVE/REWRITEAOF) and runs a *)
(* second client's command: a step that writes excludes everything, a step *)
(* that only reads (keysExist, getExpiry, the state copy) excludes writers *)
(* only.  Afterwards both must complete (no deadlock).                     *)
(***************************************************************************)
EXTENDS Json, IOUtils, TLC, Sequences, Naturals

Trace == ndJsonDeserialize(IOEnv.TRACE)

VARIABLE l

Mode == [ks_keysExist_locked |-> "R", ks_getExpiry_locked |-> "R", ks_getValues_locked |-> "W",
         ks_setValues_locked |-> "W", ks_setValues_key |-> "W", ks_setExpiry_locked |-> "W",
         ks_deleteKey_locked |-> "W", ks_flush_locked |-> "W", ks_getState_copy |-> "R"]

\* field names cannot contain dots: the trace uses the point names, mapped here
Key(p) == CASE p = "ks.keysExist.locked" -> "ks_keysExist_locked" [] p = "ks.getExpiry.locked" -> "ks_getExpiry_locked"
            [] p = "ks.getValues.locked" -> "ks_getValues_locked" [] p = "ks.setValues.locked" -> "ks_setValues_locked"
            [] p = "ks.setValues.key" -> "ks_setValues_key" [] p = "ks.setExpiry.locked" -> "ks_setExpiry_locked"
            [] p = "ks.deleteKey.locked" -> "ks_deleteKey_locked" [] p = "ks.flush.locked" -> "ks_flush_locked"
            [] p = "ks.getState.copy" -> "ks_getState_copy"

MustBlock(holder, contender) == Mode[Key(holder)] = "W" \/ contender = "writer"

Required == {"ks.keysExist.locked", "ks.getExpiry.locked", "ks.getValues.locked", "ks.setValues.locked", "ks.setValues.key",
             "ks.setExpiry.locked", "ks.deleteKey.locked", "ks.flush.locked", "ks.getState.copy"}

Init == l = 1

Probe == /\ l <= Len(Trace) /\ Trace[l].ev = "excl"
         /\ LET e == Trace[l] IN
            /\ ~("err" \in DOMAIN e)
            /\ e.blocked = MustBlock(e.holder, e.contender)
            /\ e.finished
         /\ l' = l + 1

Stuck == /\ l <= Len(Trace)
         /\ LET e == Trace[l] IN
            /\ ("err" \in DOMAIN e) \/ e.blocked # MustBlock(e.holder, e.contender) \/ ~e.finished
            /\ PrintT(<<"MISMATCH-LINE", l>>)
            /\ PrintT(<<"MISMATCH-NOTE", "holder parked at", e.holder, "contender", e.contender, "observed", e,
                        "the model requires blocked =", MustBlock(e.holder, e.contender)>>)
         /\ FALSE /\ UNCHANGED l

Next == Probe \/ Stuck
Spec == Init /\ [][Next]_l

\* every critical section was probed with both kinds of contender
AllProbed == \A h \in Required : \A c \in {"reader", "writer"} :
                \E i \in 1..Len(Trace) : Trace[i].holder = h /\ Trace[i].contender = c

Report == (l = Len(Trace) + 1) => PrintT(<<"SUMMARY", Len(Trace), [none |-> 0], 0>>)

TraceAccepted == TLCGet("stats").diameter - 1 = Len(Trace) /\ AllProbed
=============================================================================
