---------------------------- MODULE Trace_PubSub ----------------------------
(***************************************************************************)
(* Trace validation for C18.  Histories of SUBSCRIBE / PSUBSCRIBE /        *)
(* UNSUBSCRIBE / PUNSUBSCRIBE / PUBLISH (single messages and bursts) and   *)
(* PUBSUB CHANNELS / NUMSUB / NUMPAT on several connections of a real      *)
(* server; after every publish the harness waits until the delivery steps  *)
(* it counts through the instrumentation points have all finished, so what *)
(* each connection received is a function of the history.                  *)
(* tab = the subscription table: set of [c, pat, name].                    *)
(***************************************************************************)
EXTENDS Integers, Sequences, FiniteSets, Json, IOUtils, TLC

CONSTANT Deviations

Trace == ndJsonDeserialize(IOEnv.TRACE)

VARIABLES l, tab, dev
vars == <<l, tab, dev>>

Range(s) == {s[i] : i \in DOMAIN s}

Names == {"n1", "n2", "m1", "zz", "n*", "*", "m?"}
\* gobwas/glob on this universe of names (trusted, tabulated)
GlobTab == [p \in Names |->
              CASE p = "n*" -> {"n1", "n2", "n*"}
                [] p = "*"  -> Names
                [] p = "m?" -> {"m1", "m?"}
                [] OTHER    -> {p}]
Glob(p, s) == p \in Names /\ s \in GlobTab[p]

Ev == Trace[l]
Has(n) == n \in Deviations

Mine(c) == {e \in tab : e.c = c}
\* does a publish to ch reach entry e
Reaches(e, ch) == IF e.pat THEN Glob(e.name, ch) ELSE e.name = ch

Init == l = 1 /\ tab = {} /\ dev = [n \in Deviations |-> 0]

TReset == /\ l <= Len(Trace) /\ Ev.ev = "reset" /\ tab' = {} /\ l' = l + 1 /\ UNCHANGED dev

Bump(used) == dev' = [n \in Deviations |-> IF n \in used THEN dev[n] + 1 ELSE dev[n]]

\* SUBSCRIBE / PSUBSCRIBE: one confirmation per name, in order, carrying the connection's running
\* number of subscriptions (open finding PubSubCount: the code sends the index within the command)
RECURSIVE SubFold(_, _, _, _)
SubFold(t, c, pat, names) ==       \* sequence of [tab, count] after each name
    IF names = <<>> THEN <<>>
    ELSE LET t1 == t \cup {[c |-> c, pat |-> pat, name |-> Head(names)]} IN
         <<[t |-> t1, n |-> Cardinality({e \in t1 : e.c = c})]>> \o SubFold(t1, c, pat, Tail(names))

TSub == /\ l <= Len(Trace) /\ Ev.ev = "sub"
        /\ LET f    == SubFold(tab, Ev.c, Ev.pat, Ev.names)
               kind == IF Ev.pat THEN "psubscribe" ELSE "subscribe"
               shape == /\ Len(Ev.confs) = Len(Ev.names)
                        /\ \A i \in 1..Len(Ev.names) : Ev.confs[i].kind = kind /\ Ev.confs[i].name = Ev.names[i]
               ideal == \A i \in 1..Len(Ev.names) : Ev.confs[i].n = f[i].n
               code  == \A i \in 1..Len(Ev.names) : Ev.confs[i].n = i
           IN /\ shape
              /\ (ideal \/ (Has("PubSubCount") /\ code))
              /\ Bump(IF ideal THEN {} ELSE {"PubSubCount"})
              /\ tab' = f[Len(f)].t
        /\ l' = l + 1

\* UNSUBSCRIBE / PUNSUBSCRIBE (as-code shape: one reply holding one confirmation per entry left).
\* No names: every entry of that kind.  PUNSUBSCRIBE p also leaves every entry whose name p matches.
Leaving(c, pat, names) ==
    IF names = <<>> THEN {e \in Mine(c) : e.pat = pat}
    ELSE {e \in Mine(c) : e.name \in Range(names) \/ (pat /\ \E p \in Range(names) : Glob(p, e.name))}

TUnsub == /\ l <= Len(Trace) /\ Ev.ev = "unsub"
          /\ LET gone == Leaving(Ev.c, Ev.pat, Ev.names)
                 kind == IF Ev.pat THEN "punsubscribe" ELSE "unsubscribe"
                 n    == Cardinality(gone)
                 left == Cardinality(Mine(Ev.c)) - n
                 shape == /\ Len(Ev.confs) = n
                          /\ {cf.name : cf \in Range(Ev.confs)} = {e.name : e \in gone}
                          /\ \A cf \in Range(Ev.confs) : cf.kind = kind
                 ideal == {cf.n : cf \in Range(Ev.confs)} = left..(left + n - 1)
                 code  == {cf.n : cf \in Range(Ev.confs)} = 1..n
             IN /\ shape
                /\ (ideal \/ (Has("PubSubCount") /\ code))
                /\ Bump(IF ideal THEN {} ELSE {"PubSubCount"})
                /\ tab' = tab \ gone
          /\ l' = l + 1

\* PUBLISH of a burst of messages to one channel: every connection receives, through each of its
\* entries the channel reaches, every message exactly once and in publish order (open finding
\* PubSubOrder: each write is a goroutine of its own, so the order within an entry may differ)
Through(recv, e) == SelectSeq(recv, LAMBDA m : m.entry = e.name)

TPub == /\ l <= Len(Trace) /\ Ev.ev = "pub"
        /\ Ev.ok
        /\ LET conns == {e.c : e \in tab} \cup {c \in DOMAIN Ev.recv : TRUE}
               okc(c, strict) ==
                   LET recv == IF c \in DOMAIN Ev.recv THEN Ev.recv[c] ELSE <<>>
                       es   == {e \in Mine(c) : Reaches(e, Ev.ch)}
                   IN /\ Len(recv) = Cardinality(es) * Len(Ev.msgs)
                      /\ \A m \in Range(recv) : m.kind = "message"
                      /\ \A e \in es :
                            LET got == [i \in 1..Len(Through(recv, e)) |-> Through(recv, e)[i].msg] IN
                            IF strict THEN got = Ev.msgs
                            ELSE Len(got) = Len(Ev.msgs) /\ Range(got) = Range(Ev.msgs)
               ideal == \A c \in conns : okc(c, TRUE)
               loose == \A c \in conns : okc(c, FALSE)
           IN /\ (ideal \/ (Has("PubSubOrder") /\ loose))
              /\ Bump(IF ideal THEN {} ELSE {"PubSubOrder"})
        /\ l' = l + 1 /\ UNCHANGED tab

\* PUBSUB CHANNELS [pattern] / NUMSUB name... / NUMPAT reflect the table
Active == {e.name : e \in tab}
NumSubOf(name) == Cardinality({e \in tab : e.name = name})

TQuery == /\ l <= Len(Trace) /\ Ev.ev = "query"
          /\ CASE Ev.q = "channels" ->
                    LET want == IF Ev.arg = "" THEN Active ELSE {n \in Active : Glob(Ev.arg, n)} IN
                    Len(Ev.names) = Cardinality(want) /\ Range(Ev.names) = want
               [] Ev.q = "numsub" ->
                    /\ Len(Ev.pairs) = Len(Ev.args)
                    /\ \A i \in 1..Len(Ev.args) : Ev.pairs[i].name = Ev.args[i] /\ Ev.pairs[i].n = NumSubOf(Ev.args[i])
               [] Ev.q = "numpat" -> Ev.n = Cardinality({e.name : e \in {x \in tab : x.pat}})
          /\ l' = l + 1 /\ UNCHANGED <<tab, dev>>

DiagLine == IF "DIAG" \in DOMAIN IOEnv THEN atoi(IOEnv.DIAG) ELSE 0
TStuck == /\ l <= Len(Trace) /\ l = DiagLine
          /\ PrintT(<<"MISMATCH-LINE", l>>)
          /\ PrintT(<<"MISMATCH-NOTE", "event", Ev>>)
          /\ PrintT(<<"MISMATCH-NOTE", "subscription table of the model", tab>>)
          /\ FALSE /\ UNCHANGED vars

Next == TReset \/ TSub \/ TUnsub \/ TPub \/ TQuery \/ TStuck
Spec == Init /\ [][Next]_vars

Report == (l = Len(Trace) + 1) => PrintT(<<"SUMMARY", Len(Trace), dev, 0>>)
TraceAccepted == TLCGet("stats").diameter - 1 = Len(Trace)
=============================================================================
