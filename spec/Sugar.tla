-------------------------------- MODULE Sugar --------------------------------
(***************************************************************************)
(* The sequential server: one client, a virtual clock, several logical     *)
(* databases.  Do(a) executes one command atomically through Exec (the     *)
(* single definition of command meaning, shared with the trace specs, the  *)
(* persistence, replication and concurrency models).  Tick advances the    *)
(* clock.  The properties below are the listed properties C01/C04/C13/C20  *)
(* phrased over this machine; the MC_* modules instantiate Cmds/Inits with *)
(* small alphabets and TLC checks them on every reachable state.           *)
(***************************************************************************)
EXTENDS Exec

CONSTANTS Cmds,        \* set of commands (token sequences) a client may issue
          Inits,       \* set of initial stores (presets)
          DBs,         \* database names the client may select
          TickSizes,   \* clock increments
          MaxSteps, T0

VARIABLES store, now, db, last, reply, steps
vars == <<store, now, db, last, reply, steps>>

Ctx == [S |-> store, now |-> now, db |-> db, D |-> {}]

NoCmd == <<[s |-> "NONE"]>>

Init == /\ store \in Inits /\ now = T0 /\ db \in DBs
        /\ last = NoCmd /\ reply = RNil /\ steps = 0

Do(a) == /\ steps < MaxSteps
         /\ LET o == Exec(Ctx, a, RNil) IN
            /\ o.rel = "eq"
            /\ store' = o.S /\ reply' = o.r
         /\ last' = a /\ steps' = steps + 1 /\ UNCHANGED <<now, db>>

Tick(d) == /\ steps < MaxSteps
           /\ now' = now + d /\ last' = NoCmd /\ reply' = RNil
           /\ steps' = steps + 1 /\ UNCHANGED <<store, db>>

Select(d) == /\ steps < MaxSteps /\ d # db
             /\ db' = d /\ last' = NoCmd /\ reply' = RNil
             /\ steps' = steps + 1 /\ UNCHANGED <<store, now>>

Next == (\E a \in Cmds : Do(a)) \/ (\E d \in TickSizes : Tick(d)) \/ (\E d \in DBs : Select(d))

Spec == Init /\ [][Next]_vars

View == <<store, now, db, steps>>

----------------------------------------------------------------------------
\* command classification (hand-written from the documented syntax; docs/docs/commands)

OpOf(a) == a[1].s

ReadOps == {"GET", "MGET", "TTL", "PTTL", "EXPIRETIME", "PEXPIRETIME", "TYPE", "STRLEN", "GETRANGE", "SUBSTR", "RANDOMKEY", "TOUCH"}
GlobalOps == {"FLUSHALL"}
FlushOps == {"FLUSHDB", "FLUSHALL"}

\* keys a command names (every symbol token after the command name that is not an option keyword)
OptionWords == {"EX", "PX", "EXAT", "PXAT", "NX", "XX", "GT", "LT", "GET", "PERSIST", "BOGUS", "ZZ"}
KeysNamed(a) == {a[i].s : i \in {j \in 2..Len(a) : IsSym(a[j]) /\ ~(KW(a[j]) \in OptionWords)}}

----------------------------------------------------------------------------
\* C01  an error reply changes nothing
ErrNoChange == [][reply'.t = "err" /\ last' # NoCmd => Norm(store', now') = Norm(store, now')]_vars

\* C01  bytes written are the bytes read: after a successful SET k v, GET k returns v
ByteExact ==
    [][(last' # NoCmd /\ OpOf(last') = "SET" /\ Len(last') = 3 /\ reply'.t = "ok")
        => Exec([S |-> store', now |-> now', db |-> db', D |-> {}],
                <<[s |-> "GET"], last'[2]>>, RNil).r = RStr(TokBytes(last'[3]))]_vars

\* C01/C13 frame: a command changes only keys it names in the selected database (flushes aside)
Frame ==
    [][last' # NoCmd /\ ~(OpOf(last') \in FlushOps) =>
          \A x \in (DOMAIN Norm(store, now')) \cup (DOMAIN Norm(store', now')) :
              (x[1] # db \/ ~(x[2] \in KeysNamed(last'))) =>
                  (x \in DOMAIN store /\ x \in DOMAIN store' /\ store'[x] = store[x])]_vars

\* C13  commands classified as read never change what a later command can observe
ReadOnlyPure == [][last' # NoCmd /\ OpOf(last') \in ReadOps => Norm(store', now') = Norm(store, now')]_vars

\* C04  an expired key is unobservable: every command behaves exactly as if it were not there
Unobservable ==
    \A a \in Cmds :
        LET o1 == Exec(Ctx, a, RNil)
            o2 == Exec([Ctx EXCEPT !.S = Norm(store, now)], a, RNil)
        IN o1.r = o2.r /\ Norm(o1.S, now) = Norm(o2.S, now)

\* C04  expiry never removes a key before its deadline: the clock alone changes nothing, and a
\*      live key disappears only through a command that names it (or a flush)  [see Frame]
TickKeepsStore == [][last' = NoCmd => store' = store]_vars

\* C04  a key (re)created over an expired entry does not inherit the dead deadline
FreshDeadline ==
    [][\A x \in DOMAIN store :
          (~LiveEnt(store[x], now') /\ x \in DOMAIN store' /\ store'[x] # store[x])
              => store'[x].d # store[x].d]_vars

\* C04  the four time queries agree with the stored deadline
TtlAgrees ==
    \A x \in DOMAIN Norm(store, now) :
        x[1] = db =>
        LET k == [s |-> x[2]]
            d == store[x].d
            q(op) == Exec(Ctx, <<[s |-> op], k>>, RNil).r
        IN /\ q("PEXPIRETIME") = RInt(IF d = NoD THEN -1 ELSE d)
           /\ q("PTTL") = RInt(IF d = NoD THEN -1 ELSE d - now)
           /\ q("EXPIRETIME") = RInt(IF d = NoD THEN -1 ELSE d \div 1000)

\* C20  a command never touches another logical database (FLUSHALL aside)
Isolation ==
    [][last' # NoCmd /\ ~(OpOf(last') \in GlobalOps) =>
          \A x \in (DOMAIN store) \cup (DOMAIN store') :
              x[1] # db => (x \in DOMAIN store /\ x \in DOMAIN store' /\ store'[x] = store[x])]_vars

FlushAllEmpties == [][last' # NoCmd /\ OpOf(last') = "FLUSHALL" /\ reply'.t = "ok" => store' = EmptyStore]_vars
FlushDbOnlyOwn  == [][last' # NoCmd /\ OpOf(last') = "FLUSHDB" /\ reply'.t = "ok" =>
                        store' = DropDb(store, db)]_vars

\* C19  the accounted size is a function of the dataset: zero when empty, a sum over the entries,
\*      and a command moves it only by the entries it changes
MemZeroEmpty == (DOMAIN store = {}) => MemOf(store) = 0
MemAdditive  == \A x \in DOMAIN store : MemOf(store) = MemOf([y \in (DOMAIN store) \ {x} |-> store[y]]) + EntryMem(store, x)
MemFrame     == [][MemOf(store') - MemOf(store) =
                     LET ch == {x \in (DOMAIN store) \cup (DOMAIN store') :
                                  ~(x \in DOMAIN store /\ x \in DOMAIN store' /\ store'[x].v = store[x].v)}
                         f(x) == (IF x \in DOMAIN store' THEN EntryMem(store', x) ELSE 0)
                                 - (IF x \in DOMAIN store THEN EntryMem(store, x) ELSE 0)
                     IN SumSet(f, ch)]_vars

\* sanity of the state space itself
TypeOK ==
    /\ \A x \in DOMAIN store : x[1] \in DBs /\ Modellable(store[x].v) /\ (store[x].d = NoD \/ store[x].d >= 0)
    /\ reply.t \in {"ok", "nil", "err", "int", "str", "arr"}

=============================================================================
