SPECIFICATION Spec
CONSTANTS
  Cmds <- MCCmds
  Inits <- MCInits
  DBs <- MCDBs
  TickSizes <- MCTicks
  MaxSteps = 3
  T0 <- MCT0
VIEW View
INVARIANTS TypeOK ReadsAgree MoveBack
PROPERTIES ErrNoChange Frame ReadOnlyPure LReadOnlyPure LWrongType LFrame RangeLaw PushLaw PopLaw PopCountLaw SetLaw TrimLaw RemLaw MoveLaw NoGhostKeys
CHECK_DEADLOCK FALSE
