SPECIFICATION Spec
CONSTANTS
  Design = "ideal"
  LocalWrites = FALSE
  MaxId = 2
  Dbs = {0, 1}
  MaxEnv = 2
INVARIANTS InvTypeOK InvIsReplay InvAgreement InvAgreementStrict InvReadYourWrites InvHanded InvConverged
PROPERTIES PropOnlyByLog PropAppendOnly
CHECK_DEADLOCK FALSE
