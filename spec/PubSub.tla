------------------------------- MODULE PubSub -------------------------------
(***************************************************************************)
(* C18: the subscription table, publish, the per-entry message queue and   *)
(* the delivery goroutines (internal/modules/pubsub).  An entry is a plain *)
(* channel or a glob pattern; Matches(e, ch) says whether a publish to ch  *)
(* reaches entry e.  One action per step of the implementation:            *)
(*   Publish    enqueue the message on every matching entry                *)
(*   Dequeue    the entry's goroutine takes the next message               *)
(*   Deliver    one write to one subscriber                                *)
(* Reference = TRUE: the recipients are the subscribers at publish time    *)
(* and an entry's messages are written in queue order (what the property   *)
(* demands).  Reference = FALSE is the code: recipients are read at        *)
(* Dequeue time and every write is a goroutine of its own, so writes of    *)
(* different messages can overtake each other - TLC shows ExactlyOnce and  *)
(* InOrder violated (open findings PubSubRecipients / PubSubOrder).        *)
(***************************************************************************)
EXTENDS Integers, Sequences, FiniteSets

CONSTANTS Conns, Entries, Chans, Matches(_, _), MaxPub, MaxOps, Reference

VARIABLES subs, queue, flying, inbox, npub, owed, nops
vars == <<subs, queue, flying, inbox, npub, owed, nops>>

\* owed[c][e]: what the property says c must receive through entry e, in order (ghost)

Init == /\ subs = {} /\ queue = [e \in Entries |-> <<>>] /\ flying = {}
        /\ inbox = [c \in Conns |-> [e \in Entries |-> <<>>]]
        /\ owed = [c \in Conns |-> [e \in Entries |-> <<>>]]
        /\ npub = 0 /\ nops = 0

Subscribe(c, e) == /\ nops < MaxOps /\ subs' = subs \cup {<<c, e>>} /\ nops' = nops + 1
                   /\ UNCHANGED <<queue, flying, inbox, npub, owed>>
Unsubscribe(c, e) == /\ nops < MaxOps /\ <<c, e>> \in subs /\ subs' = subs \ {<<c, e>>} /\ nops' = nops + 1
                     /\ UNCHANGED <<queue, flying, inbox, npub, owed>>

Publish(ch) ==
    /\ npub < MaxPub /\ npub' = npub + 1
    /\ queue' = [e \in Entries |-> IF Matches(e, ch)
                                   THEN Append(queue[e], [m |-> npub + 1, to |-> {c \in Conns : <<c, e>> \in subs}])
                                   ELSE queue[e]]
    /\ owed' = [c \in Conns |-> [e \in Entries |->
                    IF Matches(e, ch) /\ <<c, e>> \in subs THEN Append(owed[c][e], npub + 1) ELSE owed[c][e]]]
    /\ UNCHANGED <<subs, flying, inbox, nops>>

\* reference: deliver the head message to the recipients recorded at publish time, in queue order
DequeueRef(e) ==
    /\ Reference /\ queue[e] # <<>>
    /\ LET h == Head(queue[e]) IN
       inbox' = [c \in Conns |-> [x \in Entries |-> IF x = e /\ c \in h.to THEN Append(inbox[c][x], h.m) ELSE inbox[c][x]]]
    /\ queue' = [queue EXCEPT ![e] = Tail(@)]
    /\ UNCHANGED <<subs, flying, npub, owed, nops>>

\* the code: read the subscriber map now, start one goroutine per subscriber
DequeueCode(e) ==
    /\ ~Reference /\ queue[e] # <<>>
    /\ flying' = flying \cup {[c |-> c, e |-> e, m |-> Head(queue[e]).m] : c \in {c \in Conns : <<c, e>> \in subs}}
    /\ queue' = [queue EXCEPT ![e] = Tail(@)]
    /\ UNCHANGED <<subs, inbox, npub, owed, nops>>

Deliver(f) ==
    /\ f \in flying /\ flying' = flying \ {f}
    /\ inbox' = [inbox EXCEPT ![f.c][f.e] = Append(@, f.m)]
    /\ UNCHANGED <<subs, queue, npub, owed, nops>>

Next == \/ \E c \in Conns, e \in Entries : Subscribe(c, e) \/ Unsubscribe(c, e)
        \/ \E ch \in Chans : Publish(ch)
        \/ \E e \in Entries : DequeueRef(e) \/ DequeueCode(e)
        \/ \E f \in flying : Deliver(f)

Spec == Init /\ [][Next]_vars

Quiescent == flying = {} /\ \A e \in Entries : queue[e] = <<>>

\* exactly once, to the subscribers at publish time and to nobody else, in publish order
ExactlyOnceInOrder == Quiescent => \A c \in Conns, e \in Entries : inbox[c][e] = owed[c][e]

\* weaker halves, to tell the two defects of the code apart
SameMessages == Quiescent => \A c \in Conns, e \in Entries :
                    /\ {inbox[c][e][i] : i \in DOMAIN inbox[c][e]} = {owed[c][e][i] : i \in DOMAIN owed[c][e]}
                    /\ Len(inbox[c][e]) = Len(owed[c][e])
NeverAhead == \A c \in Conns, e \in Entries : Len(inbox[c][e]) <= Len(owed[c][e])

=============================================================================
