SPECIFICATION Spec
CONSTANTS
  Cmds <- MZCmds
  Inits <- MZInits
  DBs <- MZDBs
  TickSizes <- MZTicks
  MaxSteps = 3
  T0 <- MZT0
VIEW View
INVARIANTS ZTypeOK Unobservable LawRangeIsTheOrder LawRank LawCount LawRevLimit LawAlgebra
PROPERTIES ErrNoChange Frame ZReadOnlyPure ZWrongTypeFails TickKeepsStore LawZAddGrowth LawZAddSets LawPop LawIncr LawStore
CHECK_DEADLOCK FALSE
