------------------------------- MODULE MC_Conc -------------------------------
(* Bounded instance of Conc: every unordered pair of the handler shapes below, on shared and on
   distinct keys, from three initial stores. *)
EXTENDS Conc

K(k) == [s |-> k]
W(w) == [s |-> w]
V(b) == [b |-> b]

CCT0 == 100000

CCCmds == { <<W("GET"), K("k1")>>, <<W("MGET"), K("k1"), K("k2")>>,
            <<W("SET"), K("k1"), V(<<97>>)>>, <<W("SET"), K("k1"), V(<<98>>), W("NX")>>,
            <<W("SET"), K("k1"), V(<<99>>), W("PXAT"), [at |-> CCT0 + 5000, u |-> "ms"]>>,
            <<W("MSET"), K("k1"), V(<<120>>), K("k2"), V(<<121>>)>>,
            <<W("INCR"), K("k1")>>, <<W("INCR"), K("k2")>>,
            <<W("APPEND"), K("k1"), V(<<122>>)>>,
            <<W("DEL"), K("k1")>>, <<W("GETDEL"), K("k1")>>,
            <<W("RENAME"), K("k1"), K("k2")>>, <<W("RENAME"), K("k2"), K("k1")>>,
            <<W("RPUSH"), K("k1"), V(<<101>>)>>, <<W("RPUSH"), K("k2"), V(<<102>>)>> }

\* ordered pairs (thorough) and unordered pairs (quick); a command may race with a copy of itself
CCSeq == SetToSeq(CCCmds)
CCPairs == {<<CCSeq[i], CCSeq[j]>> : i \in 1..Len(CCSeq), j \in 1..Len(CCSeq)}
CCPairsQuick == {<<CCSeq[i], CCSeq[j]>> : i \in 1..Len(CCSeq), j \in 1..Len(CCSeq)} \cap
                {pr \in CCPairs : \E i \in 1..Len(CCSeq), j \in 1..Len(CCSeq) : i <= j /\ pr = <<CCSeq[i], CCSeq[j]>>}

CCInits ==
    { EmptyStore,
      (<<"0", "k1">> :> Ent(VInt(5), NoD)) @@ (<<"0", "k2">> :> Ent(VStr(<<113>>), CCT0 + 9000)),
      (<<"0", "k1">> :> Ent(VStr(<<104, 105>>), CCT0 + 7000)) @@ (<<"0", "k2">> :> Ent(VList(<< <<97>> >>), NoD)),
      (<<"0", "k1">> :> Ent(VList(<< <<97>>, <<98>> >>), NoD)) }
=============================================================================
