---- MODULE Persist_TTrace_1790201573 ----
EXTENDS Sequences, TLCExt, Toolbox, Naturals, TLC, Persist

_expression ==
    LET Persist_TEExpression == INSTANCE Persist_TEExpression
    IN Persist_TEExpression!expression
----

_trace ==
    LET Persist_TETrace == INSTANCE Persist_TETrace
    IN Persist_TETrace!trace
----

_inv ==
    ~(
        TLCGet("level") = Len(_TETrace)
        /\
        pre = (<<1>>)
        /\
        nexec = (1)
        /\
        synced = (1)
        /\
        rpc = ("prewritten")
        /\
        rwsnap = (<<1>>)
        /\
        ncrash = (0)
        /\
        log = (<<1>>)
        /\
        wpc = ("idle")
        /\
        acked = (1)
        /\
        nrw = (1)
        /\
        mem = (<<1>>)
        /\
        rwmark = (1)
        /\
        up = (TRUE)
    )
----

_init ==
    /\ log = _TETrace[1].log
    /\ rpc = _TETrace[1].rpc
    /\ rwsnap = _TETrace[1].rwsnap
    /\ rwmark = _TETrace[1].rwmark
    /\ synced = _TETrace[1].synced
    /\ pre = _TETrace[1].pre
    /\ nrw = _TETrace[1].nrw
    /\ nexec = _TETrace[1].nexec
    /\ up = _TETrace[1].up
    /\ acked = _TETrace[1].acked
    /\ ncrash = _TETrace[1].ncrash
    /\ wpc = _TETrace[1].wpc
    /\ mem = _TETrace[1].mem
----

_next ==
    /\ \E i,j \in DOMAIN _TETrace:
        /\ \/ /\ j = i + 1
              /\ i = TLCGet("level")
        /\ log  = _TETrace[i].log
        /\ log' = _TETrace[j].log
        /\ rpc  = _TETrace[i].rpc
        /\ rpc' = _TETrace[j].rpc
        /\ rwsnap  = _TETrace[i].rwsnap
        /\ rwsnap' = _TETrace[j].rwsnap
        /\ rwmark  = _TETrace[i].rwmark
        /\ rwmark' = _TETrace[j].rwmark
        /\ synced  = _TETrace[i].synced
        /\ synced' = _TETrace[j].synced
        /\ pre  = _TETrace[i].pre
        /\ pre' = _TETrace[j].pre
        /\ nrw  = _TETrace[i].nrw
        /\ nrw' = _TETrace[j].nrw
        /\ nexec  = _TETrace[i].nexec
        /\ nexec' = _TETrace[j].nexec
        /\ up  = _TETrace[i].up
        /\ up' = _TETrace[j].up
        /\ acked  = _TETrace[i].acked
        /\ acked' = _TETrace[j].acked
        /\ ncrash  = _TETrace[i].ncrash
        /\ ncrash' = _TETrace[j].ncrash
        /\ wpc  = _TETrace[i].wpc
        /\ wpc' = _TETrace[j].wpc
        /\ mem  = _TETrace[i].mem
        /\ mem' = _TETrace[j].mem

\* Uncomment the ASSUME below to write the states of the error trace
\* to the given file in Json format. Note that you can pass any tuple
\* to `JsonSerialize`. For example, a sub-sequence of _TETrace.
    \* ASSUME
    \*     LET J == INSTANCE Json
    \*         IN J!JsonSerialize("Persist_TTrace_1790201573.json", _TETrace)

=============================================================================

 Note that you can extract this module `Persist_TEExpression`
  to a dedicated file to reuse `expression` (the module in the 
  dedicated `Persist_TEExpression.tla` file takes precedence 
  over the module `Persist_TEExpression` below).

---- MODULE Persist_TEExpression ----
EXTENDS Sequences, TLCExt, Toolbox, Naturals, TLC, Persist

expression == 
    [
        \* To hide variables of the `Persist` spec from the error trace,
        \* remove the variables below.  The trace will be written in the order
        \* of the fields of this record.
        log |-> log
        ,rpc |-> rpc
        ,rwsnap |-> rwsnap
        ,rwmark |-> rwmark
        ,synced |-> synced
        ,pre |-> pre
        ,nrw |-> nrw
        ,nexec |-> nexec
        ,up |-> up
        ,acked |-> acked
        ,ncrash |-> ncrash
        ,wpc |-> wpc
        ,mem |-> mem
        
        \* Put additional constant-, state-, and action-level expressions here:
        \* ,_stateNumber |-> _TEPosition
        \* ,_logUnchanged |-> log = log'
        
        \* Format the `log` variable as Json value.
        \* ,_logJson |->
        \*     LET J == INSTANCE Json
        \*     IN J!ToJson(log)
        
        \* Lastly, you may build expressions over arbitrary sets of states by
        \* leveraging the _TETrace operator.  For example, this is how to
        \* count the number of times a spec variable changed up to the current
        \* state in the trace.
        \* ,_logModCount |->
        \*     LET F[s \in DOMAIN _TETrace] ==
        \*         IF s = 1 THEN 0
        \*         ELSE IF _TETrace[s].log # _TETrace[s-1].log
        \*             THEN 1 + F[s-1] ELSE F[s-1]
        \*     IN F[_TEPosition - 1]
    ]

=============================================================================



Parsing and semantic processing can take forever if the trace below is long.
 In this case, it is advised to uncomment the module below to deserialize the
 trace from a generated binary file.

\*
\*---- MODULE Persist_TETrace ----
\*EXTENDS IOUtils, TLC, Persist
\*
\*trace == IODeserialize("Persist_TTrace_1790201573.bin", TRUE)
\*
\*=============================================================================
\*

---- MODULE Persist_TETrace ----
EXTENDS TLC, Persist

trace == 
    <<
    ([pre |-> <<>>,nexec |-> 0,synced |-> 0,rpc |-> "idle",rwsnap |-> <<>>,ncrash |-> 0,log |-> <<>>,wpc |-> "idle",acked |-> 0,nrw |-> 0,mem |-> <<>>,rwmark |-> 0,up |-> TRUE]),
    ([pre |-> <<>>,nexec |-> 1,synced |-> 0,rpc |-> "idle",rwsnap |-> <<>>,ncrash |-> 0,log |-> <<>>,wpc |-> "handled",acked |-> 0,nrw |-> 0,mem |-> <<1>>,rwmark |-> 0,up |-> TRUE]),
    ([pre |-> <<>>,nexec |-> 1,synced |-> 0,rpc |-> "idle",rwsnap |-> <<>>,ncrash |-> 0,log |-> <<1>>,wpc |-> "written",acked |-> 0,nrw |-> 0,mem |-> <<1>>,rwmark |-> 0,up |-> TRUE]),
    ([pre |-> <<>>,nexec |-> 1,synced |-> 1,rpc |-> "idle",rwsnap |-> <<>>,ncrash |-> 0,log |-> <<1>>,wpc |-> "synced",acked |-> 0,nrw |-> 0,mem |-> <<1>>,rwmark |-> 0,up |-> TRUE]),
    ([pre |-> <<>>,nexec |-> 1,synced |-> 1,rpc |-> "idle",rwsnap |-> <<>>,ncrash |-> 0,log |-> <<1>>,wpc |-> "idle",acked |-> 1,nrw |-> 0,mem |-> <<1>>,rwmark |-> 0,up |-> TRUE]),
    ([pre |-> <<>>,nexec |-> 1,synced |-> 1,rpc |-> "copied",rwsnap |-> <<1>>,ncrash |-> 0,log |-> <<1>>,wpc |-> "idle",acked |-> 1,nrw |-> 1,mem |-> <<1>>,rwmark |-> 1,up |-> TRUE]),
    ([pre |-> <<>>,nexec |-> 1,synced |-> 1,rpc |-> "pretrunc",rwsnap |-> <<1>>,ncrash |-> 0,log |-> <<1>>,wpc |-> "idle",acked |-> 1,nrw |-> 1,mem |-> <<1>>,rwmark |-> 1,up |-> TRUE]),
    ([pre |-> <<1>>,nexec |-> 1,synced |-> 1,rpc |-> "prewritten",rwsnap |-> <<1>>,ncrash |-> 0,log |-> <<1>>,wpc |-> "idle",acked |-> 1,nrw |-> 1,mem |-> <<1>>,rwmark |-> 1,up |-> TRUE])
    >>
----


=============================================================================

---- CONFIG Persist_TTrace_1790201573 ----
CONSTANTS
    MaxCmds = 4
    MaxRewrites = 2
    MaxCrashes = 2
    Strategy = "always"
    Atomic = FALSE

INVARIANT
    _inv

CHECK_DEADLOCK
    \* CHECK_DEADLOCK off because of PROPERTY or INVARIANT above.
    FALSE

INIT
    _init

NEXT
    _next

CONSTANT
    _TETrace <- _trace

ALIAS
    _expression
=============================================================================
\* Generated on Wed Sep 23 22:12:54 UTC 2026