-------------------------------- MODULE Evict --------------------------------
(***************************************************************************)
(* C08: max-memory policies as a state machine.  Keys have sizes; mem is   *)
(* the sum of the sizes of the keys present; an access moves a key to the  *)
(* end of the recency order and bumps its count.  After a write pushed mem *)
(* to the limit or above, EvictStep removes one key at a time.  The        *)
(* properties are the clauses of C08; Trace_Evict.tla checks the same      *)
(* clauses on the evictions of the real server.                            *)
(***************************************************************************)
EXTENDS Integers, Sequences, FiniteSets

CONSTANTS Keys, Sizes, Max, Policy, MaxSteps

VARIABLES present, vol, size, order, count, lastEvicted, refused, steps
vars == <<present, vol, size, order, count, lastEvicted, refused, steps>>

Mem == LET RECURSIVE Sum(_)
           Sum(S) == IF S = {} THEN 0 ELSE LET k == CHOOSE k \in S : TRUE IN size[k] + Sum(S \ {k})
       IN Sum(present)

VolatilePolicy == Policy \in {"volatile-lru", "volatile-lfu", "volatile-random"}
Candidates == IF VolatilePolicy THEN present \cap vol ELSE present

Touch(k) == Append(SelectSeq(order, LAMBDA x : x # k), k)

Pos(k) == CHOOSE i \in 1..Len(order) : order[i] = k

\* the policy's choice among the candidates
Victims == CASE Policy \in {"allkeys-lru", "volatile-lru"} ->
                  {k \in Candidates : \A j \in Candidates : Pos(k) <= Pos(j)}
             [] Policy \in {"allkeys-lfu", "volatile-lfu"} ->
                  {k \in Candidates : \A j \in Candidates : count[k] <= count[j]}
             [] OTHER -> Candidates

Init == /\ present = {} /\ vol = {} /\ size = [k \in Keys |-> 0] /\ order = <<>> /\ count = [k \in Keys |-> 0]
        /\ lastEvicted = "" /\ refused = FALSE /\ steps = 0

Evicting == Policy # "noeviction" /\ Mem >= Max /\ Candidates # {}

Write(k, s, v) ==
    /\ steps < MaxSteps /\ ~Evicting
    /\ IF Policy = "noeviction" /\ Mem >= Max
       THEN refused' = TRUE /\ UNCHANGED <<present, vol, size, order, count>>
       ELSE /\ refused' = FALSE
            /\ present' = present \cup {k} /\ size' = [size EXCEPT ![k] = s]
            /\ vol' = IF v THEN vol \cup {k} ELSE vol
            /\ order' = Touch(k) /\ count' = [count EXCEPT ![k] = IF k \in present THEN @ + 1 ELSE 1]
    /\ lastEvicted' = "" /\ steps' = steps + 1

Read(k) == /\ steps < MaxSteps /\ ~Evicting /\ k \in present
           /\ order' = Touch(k) /\ count' = [count EXCEPT ![k] = @ + 1]
           /\ lastEvicted' = "" /\ refused' = FALSE /\ steps' = steps + 1
           /\ UNCHANGED <<present, vol, size>>

Persist(k) == /\ steps < MaxSteps /\ ~Evicting /\ k \in present /\ vol' = vol \ {k}
              /\ lastEvicted' = "" /\ refused' = FALSE /\ steps' = steps + 1
              /\ UNCHANGED <<present, size, order, count>>

EvictStep == /\ Evicting
             /\ \E k \in Victims :
                  /\ present' = present \ {k} /\ vol' = vol \ {k}
                  /\ order' = SelectSeq(order, LAMBDA x : x # k) /\ count' = [count EXCEPT ![k] = 0]
                  /\ lastEvicted' = k
             /\ refused' = FALSE /\ UNCHANGED <<size, steps>>

Next == (\E k \in Keys, s \in Sizes, v \in BOOLEAN : Write(k, s, v)) \/ (\E k \in Keys : Read(k) \/ Persist(k)) \/ EvictStep
Spec == Init /\ [][Next]_vars

Removed == present \ present'

\* keys are removed only while usage is at or above the limit, and only by the policy's rules
OnlyWhenOver   == [][Removed # {} => Mem >= Max]_vars
FromCandidates == [][\A k \in Removed : (VolatilePolicy => k \in vol) /\ Policy # "noeviction"]_vars
InOrder        == [][\A k \in Removed : k \in Victims]_vars
\* eviction stops as soon as usage is back under the limit
StopWhenUnder  == [][Removed # {} => ~(Mem < Max)]_vars
\* noeviction: nothing is removed, and a write at or above the limit is refused
NoEvictionRefuses == [][(Policy = "noeviction" /\ Mem >= Max) => (present' = present /\ size' = size)]_vars
\* an evicted key is gone completely
GoneCompletely == lastEvicted # "" => ~(lastEvicted \in present) /\ ~(lastEvicted \in vol) /\ count[lastEvicted] = 0
=============================================================================
