------------------------------ MODULE SnapFiles ------------------------------
(***************************************************************************)
(* The files of the snapshot engine at the granularity of its file-system  *)
(* operations (internal/snapshot/snapshot.go TakeSnapshot; the action      *)
(* names are the instrumentation points seen in traces).  The dataset is   *)
(* abstracted to a version number that every write increments.             *)
(*   manifest  : version the manifest points at (0 = none / unreadable)    *)
(*   state[v]  : "none" | "partial" | "whole"  - the state file of v       *)
(* StateFirst = TRUE is the order of operations after the repair (state    *)
(* file under a temporary name, renamed; manifest written to a temporary   *)
(* file and renamed last).  StateFirst = FALSE is the original order       *)
(* (manifest truncated and rewritten in place first): TLC shows SnapAtomic *)
(* violated there - the defect the image check found on the real files.    *)
(***************************************************************************)
EXTENDS Integers, FiniteSets

CONSTANTS MaxVersion, MaxSnaps, StateFirst

VARIABLES ver, manifest, state, pc, cur, good, nsnap, lastsave
vars == <<ver, manifest, state, pc, cur, good, nsnap, lastsave>>

Versions == 1..MaxVersion

Init == /\ ver = 0 /\ manifest = 0 /\ state = [v \in Versions |-> "none"] /\ pc = "idle" /\ cur = 0
        /\ good = 0 /\ nsnap = 0 /\ lastsave = 0

Write == /\ pc = "idle" /\ ver < MaxVersion /\ ver' = ver + 1
         /\ UNCHANGED <<manifest, state, pc, cur, good, nsnap, lastsave>>

\* SAVE: nothing new -> no file is touched and LASTSAVE keeps its value
Begin == /\ pc = "idle" /\ ver > 0 /\ ver # good /\ nsnap < MaxSnaps
         /\ cur' = ver /\ pc' = "copied" /\ nsnap' = nsnap + 1
         /\ UNCHANGED <<ver, manifest, state, good, lastsave>>

\* --- repaired order ------------------------------------------------------
StateTmpWrite  == StateFirst /\ pc = "copied"  /\ pc' = "statetmp"  /\ UNCHANGED <<ver, manifest, state, cur, good, nsnap, lastsave>>
StateRename    == StateFirst /\ pc = "statetmp" /\ state' = [state EXCEPT ![cur] = "whole"] /\ pc' = "staterenamed"
                  /\ UNCHANGED <<ver, manifest, cur, good, nsnap, lastsave>>
ManTmpWrite    == StateFirst /\ pc = "staterenamed" /\ pc' = "mantmp" /\ UNCHANGED <<ver, manifest, state, cur, good, nsnap, lastsave>>
ManRename      == StateFirst /\ pc = "mantmp" /\ manifest' = cur /\ pc' = "published"
                  /\ UNCHANGED <<ver, state, cur, good, nsnap, lastsave>>

\* --- original order ------------------------------------------------------
ManTruncate    == ~StateFirst /\ pc = "copied" /\ manifest' = 0 /\ pc' = "mantrunc"
                  /\ UNCHANGED <<ver, state, cur, good, nsnap, lastsave>>
ManWrite       == ~StateFirst /\ pc = "mantrunc" /\ manifest' = cur /\ pc' = "manwritten"
                  /\ UNCHANGED <<ver, state, cur, good, nsnap, lastsave>>
StateCreate    == ~StateFirst /\ pc = "manwritten" /\ state' = [state EXCEPT ![cur] = "partial"] /\ pc' = "statecreated"
                  /\ UNCHANGED <<ver, manifest, cur, good, nsnap, lastsave>>
StateWrite     == ~StateFirst /\ pc = "statecreated" /\ state' = [state EXCEPT ![cur] = "whole"] /\ pc' = "published"
                  /\ UNCHANGED <<ver, manifest, cur, good, nsnap, lastsave>>

Done == /\ pc = "published" /\ good' = cur /\ lastsave' = cur /\ pc' = "idle"
        /\ UNCHANGED <<ver, manifest, state, cur, nsnap>>

Next == Write \/ Begin \/ StateTmpWrite \/ StateRename \/ ManTmpWrite \/ ManRename
        \/ ManTruncate \/ ManWrite \/ StateCreate \/ StateWrite \/ Done

Spec == Init /\ [][Next]_vars

\* what snapshot restore yields from the files as they are now (0 = nothing restored)
Restore == IF manifest # 0 /\ state[manifest] = "whole" THEN manifest ELSE 0

\* C10: a crash at any point restores the complete new snapshot or the complete previous one
SnapAtomic == Restore \in (IF pc = "idle" THEN {good} ELSE {good, cur})

\* C03/C10: the last-save time is that of the last completed snapshot; an attempt leaves it alone until it completes
LastSaveOK == lastsave = good

TypeOK == ver \in 0..MaxVersion /\ manifest \in 0..MaxVersion /\ good \in 0..MaxVersion

=============================================================================
