----------------------------- MODULE Trace_Sugar -----------------------------
(***************************************************************************)
(* Trace validation (code -> spec) for the sequential command semantics.   *)
(* The trace is an ndjson file recorded by the harness from the real       *)
(* server: one line per command with its tagged arguments, the parsed      *)
(* reply, the virtual time and the projected state after the command.      *)
(* Each line must be explained by Exec, ideal semantics first, otherwise   *)
(* with a minimal set of the *open* implementation deviations (Deviations).*)
(* A line nothing explains disables every action: the trace is rejected    *)
(* and TLC's diameter is the number of the offending line.                 *)
(***************************************************************************)
EXTENDS Proj, Json, IOUtils, TLC

CONSTANT Deviations,       \* names of the deviations of open known findings
         CheckMem          \* TRUE: the logged memory figure must equal MemOf of the logged dataset (C19)

Trace == ndJsonDeserialize(IOEnv.TRACE)

VARIABLES l, st, dev, nskip, pmem
vars == <<l, st, dev, nskip, pmem>>

Outcome(e, D) == Exec([S |-> st, now |-> e.now, db |-> e.db, D |-> D], e.cmd, e.r)

Matches(e, D) ==
    LET o == Outcome(e, D) IN
    CASE o.rel = "eq"    -> ReplyEq(o.r, e.r) /\ Norm(o.S, e.now) = Norm(ProjStore(e.st), e.now)
      [] o.rel = "skip"  -> TRUE
      [] o.rel = "panic" -> e.r.t = "panic"
      [] OTHER           -> FALSE

Explaining(e) == {D \in SUBSET (RelevantDevs(e.cmd) \cap Deviations) : Matches(e, D)}

Init == l = 1 /\ st = EmptyStore /\ dev = [n \in Deviations |-> 0] /\ nskip = 0 /\ pmem = 0

(***************************************************************************)
(* C19: the reported memory figure is a function of the (physically        *)
(* stored) dataset.  Judged on deltas: a step must change the figure by    *)
(* exactly the change of the accounted size of the entries it changed.     *)
(* Open finding MemInPlace: handlers that mutate a stored collection in    *)
(* place (or hand the mutated object back to setValues) leave the size     *)
(* change of that entry unaccounted - the figure then moves by the deltas  *)
(* of only a subset of the changed entries, and the error stays forever.   *)
(***************************************************************************)
InPlaceOps == {"SADD", "SREM", "SPOP", "SMOVE", "ZADD", "ZINCRBY", "ZREM", "ZPOPMIN", "ZPOPMAX", "ZMPOP",
               "ZREMRANGEBYSCORE", "ZREMRANGEBYRANK", "ZREMRANGEBYLEX"}

Changed(before, after) ==
    {x \in (DOMAIN before) \cup (DOMAIN after) :
        ~(x \in DOMAIN before /\ x \in DOMAIN after /\ before[x].v = after[x].v)}

EM(S, x) == IF x \in DOMAIN S THEN EntryMem(S, x) ELSE 0

DeltaOf(before, after, xs) == LET f(x) == EM(after, x) - EM(before, x) IN SumSet(f, xs)

MemStepOK(e, inplace) ==
    CheckMem =>
    LET after == ProjStore(e.st)
        ch    == Changed(st, after)
        d     == e.mem - pmem
    IN \/ d = DeltaOf(st, after, ch)
       \/ /\ inplace /\ "MemInPlace" \in Deviations
          /\ \E xs \in SUBSET ch : d = DeltaOf(st, after, xs)

MemExact(e) == CheckMem => e.mem = MemOf(ProjStore(e.st))

TraceReset ==
    /\ l <= Len(Trace) /\ Trace[l].ev = "reset"
    \* a freshly loaded dataset: the figure is MemOf of it (0 when empty) - unless the preset itself
    \* used one of the in-place commands of the open finding
    /\ \/ MemExact(Trace[l])
       \/ /\ "MemInPlace" \in Deviations
          /\ \E i \in 1..Len(Trace[l].preset) : Trace[l].preset[i][1].s \in InPlaceOps
    /\ st' = ProjStore(Trace[l].st) /\ pmem' = Trace[l].mem
    /\ l' = l + 1 /\ UNCHANGED <<dev, nskip>>

MemExactStep(e) == LET after == ProjStore(e.st) IN e.mem - pmem = DeltaOf(st, after, Changed(st, after))

\* the volatile-key index (the expiry sampler and the volatile-* eviction policies only ever look there) lists
\* every key, of every database, that carries a deadline
VolComplete(e) ==
    ("vol" \in DOMAIN e /\ ~(e.r.t \in {"panic", "hang"})) =>
        LET after == ProjStore(e.st) IN
        \A x \in DOMAIN after :
            after[x].d # NoD => \E i \in DOMAIN e.vol : e.vol[i].db = x[1] /\ e.vol[i].key = x[2]

TraceCmd ==
    /\ l <= Len(Trace) /\ Trace[l].ev = "cmd"
    /\ VolComplete(Trace[l])
    /\ LET e  == Trace[l]
           Ds == IF Matches(e, {}) THEN {{}} ELSE Explaining(e)
           mi == CheckMem /\ ~(e.r.t \in {"panic", "hang"}) /\ ~MemExactStep(e)     \* explained only by MemInPlace
       IN
       /\ Ds # {}
       /\ (e.r.t \in {"panic", "hang"} \/ MemStepOK(e, e.cmd[1].s \in InPlaceOps))
       /\ LET D == CHOOSE D \in Ds : \A D2 \in Ds : Cardinality(D) <= Cardinality(D2) IN
          /\ dev' = [n \in Deviations |-> dev[n] + (IF n \in D THEN 1 ELSE 0) + (IF mi /\ n = "MemInPlace" THEN 1 ELSE 0)]
          /\ IF \E n \in D \cup (IF mi THEN {"MemInPlace"} ELSE {}) : dev[n] = 0
             THEN PrintT(<<"DEVIATION", l, D \cup (IF mi THEN {"MemInPlace"} ELSE {}), e.cmd>>) ELSE TRUE
       /\ nskip' = IF Outcome(e, {}).rel = "skip" THEN nskip + 1 ELSE nskip
       /\ pmem' = IF e.r.t \in {"panic", "hang"} THEN pmem ELSE e.mem
       /\ st' = ProjStore(e.st)
    /\ l' = l + 1

\* one run of the background expiry sampler on database e.db: it may remove keys of that database
\* whose deadline has passed and nothing else, and it must not fail or kill the process
TraceSample ==
    /\ l <= Len(Trace) /\ Trace[l].ev = "sample"
    /\ LET e == Trace[l]   new == ProjStore(e.st) IN
       /\ ~("dead" \in DOMAIN e) /\ ~("err" \in DOMAIN e)
       /\ DOMAIN new \subseteq DOMAIN st
       /\ \A x \in DOMAIN new : new[x] = st[x]
       /\ \A x \in (DOMAIN st) \ (DOMAIN new) : x[1] = e.db /\ ~LiveEnt(st[x], e.now)
       /\ MemStepOK(e, FALSE)
       /\ st' = new /\ pmem' = e.mem
    /\ l' = l + 1 /\ UNCHANGED <<dev, nskip>>

\* the embedded caller selects another database: nothing in the dataset changes
TraceSelect ==
    /\ l <= Len(Trace) /\ Trace[l].ev = "select"
    /\ LET e == Trace[l] IN
       /\ ~("dead" \in DOMAIN e) /\ ~("err" \in DOMAIN e)
       /\ ProjStore(e.st) = st
       /\ st' = st
    /\ l' = l + 1 /\ UNCHANGED <<dev, nskip, pmem>>

\* diagnostics only: never enabled
TraceStuck ==
    /\ l <= Len(Trace) /\ Trace[l].ev = "cmd"
    /\ LET e == Trace[l] IN
       /\ ((~Matches(e, {}) /\ Explaining(e) = {}) \/ ~(e.r.t \in {"panic", "hang"} \/ MemStepOK(e, e.cmd[1].s \in InPlaceOps))
              \/ ~VolComplete(e))
       /\ (VolComplete(e) \/ PrintT(<<"MISMATCH-NOTE", "a key with a deadline is missing from the volatile-key index", e.vol>>))
       /\ PrintT(<<"MISMATCH-LINE", l>>)
       /\ PrintT(<<"MISMATCH-CMD", e.cmd>>)
       /\ PrintT(<<"MISMATCH-MODEL-REPLY", Outcome(e, {}).r>>)
       /\ PrintT(<<"MISMATCH-LOGGED-REPLY", e.r>>)
       /\ PrintT(<<"MISMATCH-MODEL-STATE", Norm(Outcome(e, {}).S, e.now)>>)
       /\ PrintT(<<"MISMATCH-LOGGED-STATE", Norm(ProjStore(e.st), e.now)>>)
       /\ (~CheckMem \/ PrintT(<<"MISMATCH-MEM", "figure before", pmem, "figure after", e.mem, "accounted size of the changed entries moved by",
                                  DeltaOf(st, ProjStore(e.st), Changed(st, ProjStore(e.st))), "MemOf(dataset after)", MemOf(ProjStore(e.st))>>))
    /\ FALSE
    /\ UNCHANGED vars

Next == TraceReset \/ TraceCmd \/ TraceSample \/ TraceSelect \/ TraceStuck

Spec == Init /\ [][Next]_vars

Report == (l = Len(Trace) + 1) => PrintT(<<"SUMMARY", Len(Trace), dev, nskip>>)

TraceAccepted == TLCGet("stats").diameter - 1 = Len(Trace)

=============================================================================
