----------------------------- MODULE Trace_Sugar -----------------------------
(***************************************************************************)
(* Trace validation (code -> spec) for the sequential command semantics.   *)
(* The trace is an ndjson file recorded by the harness from the real       *)
(* server: one line per command with its tagged arguments, the parsed      *)
(* reply, the virtual time and the projected state after the command.      *)
(* Each line must be explained by Exec, ideal semantics first, otherwise   *)
(* with a minimal set of the *open* implementation deviations (Deviations).*)
(* A line nothing explains disables every action: the trace is rejected    *)
(* and TLC's diameter is the number of the offending line.                 *)
(***************************************************************************)
EXTENDS Proj, Json, IOUtils, TLC

CONSTANT Deviations,       \* names of the deviations of open known findings
         CheckMem          \* TRUE: the logged memory figure must equal MemOf of the logged dataset (C19)

Trace == ndJsonDeserialize(IOEnv.TRACE)

VARIABLES l, st, dev, nskip
vars == <<l, st, dev, nskip>>

Outcome(e, D) == Exec([S |-> st, now |-> e.now, db |-> e.db, D |-> D], e.cmd, e.r)

Matches(e, D) ==
    LET o == Outcome(e, D) IN
    CASE o.rel = "eq"    -> ReplyEq(o.r, e.r) /\ Norm(o.S, e.now) = Norm(ProjStore(e.st), e.now)
      [] o.rel = "skip"  -> TRUE
      [] o.rel = "panic" -> e.r.t = "panic"
      [] OTHER           -> FALSE

Explaining(e) == {D \in SUBSET (RelevantDevs(e.cmd) \cap Deviations) : Matches(e, D)}

Init == l = 1 /\ st = EmptyStore /\ dev = [n \in Deviations |-> 0] /\ nskip = 0

\* C19: the reported figure is a function of the (physically stored) dataset
MemOK(e) == CheckMem => e.mem = MemOf(ProjStore(e.st))

TraceReset ==
    /\ l <= Len(Trace) /\ Trace[l].ev = "reset"
    /\ MemOK(Trace[l])
    /\ st' = ProjStore(Trace[l].st)
    /\ l' = l + 1 /\ UNCHANGED <<dev, nskip>>

TraceCmd ==
    /\ l <= Len(Trace) /\ Trace[l].ev = "cmd"
    /\ LET e == Trace[l] IN
       /\ IF Matches(e, {})
          THEN dev' = dev
          ELSE LET Ds == Explaining(e) IN
               /\ Ds # {}
               /\ LET D == CHOOSE D \in Ds : \A D2 \in Ds : Cardinality(D) <= Cardinality(D2) IN
                  /\ dev' = [n \in Deviations |-> IF n \in D THEN dev[n] + 1 ELSE dev[n]]
                  /\ IF \A n \in D : dev[n] > 0 THEN TRUE ELSE PrintT(<<"DEVIATION", l, D, e.cmd>>)
       /\ nskip' = IF Outcome(e, {}).rel = "skip" THEN nskip + 1 ELSE nskip
       /\ (e.r.t \in {"panic", "hang"} \/ MemOK(e))
       /\ st' = ProjStore(e.st)
    /\ l' = l + 1

\* one run of the background expiry sampler on database e.db: it may remove keys of that database
\* whose deadline has passed and nothing else, and it must not fail or kill the process
TraceSample ==
    /\ l <= Len(Trace) /\ Trace[l].ev = "sample"
    /\ LET e == Trace[l]   new == ProjStore(e.st) IN
       /\ ~("dead" \in DOMAIN e) /\ ~("err" \in DOMAIN e)
       /\ DOMAIN new \subseteq DOMAIN st
       /\ \A x \in DOMAIN new : new[x] = st[x]
       /\ \A x \in (DOMAIN st) \ (DOMAIN new) : x[1] = e.db /\ ~LiveEnt(st[x], e.now)
       /\ MemOK(e)
       /\ st' = new
    /\ l' = l + 1 /\ UNCHANGED <<dev, nskip>>

\* the embedded caller selects another database: nothing in the dataset changes
TraceSelect ==
    /\ l <= Len(Trace) /\ Trace[l].ev = "select"
    /\ LET e == Trace[l] IN
       /\ ~("dead" \in DOMAIN e) /\ ~("err" \in DOMAIN e)
       /\ ProjStore(e.st) = st
       /\ st' = st
    /\ l' = l + 1 /\ UNCHANGED <<dev, nskip>>

\* diagnostics only: never enabled
TraceStuck ==
    /\ l <= Len(Trace) /\ Trace[l].ev = "cmd"
    /\ LET e == Trace[l] IN
       /\ ((~Matches(e, {}) /\ Explaining(e) = {}) \/ ~(e.r.t \in {"panic", "hang"} \/ MemOK(e)))
       /\ PrintT(<<"MISMATCH-LINE", l>>)
       /\ PrintT(<<"MISMATCH-CMD", e.cmd>>)
       /\ PrintT(<<"MISMATCH-MODEL-REPLY", Outcome(e, {}).r>>)
       /\ PrintT(<<"MISMATCH-LOGGED-REPLY", e.r>>)
       /\ PrintT(<<"MISMATCH-MODEL-STATE", Norm(Outcome(e, {}).S, e.now)>>)
       /\ PrintT(<<"MISMATCH-LOGGED-STATE", Norm(ProjStore(e.st), e.now)>>)
       /\ (~CheckMem \/ PrintT(<<"MISMATCH-MEM", "logged", e.mem, "MemOf(logged dataset)", MemOf(ProjStore(e.st))>>))
    /\ FALSE
    /\ UNCHANGED vars

Next == TraceReset \/ TraceCmd \/ TraceSample \/ TraceSelect \/ TraceStuck

Spec == Init /\ [][Next]_vars

Report == (l = Len(Trace) + 1) => PrintT(<<"SUMMARY", Len(Trace), dev, nskip>>)

TraceAccepted == TLCGet("stats").diameter - 1 = Len(Trace)

=============================================================================
