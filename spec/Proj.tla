-------------------------------- MODULE Proj --------------------------------
(***************************************************************************)
(* From the harness's JSON projection of the server state (abs.go) to the  *)
(* abstract store of Store.tla.  Shared by all trace specifications.       *)
(***************************************************************************)
EXTENDS Exec

RECURSIVE ProjVal(_)
ProjVal(j) ==
    CASE j.k = "str"  -> VStr(j.b)
      [] j.k = "int"  -> IF "big" \in DOMAIN j THEN j ELSE VInt(j.n)
      [] j.k = "flt"  -> IF "nonquarter" \in DOMAIN j THEN j ELSE [k |-> "flt", q |-> j.q, inf |-> j.inf]
      [] j.k = "list" -> VList(j.l)
      [] j.k = "hash" -> VHash([f \in {p.f : p \in Range(j.h)} |->
                                   ProjVal((CHOOSE p \in Range(j.h) : p.f = f).v)])
      \* a set whose cached cardinality disagrees with its members is corrupt: it is no value of the model
      [] j.k = "set"  -> IF j.card = Cardinality(Range(j.s)) THEN VSet(Range(j.s))
                         ELSE [k |-> "corrupt-set", card |-> j.card, members |-> Range(j.s)]
      [] j.k = "zset" -> VZSet([m \in {p.m : p \in Range(j.z)} |->
                                   LET p == CHOOSE p \in Range(j.z) : p.m = m IN
                                   IF "nonquarter" \in DOMAIN p THEN [q |-> p.q, inf |-> p.inf, nonquarter |-> p.nonquarter]
                                   ELSE [q |-> p.q, inf |-> p.inf]])
      [] OTHER        -> j

ProjStore(js) ==
    [x \in {<<e.db, e.key>> : e \in Range(js)} |->
        LET e == CHOOSE e \in Range(js) : e.db = x[1] /\ e.key = x[2] IN Ent(ProjVal(e.v), e.d)]


(***************************************************************************)
(* What the JSON checkpoint formats (preamble, snapshot) do to a value.    *)
(***************************************************************************)
\* encoding/json writes a byte that is not valid UTF-8 as U+FFFD (the drivers' only such byte is 255)
RECURSIVE JBytes(_)
JBytes(b) == IF b = <<>> THEN <<>>
             ELSE (IF Head(b) = 255 THEN <<239, 191, 189>> ELSE <<Head(b)>>) \o JBytes(Tail(b))

RECURSIVE JVal(_)
JVal(v) == CASE v.k = "int"  -> VFlt(4 * v.n)
             [] v.k = "str"  -> VStr(JBytes(v.b))
             [] v.k = "hash" -> VHash([f \in {JBytes(g) : g \in DOMAIN v.h} |->
                                         JVal(v.h[CHOOSE g \in DOMAIN v.h : JBytes(g) = f])])
             [] v.k = "list" -> [k |-> "other", go |-> "[]interface {}"]
             [] v.k \in {"set", "zset"} -> VHash(<<>>)
             [] OTHER        -> v


\* the commands that can change the dataset (logged by the AOF writer, replicated in a cluster)
WriteOps == {"SET", "MSET", "DEL", "PERSIST", "EXPIRE", "PEXPIRE", "EXPIREAT", "PEXPIREAT", "INCR", "DECR", "INCRBY",
             "DECRBY", "INCRBYFLOAT", "RENAME", "FLUSHDB", "FLUSHALL", "GETDEL", "GETEX", "APPEND", "SETRANGE",
             "HSET", "HSETNX", "HDEL", "HINCRBY", "HINCRBYFLOAT", "LPUSH", "LPUSHX", "RPUSH", "RPUSHX", "LPOP", "RPOP",
             "LSET", "LTRIM", "LREM", "LMOVE", "SADD", "SREM", "SMOVE", "SPOP", "SDIFFSTORE", "SINTERSTORE",
             "SUNIONSTORE", "ZADD", "ZINCRBY", "ZREM", "ZPOPMIN", "ZPOPMAX", "ZMPOP", "ZREMRANGEBYSCORE",
             "ZREMRANGEBYRANK", "ZREMRANGEBYLEX", "ZDIFFSTORE", "ZINTERSTORE", "ZUNIONSTORE", "ZRANGESTORE"}

=============================================================================
