-------------------------------- MODULE Proj --------------------------------
(***************************************************************************)
(* From the harness's JSON projection of the server state (abs.go) to the  *)
(* abstract store of Store.tla.  Shared by all trace specifications.       *)
(***************************************************************************)
EXTENDS Exec

RECURSIVE ProjVal(_)
ProjVal(j) ==
    CASE j.k = "str"  -> VStr(j.b)
      [] j.k = "int"  -> IF "big" \in DOMAIN j THEN j ELSE VInt(j.n)
      [] j.k = "flt"  -> IF "nonquarter" \in DOMAIN j THEN j ELSE [k |-> "flt", q |-> j.q, inf |-> j.inf]
      [] j.k = "list" -> VList(j.l)
      [] j.k = "hash" -> VHash([f \in {p.f : p \in Range(j.h)} |->
                                   ProjVal((CHOOSE p \in Range(j.h) : p.f = f).v)])
      [] j.k = "set"  -> IF j.card = Cardinality(Range(j.s)) THEN VSet(Range(j.s)) ELSE j
      [] j.k = "zset" -> VZSet([m \in {p.m : p \in Range(j.z)} |->
                                   LET p == CHOOSE p \in Range(j.z) : p.m = m IN
                                   IF "nonquarter" \in DOMAIN p THEN [q |-> p.q, inf |-> p.inf, nonquarter |-> p.nonquarter]
                                   ELSE [q |-> p.q, inf |-> p.inf]])
      [] OTHER        -> j

ProjStore(js) ==
    [x \in {<<e.db, e.key>> : e \in Range(js)} |->
        LET e == CHOOSE e \in Range(js) : e.db = x[1] /\ e.key = x[2] IN Ent(ProjVal(e.v), e.d)]

=============================================================================
