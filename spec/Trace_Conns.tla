----------------------------- MODULE Trace_Conns -----------------------------
(***************************************************************************)
(* C20, the connection part: SELECT affects only the issuing connection,   *)
(* every command acts on the database its connection selected, and SWAPDB  *)
(* exchanges two databases as seen by every client.  Histories on three    *)
(* connections served by the real connection handler (net.Pipe): SELECT,   *)
(* SWAPDB, data commands, FLUSHDB/FLUSHALL and reconnects; after every     *)
(* step the whole dataset (all databases) is recorded.                     *)
(*                                                                         *)
(* Model: the store of Store.tla plus sel[c], the database connection c    *)
(* has selected (a new connection starts on "0").  Data commands are Exec  *)
(* with db = sel[c].  SWAPDB a b exchanges the contents of the two         *)
(* databases (XSwapDb).  Open finding SwapDbConnsOnly: the code instead    *)
(* renumbers the connections that are on a or b at that moment and leaves  *)
(* the data in place - the same for those connections until one of them    *)
(* SELECTs again or a new connection arrives, different for everybody else.*)
(***************************************************************************)
EXTENDS Proj, Json, IOUtils, TLC

CONSTANT Deviations

Trace == ndJsonDeserialize(IOEnv.TRACE)

VARIABLES l, st, sel, dev, nskip
vars == <<l, st, sel, dev, nskip>>

Ev == Trace[l]
HasDev(n) == n \in Deviations

Init == l = 1 /\ st = EmptyStore /\ sel = <<>> /\ dev = [n \in Deviations |-> 0] /\ nskip = 0

TReset == /\ l <= Len(Trace) /\ Ev.ev = "reset"
          /\ st' = EmptyStore /\ sel' = [c \in {Ev.conns[i] : i \in DOMAIN Ev.conns} |-> "0"]
          /\ l' = l + 1 /\ UNCHANGED <<dev, nskip>>

TNewConn == /\ l <= Len(Trace) /\ Ev.ev = "newconn"
            /\ ProjStore(Ev.st) = st
            /\ sel' = [sel EXCEPT ![Ev.c] = "0"] /\ st' = st
            /\ l' = l + 1 /\ UNCHANGED <<dev, nskip>>

Bump(n) == dev' = [x \in DOMAIN dev |-> IF x = n THEN dev[x] + 1 ELSE dev[x]]

\* SELECT n: a non-negative integer index; only the issuing connection moves
TSelect ==
    /\ l <= Len(Trace) /\ Ev.ev = "ccmd" /\ Ev.kind = "select"
    /\ LET e == Ev   a == e.cmd
           ok == Len(a) = 2 /\ IsIntT(a[2]) /\ a[2].i >= 0 IN
       /\ ProjStore(e.st) = st
       /\ IF ok THEN e.r.t \in {"simple", "ok"} /\ sel' = [sel EXCEPT ![e.c] = DbName(a[2].i)]
          ELSE e.r.t = "err" /\ sel' = sel
    /\ st' = st /\ l' = l + 1 /\ UNCHANGED <<dev, nskip>>

TSwap ==
    /\ l <= Len(Trace) /\ Ev.ev = "ccmd" /\ Ev.kind = "swap"
    /\ LET e == Ev   a == e.cmd
           ok == Len(a) = 3 /\ IsIntT(a[2]) /\ IsIntT(a[3]) /\ a[2].i >= 0 /\ a[3].i >= 0
           ideal == XSwapDb([S |-> st, now |-> e.now, db |-> sel[e.c], D |-> {}], a)
           after == ProjStore(e.st) IN
       IF ~ok THEN e.r.t = "err" /\ after = st /\ st' = st /\ sel' = sel /\ dev' = dev
       ELSE /\ e.r.t \in {"simple", "ok"}
            /\ \/ /\ after = ideal.S /\ st' = after /\ sel' = sel /\ dev' = dev
               \/ /\ HasDev("SwapDbConnsOnly") /\ after = st /\ a[2].i # a[3].i
                  /\ LET d1 == DbName(a[2].i)   d2 == DbName(a[3].i) IN
                     sel' = [c \in DOMAIN sel |-> IF sel[c] = d1 THEN d2 ELSE IF sel[c] = d2 THEN d1 ELSE sel[c]]
                  /\ st' = st /\ Bump("SwapDbConnsOnly")
                  /\ (dev["SwapDbConnsOnly"] = 0 => PrintT(<<"DEVIATION", l, {"SwapDbConnsOnly"}, a>>))
    /\ l' = l + 1 /\ UNCHANGED nskip

Outcome(e, D) == Exec([S |-> st, now |-> e.now, db |-> sel[e.c], D |-> D], e.cmd, e.r)
Matches(e, D) ==
    LET o == Outcome(e, D) IN
    CASE o.rel = "eq"   -> ReplyEq(o.r, e.r) /\ Norm(o.S, e.now) = Norm(ProjStore(e.st), e.now)
      [] o.rel = "skip" -> TRUE
      [] OTHER          -> FALSE
Explaining(e) == IF Matches(e, {}) THEN {{}}
                 ELSE {D \in SUBSET (RelevantDevs(e.cmd) \cap Deviations) : Matches(e, D)}

TData ==
    /\ l <= Len(Trace) /\ Ev.ev = "ccmd" /\ Ev.kind = "data"
    /\ LET e == Ev   Ds == Explaining(e) IN
       /\ Ds # {}
       /\ LET D == CHOOSE D \in Ds : \A D2 \in Ds : Cardinality(D) <= Cardinality(D2) IN
          /\ dev' = [n \in DOMAIN dev |-> dev[n] + (IF n \in D THEN 1 ELSE 0)]
          /\ IF \E n \in D : dev[n] = 0 THEN PrintT(<<"DEVIATION", l, D, e.cmd>>) ELSE TRUE
       /\ nskip' = IF Outcome(e, {}).rel = "skip" THEN nskip + 1 ELSE nskip
       /\ st' = ProjStore(e.st) /\ sel' = sel
    /\ l' = l + 1

DiagLine == IF "DIAG" \in DOMAIN IOEnv THEN atoi(IOEnv.DIAG) ELSE 0
TStuck == /\ l <= Len(Trace) /\ l = DiagLine
          /\ PrintT(<<"MISMATCH-LINE", l>>)
          /\ PrintT(<<"MISMATCH-NOTE", "event", Ev.ev, "selected database per connection in the model", sel>>)
          /\ IF Ev.ev = "ccmd" THEN
                /\ PrintT(<<"MISMATCH-CMD", Ev.cmd, "connection", Ev.c, "kind", Ev.kind>>)
                /\ PrintT(<<"MISMATCH-LOGGED-REPLY", Ev.r>>)
                /\ (Ev.kind # "data" \/ PrintT(<<"MISMATCH-MODEL-REPLY", Outcome(Ev, {}).r>>))
                /\ (Ev.kind # "data" \/ PrintT(<<"MISMATCH-MODEL-STATE", Norm(Outcome(Ev, {}).S, Ev.now)>>))
                /\ PrintT(<<"MISMATCH-LOGGED-STATE", Norm(ProjStore(Ev.st), Ev.now)>>)
             ELSE TRUE
          /\ FALSE /\ UNCHANGED vars

Next == TReset \/ TNewConn \/ TSelect \/ TSwap \/ TData \/ TStuck
Spec == Init /\ [][Next]_vars
Report == (l = Len(Trace) + 1) => PrintT(<<"SUMMARY", Len(Trace), dev, nskip>>)
TraceAccepted == TLCGet("stats").diameter - 1 = Len(Trace)
=============================================================================
