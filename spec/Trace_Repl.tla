----------------------------- MODULE Trace_Repl -----------------------------
(***************************************************************************)
(* Trace validation (code -> spec) for C07.  The trace is recorded from a  *)
(* real raft cluster of in-process SugarDB nodes on loopback: one line per *)
(* client command (entry node, the role the code gave it, reply, every     *)
(* node's clock, the number of log entries every node's state machine      *)
(* applied, every node's dataset after replication quiesced), plus lines   *)
(* for the leader's expiry sampler, a fresh node joining, a leadership     *)
(* transfer, a node stopping and a state-machine snapshot installed on a   *)
(* fresh node.                                                             *)
(*                                                                         *)
(* Every line is explained by composing the step operators of Repl.tla     *)
(* (Submit, Deliver, ApplyOne, Ack, Expire, Join, Stop, Transfer, Install) *)
(* with ApplyCmd = Exec, the command semantics shared with the sequential  *)
(* checks:                                                                 *)
(*   conformance  the role equals Repl!Role; every node applied exactly    *)
(*                the entries the model appended; every node's dataset is  *)
(*                ApplyOne of its previous dataset under ITS clock and ITS *)
(*                random choice; the leader's reply is the model's reply   *)
(*   property     after every line all nodes hold the same dataset in      *)
(*                every database.  Keys on which they may differ are only  *)
(*                those a command touched whose effect depends on the      *)
(*                applying node - open findings ReplRandomPop (SPOP is     *)
(*                logged as issued, every node pops its own members) and   *)
(*                ReplApplyClock (relative expiries are resolved at apply  *)
(*                time on each node's clock) - and what later commands     *)
(*                derive from such keys.  Any other difference rejects the *)
(*                line.  With the findings closed (Deviations without      *)
(*                them) every difference rejects.                          *)
(***************************************************************************)
EXTENDS Proj, Json, IOUtils, TLC, SequencesExt

CONSTANT Deviations

Trace == ndJsonDeserialize(IOEnv.TRACE)

Node == {"N0", "N1", "N2", "N3"}
NoNode == ""
EmptyData == EmptyStore

\* an entry's cmd is [a |-> tokens, D |-> the code deviations in force]; a delete-key entry's cmd is the key
ApplyCmd(d, e, now, g) ==
    IF e.del THEN [x \in (DOMAIN d) \ {<<e.db, e.cmd>>} |-> d[x]]
    ELSE LET o == Exec([S |-> d, now |-> now, db |-> e.db, D |-> e.cmd.D], e.cmd.a, g) IN
         IF o.rel = "eq" THEN o.S ELSE d

RelTimeOps == {"SET", "EXPIRE", "PEXPIRE", "GETEX", "SETEX", "PSETEX"}
\* an absolute deadline is the same on every node that applies the entry now, but a node that joins later replays
\* the entry when that instant may have passed
AbsTimeOps == {"EXPIREAT", "PEXPIREAT"}
Stable(e) == e.del \/ ~(e.cmd.a[1].s \in RelTimeOps \cup {"SPOP"})

Rp == INSTANCE Repl

VARIABLES l, R, hot, dev, nskip
\* hot: keys whose content may legitimately depend on the node that applied the log (see above)
vars == <<l, R, hot, dev, nskip>>

HasDev(n) == n \in Deviations
ReplDevs == {"ReplRandomPop", "ReplApplyClock", "PersistJSONTypes"}

Ev == Trace[l]
Members(e) == {e.nodes[i] : i \in 1..Len(e.nodes)}
Obs(e) == [n \in Members(e) |-> ProjStore(e.st[n])]

\* keys (of all databases) on which the given datasets are not identical
DiffKeys(ds) ==
    {x \in UNION {DOMAIN ds[n] : n \in DOMAIN ds} :
        \E a, b \in DOMAIN ds : ~(x \in DOMAIN ds[a] /\ x \in DOMAIN ds[b] /\ ds[a][x] = ds[b][x])}

Named(e) == {<<e.db, e.cmd[i].s>> : i \in {j \in 2..Len(e.cmd) : IsSym(e.cmd[j])}}

Skewed(e) == \E a, b \in Members(e) : e.now[a] # e.now[b]

HasDeadline(x) == \E n \in R.members : x \in DOMAIN R.data[n] /\ R.data[n][x].d # NoD

\* may the outcome of this command differ from node to node?
Sensitive(e) ==
    \/ HasDev("ReplRandomPop") /\ e.cmd[1].s = "SPOP"
    \/ HasDev("ReplApplyClock") /\ (e.cmd[1].s \in RelTimeOps \cup AbsTimeOps \/ \E x \in Named(e) : HasDeadline(x))
    \/ Named(e) \cap hot # {}

\* ... and is it different right now (divergence needs different clocks; a later joiner replays at another time anyway)
Divergent(e) ==
    \/ HasDev("ReplRandomPop") /\ e.cmd[1].s = "SPOP"
    \/ HasDev("ReplApplyClock") /\ Skewed(e) /\ (e.cmd[1].s \in RelTimeOps \/ \E x \in Named(e) : HasDeadline(x))
    \/ Named(e) \cap DiffKeys([n \in R.members |-> R.data[n]]) # {}

HotAfter(e) ==
    LET h == IF Sensitive(e) THEN hot \cup Named(e) ELSE hot IN
    CASE e.cmd[1].s = "FLUSHALL" /\ e.r.t # "err" -> {}
      [] e.cmd[1].s = "FLUSHDB" /\ e.r.t # "err"  -> {x \in h : x[1] # e.db}
      [] OTHER -> h

\* C07, the property: identical datasets in every database, except where an open finding explains it
AgreeOK(e, allowed) == DiffKeys(Obs(e)) \subseteq allowed

Clocked(e) == [R EXCEPT !.clock = [n \in Node |-> IF n \in Members(e) THEN e.now[n] ELSE @[n]]]

Adopt(R2, e) == [R2 EXCEPT !.data = [n \in Node |-> IF n \in Members(e) THEN Obs(e)[n] ELSE @[n]]]

Unchanged(e) == \A n \in Members(e) : Obs(e)[n] = R.data[n]
NoApplies(e) == \A n \in Members(e) : e.napp[n] = 0 /\ e.ndel[n] = 0
Healthy(e) == ~("hang" \in DOMAIN e) /\ ~("stuck" \in DOMAIN e) /\ ~("err" \in DOMAIN e)

RECURSIVE ApplyAll(_, _, _)
ApplyAll(R2, ns, g) ==     \* every node in the sequence ns applies the next entry, with its own choice g[n]
    IF ns = <<>> THEN R2 ELSE ApplyAll(Rp!ApplyOne(R2, Head(ns), g[Head(ns)]), Tail(ns), g)

\* after the deletion of the expired keys X went through the log: every node dropped them and nothing else
\* changed - except that a node on which such a key already differed (open finding ReplApplyClock: another
\* deadline there) keeps its entry, because the deletion names the deadline it is for
PrevDiff == DiffKeys([n \in R.members |-> R.data[n]])
DeletedOK(e, X) ==
    \A n \in Members(e) : \A x \in (DOMAIN R.data[n]) \cup (DOMAIN Obs(e)[n]) :
        IF x \in X /\ ~(x \in DOMAIN Obs(e)[n]) THEN TRUE
        ELSE /\ x \in DOMAIN R.data[n] /\ x \in DOMAIN Obs(e)[n] /\ Obs(e)[n][x] = R.data[n][x]
             /\ x \in X => x \in PrevDiff

\* the keys X are deleted through the log: one delete-key entry each, applied by every node
Expired(R0, X, e) ==
    LET xs == SetToSeq(X)
        F[i \in 0..Len(xs)] ==
            IF i = 0 THEN R0
            ELSE ApplyAll(Rp!Expire(F[i - 1], xs[i][1], xs[i][2]), e.nodes, [n \in Members(e) |-> RNil])
    IN F[Len(xs)]

----------------------------------------------------------------------------
Init == /\ l = 1 /\ hot = {} /\ dev = [n \in Deviations \cup ReplDevs |-> 0] /\ nskip = 0
        /\ R = Rp!InitR("N0", [n \in Node |-> FALSE])

\* a program starts: FLUSHALL and a preset went through the leader (not judged); the model starts
\* from what the nodes hold
TraceReset ==
    /\ l <= Len(Trace) /\ Ev.ev = "reset"
    /\ LET e == Ev IN
       /\ Healthy(e)
       /\ AgreeOK(e, IF HasDev("ReplApplyClock") /\ Skewed(e) THEN DiffKeys(Obs(e)) ELSE {})
       /\ R' = [Rp!InitR(e.lead, [n \in Node |-> IF n \in Members(e) THEN e.fwd[n] ELSE FALSE])
                   EXCEPT !.members = Members(e),
                          !.data = [n \in Node |-> IF n \in Members(e) THEN Obs(e)[n] ELSE EmptyStore],
                          !.clock = [n \in Node |-> IF n \in Members(e) THEN e.now[n] ELSE 0]]
       \* keys the (unjudged) preset gave a deadline are time-sensitive for a node that replays the log later
       /\ hot' = DiffKeys(Obs(e)) \cup
                 (IF HasDev("ReplApplyClock")
                  THEN UNION {{x \in DOMAIN Obs(e)[n] : Obs(e)[n][x].d # NoD} : n \in Members(e)} ELSE {})
    /\ l' = l + 1 /\ UNCHANGED <<dev, nskip>>

\* what node n's state machine (or, for a local command, its handler) makes of the command
NodeOutcome(e, n, D) == Exec([S |-> R.data[n], now |-> e.now[n], db |-> e.db, D |-> D], e.cmd, e.g[n])

NodeMatches(e, n, D, withReply) ==
    LET o == NodeOutcome(e, n, D) IN
    CASE o.rel = "eq"   -> (withReply => ReplyEq(o.r, e.r)) /\ Norm(o.S, e.now[n]) = Norm(Obs(e)[n], e.now[n])
      [] o.rel = "skip" -> TRUE
      [] OTHER          -> FALSE

\* Open finding ReplApplyClock, with clocks that differ: a key that is past its deadline on ONE node's clock is
\* deleted through the log by that node (it comes across the expired entry while applying), also on nodes where
\* it is still live.  Keys that may vanish this way during a step:
ExpiredSomewhere(e, n, D) ==
    LET o == NodeOutcome(e, n, D) IN
    {x \in (DOMAIN R.data[n]) \cup (DOMAIN o.S) :
        \E m \in Members(e) :
            \/ x \in DOMAIN R.data[m] /\ ~LiveEnt(R.data[m][x], e.now[m])
            \/ x \in DOMAIN o.S /\ ~LiveEnt(o.S[x], e.now[m])}

NodeMatchesLoose(e, n, D, withReply) ==
    LET o   == NodeOutcome(e, n, D)
        exp == Norm(o.S, e.now[n])
        got == Norm(Obs(e)[n], e.now[n]) IN
    CASE o.rel = "eq"   -> /\ withReply => ReplyEq(o.r, e.r)
                           /\ DOMAIN got \subseteq DOMAIN exp
                           /\ \A x \in DOMAIN got : got[x] = exp[x]
                           /\ (DOMAIN exp) \ (DOMAIN got) \subseteq ExpiredSomewhere(e, n, D)
      [] o.rel = "skip" -> TRUE
      [] OTHER          -> FALSE

Skipped(e) == NodeOutcome(e, e.node, {}).rel = "skip"

\* the deviation sets (of open sequential findings) under which every node's outcome is explained
AllMatch(e, ns, D, replyNode) ==
    \A n \in ns : \/ NodeMatches(e, n, D, n = replyNode)
                  \/ /\ HasDev("ReplApplyClock") /\ Skewed(e) /\ e.ndel[n] > 0
                     /\ NodeMatchesLoose(e, n, D, n = replyNode)
Explaining(e, ns, replyNode) ==
    IF AllMatch(e, ns, {}, replyNode) THEN {{}}
    ELSE {D \in SUBSET (RelevantDevs(e.cmd) \cap Deviations) : AllMatch(e, ns, D, replyNode)}

MinOf(Ds) == CHOOSE D \in Ds : \A D2 \in Ds : Cardinality(D) <= Cardinality(D2)

\* a command that can change the dataset must take the replicated path, in the role Repl gives the entry node
RoleOK(e) == e.cmd[1].s \in WriteOps => e.role = Rp!Role(R, e.node)

\* the composed model step for a replicated command that reached the log
Replicated(e, D) ==
    LET R1 == Clocked(e)
        c  == [a |-> e.cmd, D |-> D]
        R2 == Rp!Submit(R1, e.node, e.db, c)
        R3 == IF e.role = "forward" THEN Rp!Deliver(R2, CHOOSE x \in R2.pend : x.id = R1.nid) ELSE R2
        R4 == ApplyAll(R3, e.nodes, e.g)
    IN IF e.role = "leader" THEN Rp!Ack(R4, Len(R4.log)) ELSE R4

NewDivergence(e) == DiffKeys(Obs(e)) \ DiffKeys([n \in R.members |-> R.data[n]]) # {}

TraceCmd ==
    /\ l <= Len(Trace) /\ Ev.ev = "cmd"
    /\ LET e == Ev IN
       /\ Healthy(e) /\ ~e.lost
       /\ Members(e) = R.members /\ e.lead = R.leader
       /\ RoleOK(e)
       /\ CASE e.role = "local" ->
                  \* executed by the entry node alone: it must not change any dataset - except that reading
                  \* keys past their deadline (on the entry node's clock) replicates their deletion
                  LET X  == (DOMAIN R.data[e.node]) \ (DOMAIN Obs(e)[e.node])
                      R2 == Expired(Clocked(e), X, e) IN
                  /\ \A x \in X : x[1] = e.db /\ ~LiveEnt(R.data[e.node][x], e.now[e.node])
                  /\ \A n \in Members(e) : e.napp[n] = 0 /\ e.ndel[n] >= Cardinality(X) /\ (e.ndel[n] > 0 => X # {})
                  /\ DeletedOK(e, X)
                  /\ Explaining(e, {e.node}, e.node) # {}
                  /\ R' = Adopt(R2, e)
                  /\ hot' = hot /\ dev' = dev
            [] e.role = "reject" ->
                  /\ e.r.t = "err" /\ NoApplies(e) /\ Unchanged(e)
                  /\ R' = Rp!Submit(Clocked(e), e.node, e.db, [a |-> e.cmd, D |-> {}])
                  /\ hot' = hot /\ dev' = dev
            [] e.role \in {"leader", "forward"} /\ (\A n \in Members(e) : e.napp[n] = 0) ->
                  \* refused before it reached the log
                  /\ e.r.t = "err" /\ NoApplies(e) /\ Unchanged(e)
                  /\ R' = Clocked(e) /\ hot' = hot /\ dev' = dev
            [] OTHER ->
                  \* (deletions of expired keys the handler came across ride along: they are invisible under Norm)
                  /\ \A n \in Members(e) : e.napp[n] = 1 /\ e.ndel[n] = e.ndel[e.node]
                  /\ e.role = "forward" => e.r.t \in {"simple", "ok"}
                  /\ LET Ds == Explaining(e, Members(e), IF e.role = "leader" THEN e.node ELSE NoNode) IN
                     /\ Ds # {}
                     /\ LET D  == MinOf(Ds)
                            R5 == Replicated(e, D)
                            nd == IF e.cmd[1].s = "SPOP" THEN "ReplRandomPop" ELSE "ReplApplyClock"
                            newdiv == NewDivergence(e) /\ nd \in Deviations
                        IN
                        /\ Rp!ReadYourWrites(R5) /\ Rp!Handed(R5) /\ Rp!OnlyByLog(Clocked(e), R5) /\ Rp!AppendOnly(R, R5)
                        /\ AgreeOK(e, DiffKeys([n \in R.members |-> R.data[n]]) \cup (IF Divergent(e) THEN Named(e) ELSE {}))
                        /\ R' = Adopt(R5, e)
                        /\ hot' = HotAfter(e)
                        /\ dev' = [n \in DOMAIN dev |-> dev[n] + (IF n \in D THEN 1 ELSE 0) + (IF newdiv /\ n = nd THEN 1 ELSE 0)]
                        /\ IF \E n \in D : dev[n] = 0 THEN PrintT(<<"DEVIATION", l, D, e.cmd>>) ELSE TRUE
                        /\ IF newdiv /\ dev[nd] = 0 THEN PrintT(<<"DEVIATION", l, {nd}, e.cmd>>) ELSE TRUE
       /\ nskip' = IF Skipped(e) THEN nskip + 1 ELSE nskip
    /\ l' = l + 1

\* the same non-idempotent write sent e.times times back to back through a forwarding follower: every
\* acknowledged copy reaches the log once (Handed) and every node applies them all
RECURSIVE Forwarded(_, _, _)
Forwarded(R0, e, k) ==
    IF k = 0 THEN R0
    ELSE LET R2 == Rp!Submit(R0, e.node, e.db, [a |-> e.cmd, D |-> {}])
             R3 == Rp!Deliver(R2, CHOOSE x \in R2.pend : x.id = R0.nid)
         IN Forwarded(ApplyAll(R3, e.nodes, [n \in Members(e) |-> RNil]), e, k - 1)

TraceBurst ==
    /\ l <= Len(Trace) /\ Ev.ev = "burst"
    /\ LET e  == Ev
           R5 == Forwarded(Clocked(e), e, e.times) IN
       /\ Healthy(e) /\ ~e.lost /\ Members(e) = R.members /\ e.lead = R.leader
       /\ Rp!Role(R, e.node) = "forward" /\ e.oks = e.times
       /\ \A n \in Members(e) : e.napp[n] = e.times
       /\ \A n \in Members(e) : Norm(R5.data[n], e.now[n]) = Norm(Obs(e)[n], e.now[n])
       /\ Rp!Handed(R5) /\ Rp!AppendOnly(R, R5)
       /\ AgreeOK(e, PrevDiff \cup (IF Named(e) \cap PrevDiff # {} THEN Named(e) ELSE {}))
       /\ R' = Adopt(R5, e)
    /\ l' = l + 1 /\ UNCHANGED <<hot, dev, nskip>>

\* the leader's expiry sampler: every key it removes was past its deadline on the leader's clock, the
\* removal is a delete-key entry that every node applies
TraceSample ==
    /\ l <= Len(Trace) /\ Ev.ev = "sample"
    /\ LET e    == Ev
           lead == R.leader
           X    == (DOMAIN R.data[lead]) \ (DOMAIN Obs(e)[lead])
           R2   == Expired(Clocked(e), X, e)
       IN
       /\ Healthy(e) /\ Members(e) = R.members /\ e.node = lead /\ e.lead = lead
       /\ \A x \in X : x[1] = e.db /\ ~LiveEnt(R.data[lead][x], e.now[lead])
       /\ \A n \in Members(e) : e.ndel[n] = Cardinality(X) /\ e.napp[n] = 0
       /\ DeletedOK(e, X)
       /\ AgreeOK(e, DiffKeys([n \in R.members |-> R.data[n]]))
       /\ R' = Adopt(R2, e)
    /\ l' = l + 1 /\ UNCHANGED <<hot, dev, nskip>>

\* a fresh node joins and replays the log: it ends up with what the others hold (outside hot keys)
TraceJoin ==
    /\ l <= Len(Trace) /\ Ev.ev = "join"
    /\ LET e  == Ev
           R2 == Rp!Install(Rp!Join(Clocked(e), e.id), e.id, R.leader)
       IN
       /\ Healthy(e) /\ Members(e) = R.members \cup {e.id} /\ ~(e.id \in R.members)
       /\ \A n \in R.members : Obs(e)[n] = R.data[n]
       /\ \A x \in (DOMAIN Obs(e)[e.id]) \cup (DOMAIN R2.data[e.id]) :
              x \in hot \/ (x \in DOMAIN Obs(e)[e.id] /\ x \in DOMAIN R2.data[e.id] /\ Obs(e)[e.id][x] = R2.data[e.id][x])
       /\ R' = Adopt(R2, e)
       /\ LET nd == "ReplApplyClock"
              div == DiffKeys(Obs(e)) \ DiffKeys([n \in R.members |-> R.data[n]]) # {} IN
          dev' = [n \in DOMAIN dev |-> dev[n] + (IF div /\ n = nd THEN 1 ELSE 0)]
    /\ l' = l + 1 /\ UNCHANGED <<hot, nskip>>

TraceTransfer ==
    /\ l <= Len(Trace) /\ Ev.ev = "transfer"
    /\ LET e == Ev IN
       /\ Healthy(e) /\ Members(e) = R.members /\ e.from = R.leader
       /\ Rp!CanTransfer(R, e.lead)
       /\ Unchanged(e)
       /\ R' = Rp!Transfer(Clocked(e), e.lead)
    /\ l' = l + 1 /\ UNCHANGED <<hot, dev, nskip>>

TraceStop ==
    /\ l <= Len(Trace) /\ Ev.ev = "stop"
    /\ LET e == Ev IN
       /\ Healthy(e) /\ Members(e) = R.members \ {e.id} /\ e.lead = R.leader /\ e.id # R.leader
       /\ Unchanged(e)
       /\ R' = Rp!Stop(R, e.id)
    /\ l' = l + 1 /\ UNCHANGED <<hot, dev, nskip>>

\* FSM.Snapshot + Persist on the leader, FSM.Restore on a fresh node: the same dataset (Install)
Restored(src, lossy) == [x \in DOMAIN src |-> Ent(IF lossy THEN JVal(src[x].v) ELSE src[x].v, src[x].d)]
TraceRestore ==
    /\ l <= Len(Trace) /\ Ev.ev = "restore"
    /\ LET e == Ev   src == ProjStore(e.src_st)   got == ProjStore(e.st) IN
       /\ Healthy(e)
       /\ src = R.data[e.src]
       /\ \/ ~e.died /\ Norm(got, e.now) = Norm(Restored(src, FALSE), e.now) /\ dev' = dev
          \/ /\ HasDev("PersistJSONTypes")
             /\ \/ ~e.died /\ Norm(got, e.now) # Norm(Restored(src, FALSE), e.now)
                   /\ Norm(got, e.now) = Norm(Restored(src, TRUE), e.now)
                \* a list comes back from JSON as []interface{}, which the keyspace refuses: Restore ends the process
                \/ e.died /\ \E x \in DOMAIN src : src[x].v.k = "list"
             /\ dev' = [dev EXCEPT !["PersistJSONTypes"] = @ + 1]
             /\ (dev["PersistJSONTypes"] = 0 => PrintT(<<"DEVIATION", l, {"PersistJSONTypes"}, <<"raft snapshot restore", "process died", e.died>> >>))
    /\ l' = l + 1 /\ UNCHANGED <<R, hot, nskip>>

----------------------------------------------------------------------------
DiagLine == IF "DIAG" \in DOMAIN IOEnv THEN atoi(IOEnv.DIAG) ELSE 0
TraceStuck ==
    /\ l <= Len(Trace) /\ l = DiagLine
    /\ PrintT(<<"MISMATCH-LINE", l>>)
    /\ LET e == Ev IN
       /\ PrintT(<<"MISMATCH-NOTE", "event", e.ev, "model leader", R.leader, "model members", R.members,
                   "healthy", Healthy(e)>>)
       /\ IF e.ev = "cmd" THEN
             /\ PrintT(<<"MISMATCH-CMD", e.cmd, "entry node", e.node, "role in the code", e.role, "role in the model",
                         IF e.cmd[1].s \in WriteOps THEN Rp!Role(R, e.node) ELSE "local", "db", e.db, "applied per node", e.napp,
                         "lost", e.lost>>)
             /\ PrintT(<<"MISMATCH-LOGGED-REPLY", e.r>>)
             /\ PrintT(<<"MISMATCH-MODEL-REPLY", NodeOutcome(e, e.node, {}).r>>)
             /\ LET bad == {n \in Members(e) \cap R.members : ~NodeMatches(e, n, {}, FALSE)} IN
                /\ PrintT(<<"MISMATCH-NOTE", "nodes whose dataset the model does not explain (no deviation)", bad,
                            "deletions applied per node", e.ndel>>)
                /\ IF bad = {} THEN TRUE
                   ELSE LET n == CHOOSE n \in bad : TRUE IN
                        /\ PrintT(<<"MISMATCH-MODEL-STATE", n, Norm(NodeOutcome(e, n, {}).S, e.now[n])>>)
                        /\ PrintT(<<"MISMATCH-LOGGED-STATE", n, Norm(Obs(e)[n], e.now[n])>>)
             /\ PrintT(<<"MISMATCH-NOTE", "keys on which the nodes differ after the step", DiffKeys(Obs(e)),
                         "before the step", DiffKeys([n \in R.members |-> R.data[n]]), "divergence explained by a finding", Divergent(e)>>)
          ELSE IF e.ev = "restore" THEN PrintT(<<"MISMATCH-NOTE", "source", Norm(ProjStore(e.src_st), e.now), "restored", Norm(ProjStore(e.st), e.now)>>)
          ELSE PrintT(<<"MISMATCH-NOTE", "keys on which the nodes differ", DiffKeys(Obs(e)), "hot", hot, "event", e>>)
    /\ FALSE
    /\ UNCHANGED vars

Next == TraceReset \/ TraceCmd \/ TraceBurst \/ TraceSample \/ TraceJoin \/ TraceTransfer \/ TraceStop \/ TraceRestore \/ TraceStuck

Spec == Init /\ [][Next]_vars

Report == (l = Len(Trace) + 1) => PrintT(<<"SUMMARY", Len(Trace), dev, nskip>>)

TraceAccepted == TLCGet("stats").diameter - 1 = Len(Trace)

=============================================================================
