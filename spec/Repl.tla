-------------------------------- MODULE Repl --------------------------------
(***************************************************************************)
(* C07: replication of writes through a replicated log.                    *)
(*                                                                         *)
(* hashicorp/raft itself (elections, log matching, commitment) is trusted: *)
(* what it provides is ONE committed log that only grows, of which every   *)
(* node applies a prefix in order.  This module specifies what SugarDB     *)
(* builds on it, with one operator per step of the code:                   *)
(*                                                                         *)
(*   Submit     handleCommand: the entry node appends (leader), hands the   *)
(*              write to gossip (forwarding follower) or refuses it         *)
(*   Deliver    delegate.NotifyMsg on the leader: a forwarded write enters  *)
(*              the log                                                     *)
(*   ApplyOne   FSM.Apply on one node: the next committed entry is executed *)
(*              against that node's dataset, with that node's clock and     *)
(*              that node's random choices                                  *)
(*   Ack        raftApplyCommand returns: the leader has applied the entry  *)
(*   Expire     the leader's sampler replicates a delete-key entry          *)
(*   Join / Stop / Transfer / Install   membership, leadership, snapshot    *)
(*                                                                         *)
(* The whole state is one record R and every step is a function R -> R, so *)
(* that the trace specification (Trace_Repl) can compose the steps one     *)
(* recorded event stands for.  What a command does to a dataset is the     *)
(* constant operator ApplyCmd: MC_Repl instantiates it with a small        *)
(* abstract algebra of writes, Trace_Repl with Exec (the command           *)
(* semantics of Sugar.tla).                                                *)
(***************************************************************************)
EXTENDS Integers, Sequences, FiniteSets, SequencesExt

CONSTANTS
    Node,               \* all node names that may ever take part
    NoNode,
    EmptyData,          \* the dataset of a fresh node
    ApplyCmd(_, _, _, _),   \* ApplyCmd(data, entry, now, choice) = next dataset
    Stable(_)           \* Stable(entry): the entry's effect does not depend on the applying node (clock, random choice)

\* an entry of the log: [id, db, cmd, del]  (del = TRUE: a delete-key entry, cmd = the key)
\* R: [members, leader, log, applied, data, clock, pend, acks, fwd, nid]

InitR(boot, fwdOf) ==
    [members |-> {boot}, leader |-> boot, log |-> <<>>,
     applied |-> [n \in Node |-> 0], data |-> [n \in Node |-> EmptyData], clock |-> [n \in Node |-> 0],
     pend |-> {}, acks |-> {}, fwd |-> fwdOf, nid |-> 1]

Entry(R, db, cmd) == [id |-> R.nid, db |-> db, cmd |-> cmd, del |-> FALSE]

----------------------------------------------------------------------------
\* handleCommand for a replicated command arriving at node n
Role(R, n) == IF n = R.leader THEN "leader" ELSE IF R.fwd[n] THEN "forward" ELSE "reject"

Submit(R, n, db, cmd) ==
    CASE Role(R, n) = "leader"  -> [R EXCEPT !.log = Append(@, Entry(R, db, cmd)), !.nid = @ + 1]
      [] Role(R, n) = "forward" -> [R EXCEPT !.pend = @ \cup {Entry(R, db, cmd)}, !.nid = @ + 1,
                                             !.acks = @ \cup {[id |-> R.nid, by |-> n, how |-> "forwarded"]}]
      [] OTHER                   -> R      \* refused: nothing anywhere changes

\* the gossip layer hands a forwarded write to the leader
CanDeliver(R, e) == e \in R.pend /\ R.leader # NoNode
Deliver(R, e) == [R EXCEPT !.pend = @ \ {e}, !.log = Append(@, e)]

\* the leader's sampler found key k of database db expired and replicates its deletion
Expire(R, db, k) == [R EXCEPT !.log = Append(@, [id |-> R.nid, db |-> db, cmd |-> k, del |-> TRUE]), !.nid = @ + 1]

\* FSM.Apply on node n
CanApply(R, n) == n \in R.members /\ R.applied[n] < Len(R.log)
ApplyOne(R, n, choice) ==
    LET e == R.log[R.applied[n] + 1] IN
    [R EXCEPT !.applied[n] = @ + 1, !.data[n] = ApplyCmd(@, e, R.clock[n], choice)]

\* the apply future of entry number i resolves on the leader
CanAck(R, i) == R.leader # NoNode /\ i <= R.applied[R.leader]
Ack(R, i) == [R EXCEPT !.acks = @ \cup {[id |-> R.log[i].id, by |-> R.leader, how |-> "applied"]}]

Tick(R, n, d) == [R EXCEPT !.clock[n] = @ + d]

\* raft hands leadership only to a node whose log is complete
CanTransfer(R, m) == m \in R.members /\ m # R.leader /\ R.leader # NoNode
Transfer(R, m) == [R EXCEPT !.leader = m]

Join(R, n) == [R EXCEPT !.members = @ \cup {n}, !.applied[n] = 0, !.data[n] = EmptyData]

Stop(R, n) == [R EXCEPT !.members = @ \ {n}, !.leader = IF @ = n THEN NoNode ELSE @]

\* raft snapshot of src installed on n (FSM.Snapshot/Persist on src, FSM.Restore on n)
Install(R, n, src) == [R EXCEPT !.applied[n] = R.applied[src], !.data[n] = R.data[src]]

----------------------------------------------------------------------------
\* Properties, as predicates of R (and of a step R -> R2)

\* what replaying the first p entries on a fresh state machine gives (for stable entries the
\* clock and the choice are irrelevant)
RECURSIVE Fold(_, _, _)
Fold(R, p, now) == IF p = 0 THEN EmptyData ELSE ApplyCmd(Fold(R, p - 1, now), R.log[p], now, 0)

AllStable(R, p) == \A i \in 1..p : Stable(R.log[i])

\* same order, same effect: a node's dataset is the replay of the prefix it applied ...
IsReplay(R) == \A n \in R.members : AllStable(R, R.applied[n]) => R.data[n] = Fold(R, R.applied[n], 0)

\* ... hence nodes that applied the same prefix hold identical datasets (in every database)
Agreement(R) ==
    \A a, b \in R.members : (R.applied[a] = R.applied[b] /\ AllStable(R, R.applied[a])) => R.data[a] = R.data[b]

\* the strong form the property asks for, with no exemption: fails for entries that are not Stable
AgreementStrict(R) == \A a, b \in R.members : R.applied[a] = R.applied[b] => R.data[a] = R.data[b]

\* a write acknowledged as applied is visible on the node that acknowledged it
ReadYourWrites(R) ==
    \A k \in R.acks : k.how = "applied" =>
        \E i \in 1..Len(R.log) : R.log[i].id = k.id /\ (k.by \in R.members => R.applied[k.by] >= i)

\* a write acknowledged as forwarded is on its way or in the log, and no write is logged twice
Handed(R) ==
    /\ \A k \in R.acks : k.how = "forwarded" =>
          (\E e \in R.pend : e.id = k.id) \/ (\E i \in 1..Len(R.log) : R.log[i].id = k.id)
    /\ \A i, j \in 1..Len(R.log) : R.log[i].id = R.log[j].id => i = j

\* a dataset changes only by applying the next entry of the log (or by joining / snapshot install):
\* no node - leader or not - executes a client write on its own
OnlyByLog(R, R2) ==
    \A n \in Node : R2.data[n] # R.data[n] =>
        \/ R2.applied[n] = R.applied[n] + 1
        \/ n \notin R.members                                                 \* joining
        \/ \E s \in R.members : R2.data[n] = R.data[s] /\ R2.applied[n] = R.applied[s]  \* install

AppendOnly(R, R2) == IsPrefix(R.log, R2.log)

TypeOK(R) == /\ R.members \subseteq Node /\ R.leader \in R.members \cup {NoNode}
             /\ \A n \in R.members : R.applied[n] <= Len(R.log)

=============================================================================
