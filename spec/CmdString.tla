------------------------------ MODULE CmdString ------------------------------
(***************************************************************************)
(* APPEND, SETRANGE, GETRANGE/SUBSTR, STRLEN                               *)
(* internal/modules/string/commands.go.  These commands only accept a Go   *)
(* string: a key written as a canonical number is an integer/float and is  *)
(* rejected (as-code, see DECISIONS.md).                                   *)
(***************************************************************************)
EXTENDS CmdBase

XAppend(C, a) ==
    IF Len(a) # 3 THEN Fail(C)
    ELSE LET k == a[2].s   v == TokBytes(a[3]) IN
         IF ~Live(C, k)
         THEN IF Unmodelled(v) THEN Skip(C) ELSE Res(Write(C, k, Typed(v, C.D)), RInt(Len(v)))
         ELSE IF ValOf(C, k).k # "str" THEN Fail(C)
         ELSE LET n == ValOf(C, k).b \o v IN
              IF Unmodelled(n) THEN Skip(C) ELSE Res(Write(C, k, Typed(n, C.D)), RInt(Len(n)))

\* SETRANGE key offset value.  as-code: an offset at or past the end appends (no zero padding),
\* a negative offset prepends; the result is stored as a string without re-typing.
RECURSIVE Overwrite(_, _, _)
Overwrite(b, off, v) ==       \* 0 <= off < Len(b)
    IF v = <<>> THEN b
    ELSE IF off >= Len(b) THEN b \o v
    ELSE Overwrite([b EXCEPT ![off + 1] = v[1]], off + 1, Tail(v))

XSetRange(C, a) ==
    IF Len(a) # 4 THEN Fail(C)
    ELSE IF ~IsIntT(a[3]) THEN (IF IsBytesT(a[3]) /\ NumericChars(a[3].b) THEN Skip(C) ELSE Fail(C))
    ELSE LET k == a[2].s   off == a[3].i   v == TokBytes(a[4]) IN
         IF ~Live(C, k) THEN Res(Write(C, k, VStr(v)), RInt(Len(v)))
         ELSE IF ValOf(C, k).k # "str" THEN Fail(C)
         ELSE LET b == ValOf(C, k).b
                  n == IF off >= Len(b) THEN b \o v
                       ELSE IF off < 0 THEN v \o b
                       ELSE Overwrite(b, off, v)
              IN Res(Write(C, k, VStr(n)), RInt(Len(n)))

XStrLen(C, a) ==
    IF Len(a) # 2 THEN Fail(C)
    ELSE IF ~Live(C, a[2].s) THEN Res(C.S, RInt(0))
    ELSE IF ValOf(C, a[2].s).k # "str" THEN Fail(C)
    ELSE Res(C.S, RInt(Len(ValOf(C, a[2].s).b)))

Reverse(s) == [i \in 1..Len(s) |-> s[Len(s) + 1 - i]]
Clamp(x, lo, hi) == IF x < lo THEN lo ELSE IF x > hi THEN hi ELSE x

\* GETRANGE / SUBSTR key start end.  as-code index arithmetic (negative from the tail, end
\* inclusive, start > end yields the reversed substring), out-of-range indices clamped.
XGetRange(C, a) ==
    IF Len(a) # 4 THEN Fail(C)
    ELSE IF ~IsIntT(a[3]) \/ ~IsIntT(a[4])
         THEN (IF \E i \in {3, 4} : IsBytesT(a[i]) /\ NumericChars(a[i].b) THEN Skip(C) ELSE Fail(C))
    ELSE LET k == a[2].s IN
         IF ~Live(C, k) THEN Fail(C)                      \* as-code: missing key is an error
         ELSE IF ValOf(C, k).k # "str" THEN Fail(C)
         ELSE LET b   == ValOf(C, k).b
                  n   == Len(b)
                  s1  == IF a[3].i < 0 THEN n + a[3].i ELSE a[3].i
                  e1  == IF a[4].i < 0 THEN n + a[4].i ELSE a[4].i
                  e2  == IF e1 >= 0 /\ e1 >= s1 THEN e1 + 1 ELSE e1
                  e3  == IF e2 > n THEN n ELSE e2
                  rev == s1 > e3
                  lo  == Clamp(IF rev THEN e3 ELSE s1, 0, n)
                  hi  == Clamp(IF rev THEN s1 ELSE e3, 0, n)
                  sub == SubSeq(b, lo + 1, hi)
              IN Res(C.S, RStr(IF rev THEN Reverse(sub) ELSE sub))

=============================================================================
