SPECIFICATION Spec
CONSTANTS
  Cmds <- MCCmds
  Inits <- MCInits
  DBs <- MCDBs
  TickSizes <- MCTicks
  MaxSteps = 3
  T0 <- MCT0
VIEW View
INVARIANTS TypeOK Unobservable TtlAgrees
PROPERTIES ErrNoChange ByteExact Frame ReadOnlyPure TickKeepsStore FreshDeadline Isolation FlushAllEmpties FlushDbOnlyOwn
CHECK_DEADLOCK FALSE
