-------------------------------- MODULE Acl --------------------------------
(***************************************************************************)
(* C06 / C11: the ACL user table, authentication and authorization.        *)
(*                                                                         *)
(* A user is a record of sets; "*" in an included set means "all".         *)
(* Rule tokens (ACL SETUSER arguments) are records [k |-> kind, v |-> arg] *)
(* - the harness renders them ("+@read", "%R~a:*", ">p1", "#<sha256 p1>"). *)
(* Keys, channels and glob patterns are strings of a fixed small universe  *)
(* whose matching relation is MatchTab (gobwas/glob itself is trusted).    *)
(*                                                                         *)
(* Authorized is written from the property statement: enabled and          *)
(* authenticated, EVERY category of the command included and none          *)
(* excluded, the command included and not excluded, EVERY read key under   *)
(* a read pattern, EVERY write key under a write pattern, every channel    *)
(* allowed and not excluded.  The positions of keys in a command come from *)
(* KeySpec, written from the documented syntax (not from key_funcs.go).    *)
(***************************************************************************)
EXTENDS Integers, Sequences, FiniteSets

Patterns == {"*", "a:*", "b:*", "a:1", "n:*", "m:1"}
MatchTab == [p \in Patterns |->
               CASE p = "*"   -> {"a:1", "a:2", "b:1", "b:2", "n:1", "m:1"}
                 [] p = "a:*" -> {"a:1", "a:2"}
                 [] p = "b:*" -> {"b:1", "b:2"}
                 [] p = "a:1" -> {"a:1"}
                 [] p = "n:*" -> {"n:1"}
                 [] p = "m:1" -> {"m:1"}]
Match(p, x) == p \in Patterns /\ x \in MatchTab[p]

----------------------------------------------------------------------------
NewUser(name) == [name |-> name, on |-> TRUE, nopass |-> FALSE, nokeys |-> FALSE, pw |-> {},
                  icat |-> {}, xcat |-> {}, icmd |-> {}, xcmd |-> {}, rk |-> {}, wk |-> {}, ich |-> {}, xch |-> {}]

\* RemoveDuplicateEntries: "*" survives only when it is the only entry
Dedup(s) == IF s = {"*"} THEN {"*"} ELSE s \ {"*"}

\* user.Normalise (applied when a user is created or loaded)
Normalise(u) ==
    LET ic0 == Dedup(u.icat)   xc == Dedup(u.xcat)
        ic  == IF "*" \in xc THEN {} ELSE IF ic0 = {} THEN {"*"} ELSE ic0
        im0 == Dedup(u.icmd)   xm == Dedup(u.xcmd)
        im  == IF "*" \in xm THEN {} ELSE IF im0 = {} THEN {"*"} ELSE im0
        rk0 == Dedup(u.rk)     wk0 == Dedup(u.wk)
        h0  == Dedup(u.ich)    xh == Dedup(u.xch)
        ih  == IF "*" \in xh THEN {} ELSE IF h0 = {} THEN {"*"} ELSE h0
    IN [u EXCEPT !.icat = ic, !.xcat = xc, !.icmd = im, !.xcmd = xm,
                 !.rk = IF rk0 = {} /\ ~u.nokeys THEN {"*"} ELSE rk0,
                 !.wk = IF wk0 = {} /\ ~u.nokeys THEN {"*"} ELSE wk0,
                 !.ich = ih, !.xch = xh]

\* first pass of User.UpdateUser: one token
Tok1(u, t) ==
    CASE t.k = "on"       -> [u EXCEPT !.on = TRUE]
      [] t.k = "off"      -> [u EXCEPT !.on = FALSE]
      [] t.k = "pw"       -> [u EXCEPT !.pw = @ \cup {[t |-> "plain", v |-> t.v]}, !.nopass = FALSE]
      [] t.k = "hash"     -> [u EXCEPT !.pw = @ \cup {[t |-> "sha", v |-> t.v]}, !.nopass = FALSE]
      [] t.k = "rmpw"     -> [u EXCEPT !.pw = @ \ {[t |-> "plain", v |-> t.v]}]
      [] t.k = "rmhash"   -> [u EXCEPT !.pw = @ \ {[t |-> "sha", v |-> t.v]}]
      [] t.k = "nocommands" -> [u EXCEPT !.xcat = {"*"}, !.xcmd = {"*"}]
      [] t.k = "allcategories" -> [u EXCEPT !.icat = {"*"}]
      [] t.k = "cat+"     -> [u EXCEPT !.icat = @ \cup {t.v}]
      [] t.k = "cat-"     -> [u EXCEPT !.xcat = @ \cup {t.v}]
      [] t.k = "allkeys"  -> [u EXCEPT !.rk = {"*"}, !.wk = {"*"}, !.nokeys = FALSE]
      [] t.k = "key"      -> [u EXCEPT !.rk = @ \cup {t.v}, !.wk = @ \cup {t.v}, !.nokeys = FALSE]
      [] t.k = "rkey"     -> [u EXCEPT !.rk = @ \cup {t.v}, !.nokeys = FALSE]
      [] t.k = "wkey"     -> [u EXCEPT !.wk = @ \cup {t.v}, !.nokeys = FALSE]
      [] t.k = "allchannels" -> [u EXCEPT !.ich = {"*"}]
      [] t.k = "ch+"      -> [u EXCEPT !.ich = @ \cup {t.v}]
      [] t.k = "ch-"      -> [u EXCEPT !.xch = @ \cup {t.v}]
      [] t.k = "allcommands" -> [u EXCEPT !.icmd = {"*"}, !.xcmd = {}]
      [] t.k = "cmd+"     -> [u EXCEPT !.icmd = @ \cup {t.v}]
      [] t.k = "cmd-"     -> [u EXCEPT !.xcmd = @ \cup {t.v}]
      [] OTHER            -> u          \* nopass, resetpass, resetkeys, nokeys, resetchannels: later passes

RECURSIVE Pass1(_, _)
Pass1(u, ts) == IF ts = <<>> THEN u ELSE Pass1(Tok1(u, Head(ts)), Tail(ts))

Has(ts, kind) == \E i \in 1..Len(ts) : ts[i].k = kind

Update(u, ts) ==
    LET u1 == Pass1(u, ts)
        u2 == IF Has(ts, "nopass") THEN [u1 EXCEPT !.pw = {}, !.nopass = TRUE] ELSE u1
        u3 == IF Has(ts, "resetpass") THEN [u2 EXCEPT !.pw = {}, !.nopass = FALSE] ELSE u2
        u4 == IF Has(ts, "nocommands") THEN [u3 EXCEPT !.icmd = {}, !.xcmd = {"*"}, !.icat = {}, !.xcat = {"*"}] ELSE u3
        u5 == IF Has(ts, "resetkeys") \/ Has(ts, "nokeys") THEN [u4 EXCEPT !.rk = {}, !.wk = {}, !.nokeys = TRUE] ELSE u4
        u6 == IF Has(ts, "resetchannels") THEN [u5 EXCEPT !.ich = {}, !.xch = {"*"}] ELSE u5
    IN u6

\* users: function name -> user.  ACL SETUSER: an existing user is updated, a new one is created
\* and updated; either way the result is stored in normal form.
SetUser(users, name, ts) ==
    IF name \in DOMAIN users THEN [users EXCEPT ![name] = Normalise(Update(users[name], ts))]
    ELSE [n \in (DOMAIN users) \cup {name} |-> IF n = name THEN Normalise(Update(NewUser(name), ts)) ELSE users[n]]

\* ACL DELUSER: the default user cannot be deleted
DelUser(users, names) == [n \in (DOMAIN users) \ (names \ {"default"}) |-> users[n]]

----------------------------------------------------------------------------
\* C11: AUTH succeeds exactly when the user exists, is enabled, and is password-less or the
\* password equals a plaintext entry or hashes to a SHA-256 entry
AuthOK(users, name, pw) ==
    /\ name \in DOMAIN users
    /\ users[name].on
    /\ (users[name].nopass \/ [t |-> "plain", v |-> pw] \in users[name].pw \/ [t |-> "sha", v |-> pw] \in users[name].pw)

----------------------------------------------------------------------------
\* where the keys / channels of a command are, from the documented syntax
KeySpec == [get |-> "r1", set |-> "w1", mget |-> "rall", mset |-> "walt", del |-> "wall", ttl |-> "r1", expire |-> "w1",
            incr |-> "w1", lpush |-> "w1", lrange |-> "r1", lmove |-> "w12", sadd |-> "w1", sunion |-> "rall",
            sinterstore |-> "w1rrest", smembers |-> "r1", zadd |-> "w1", zcard |-> "r1", hset |-> "w1", hget |-> "r1",
            rename |-> "w12", getdel |-> "rw1", publish |-> "c1", subscribe |-> "call", flushdb |-> "none", save |-> "none",
            lastsave |-> "none", strlen |-> "r1", append |-> "w1", zinter |-> "rall", zunion |-> "rall"]

KSpec(name) == IF name \in DOMAIN KeySpec THEN KeySpec[name] ELSE "none"

\* args: the key / channel arguments of the probe command, in order (non-key arguments removed)
ReadKeys(name, args) ==
    LET s == KSpec(name) IN
    CASE s \in {"r1", "rw1"} -> {args[1]}
      [] s = "rall"    -> {args[i] : i \in 1..Len(args)}
      [] s = "w1rrest" -> {args[i] : i \in 2..Len(args)}
      [] OTHER         -> {}
WriteKeys(name, args) ==
    LET s == KSpec(name) IN
    CASE s \in {"w1", "rw1", "w1rrest"} -> {args[1]}
      [] s \in {"wall", "walt"} -> {args[i] : i \in 1..Len(args)}
      [] s = "w12"     -> {args[1], args[2]}
      [] OTHER         -> {}
Channels(name, args) ==
    LET s == KSpec(name) IN
    CASE s = "c1"   -> {args[1]}
      [] s = "call" -> {args[i] : i \in 1..Len(args)}
      [] OTHER      -> {}

Exempt == {"auth", "hello", "ping", "echo"}

\* C06: conn = [user, authed]; cmd = [name, cats (set), args]
Authorized(users, conn, cmd) ==
    \/ cmd.name \in Exempt
    \/ /\ conn.authed
       /\ conn.user \in DOMAIN users           \* a deleted user can no longer act
       /\ LET u == users[conn.user] IN
          /\ u.on
          /\ ("*" \in u.icat \/ cmd.cats \subseteq u.icat)
          /\ ~("*" \in u.xcat) /\ cmd.cats \cap u.xcat = {}
          /\ ("*" \in u.icmd \/ cmd.name \in u.icmd)
          /\ ~("*" \in u.xcmd) /\ ~(cmd.name \in u.xcmd)
          /\ IF "pubsub" \in cmd.cats
             THEN \A c \in Channels(cmd.name, cmd.args) :
                     (\E p \in u.ich : Match(p, c)) /\ ~(\E p \in u.xch : Match(p, c))
             ELSE LET rks == ReadKeys(cmd.name, cmd.args)   wks == WriteKeys(cmd.name, cmd.args) IN
                  (rks \cup wks # {}) =>
                     /\ ~u.nokeys
                     /\ \A k \in rks : \E p \in u.rk : Match(p, k)
                     /\ \A k \in wks : \E p \in u.wk : Match(p, k)

=============================================================================
