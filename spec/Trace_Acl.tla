------------------------------ MODULE Trace_Acl ------------------------------
(***************************************************************************)
(* Trace validation for C06 (authorization) and C11 (authentication and    *)
(* user lifecycle).  The harness drives a real server with RequirePass     *)
(* over connections served by the real connection handler, and records:    *)
(*   reset    users table after start-up                                   *)
(*   conn     a new connection c                                           *)
(*   setuser / deluser / save / load / restart   ACL edits (by an admin)   *)
(*   auth     AUTH / HELLO AUTH on connection c, outcome, ACL WHOAMI after *)
(*   try      a probe command on connection c: ran | denied | closed, and  *)
(*            digests of data, subscriptions and ACL table before/after    *)
(* Every step must be explained by Acl.tla; the users table the server     *)
(* reports after every edit must equal the model's.                        *)
(***************************************************************************)
EXTENDS Acl, Json, IOUtils, TLC

Trace == ndJsonDeserialize(IOEnv.TRACE)

VARIABLES l, users, conns, file
vars == <<l, users, conns, file>>

Range(s) == {s[i] : i \in DOMAIN s}

ProjUser(j) == [name |-> j.name, on |-> j.on, nopass |-> j.nopass, nokeys |-> j.nokeys,
                pw |-> {[t |-> p.t, v |-> p.v] : p \in Range(j.pw)},
                icat |-> Range(j.icat), xcat |-> Range(j.xcat), icmd |-> Range(j.icmd), xcmd |-> Range(j.xcmd),
                rk |-> Range(j.rk), wk |-> Range(j.wk), ich |-> Range(j.ich), xch |-> Range(j.xch)]
ProjUsers(js) == [n \in {j.name : j \in Range(js)} |-> ProjUser(CHOOSE j \in Range(js) : j.name = n)]

Init == l = 1 /\ users = <<>> /\ conns = <<>> /\ file = <<>>

Ev == Trace[l]

TReset == /\ l <= Len(Trace) /\ Ev.ev = "reset"
          /\ users' = ProjUsers(Ev.users) /\ conns' = <<>> /\ file' = <<>>
          /\ "default" \in DOMAIN users'
          /\ l' = l + 1

\* C11: a new connection starts as the default user, authenticated only if that user needs no password
TConn == /\ l <= Len(Trace) /\ Ev.ev = "conn"
         /\ conns' = [c \in (DOMAIN conns) \cup {Ev.c} |->
                        IF c = Ev.c THEN [user |-> "default", authed |-> users["default"].nopass, dead |-> FALSE] ELSE conns[c]]
         /\ Ev.whoami = "default"
         /\ l' = l + 1 /\ UNCHANGED <<users, file>>

TSetUser == /\ l <= Len(Trace) /\ Ev.ev = "setuser"
            /\ Ev.ok
            /\ users' = SetUser(users, Ev.name, Ev.toks)
            /\ users' = ProjUsers(Ev.users)
            /\ l' = l + 1 /\ UNCHANGED <<conns, file>>

\* C11: the default user cannot be deleted
TDelUser == /\ l <= Len(Trace) /\ Ev.ev = "deluser"
            /\ Ev.ok
            /\ users' = DelUser(users, Range(Ev.names))
            /\ users' = ProjUsers(Ev.users)
            \* the connections of the deleted users are terminated
            /\ conns' = [c \in DOMAIN conns |->
                           IF conns[c].user \in (Range(Ev.names) \cap DOMAIN users) \ {"default"}
                           THEN [conns[c] EXCEPT !.dead = TRUE] ELSE conns[c]]
            /\ l' = l + 1 /\ UNCHANGED file

TSave == /\ l <= Len(Trace) /\ Ev.ev = "save"
         /\ Ev.ok
         /\ file' = users
         /\ users = ProjUsers(Ev.users)
         /\ l' = l + 1 /\ UNCHANGED <<users, conns>>

Merged(u, v) ==
    Normalise([name |-> u.name, on |-> v.on, nopass |-> v.nopass, nokeys |-> v.nokeys, pw |-> u.pw \cup v.pw,
               icat |-> u.icat \cup v.icat, xcat |-> u.xcat \cup v.xcat, icmd |-> u.icmd \cup v.icmd, xcmd |-> u.xcmd \cup v.xcmd,
               rk |-> u.rk \cup v.rk, wk |-> u.wk \cup v.wk, ich |-> u.ich \cup v.ich, xch |-> u.xch \cup v.xch])

\* ACL LOAD REPLACE | MERGE reads the file written by the last ACL SAVE
TLoad == /\ l <= Len(Trace) /\ Ev.ev = "load"
         /\ Ev.ok
         /\ users' = [n \in (DOMAIN users) \cup (DOMAIN file) |->
                        IF ~(n \in DOMAIN file) THEN users[n]
                        ELSE IF ~(n \in DOMAIN users) \/ Ev.mode = "replace" THEN Normalise(file[n])
                        ELSE Merged(users[n], Normalise(file[n]))]
         /\ users' = ProjUsers(Ev.users)
         /\ l' = l + 1 /\ UNCHANGED <<conns, file>>

\* C11: ACL SAVE followed by a restart reproduces the same users and rules
TRestart == /\ l <= Len(Trace) /\ Ev.ev = "restart"
            /\ users' = [n \in DOMAIN file |-> Normalise(file[n])]
            /\ users' = ProjUsers(Ev.users)
            /\ conns' = <<>>
            /\ l' = l + 1 /\ UNCHANGED file

\* C11: ACL DELUSER terminates the connections of the deleted user: they can no longer act at all
Dead(c) == conns[c].dead

\* C11: AUTH / HELLO AUTH; a failed attempt leaves identity and privileges unchanged
TAuth == /\ l <= Len(Trace) /\ Ev.ev = "auth"
         /\ IF Dead(Ev.c)
            THEN Ev.closed /\ UNCHANGED conns
            ELSE LET name == IF Ev.user = "" THEN "default" ELSE Ev.user
                     ok   == AuthOK(users, name, Ev.pw)
                 IN /\ ~Ev.closed
                    /\ Ev.ok = ok
                    /\ conns' = IF ok THEN [conns EXCEPT ![Ev.c] = [user |-> name, authed |-> TRUE, dead |-> FALSE]] ELSE conns
                    /\ (Ev.whoami = "~" \/ Ev.whoami = conns'[Ev.c].user)     \* "~": ACL WHOAMI itself was denied
         /\ l' = l + 1 /\ UNCHANGED <<users, file>>

\* C06: a command runs iff the connection's user is allowed; a denied command has no effect
TTry == /\ l <= Len(Trace) /\ Ev.ev = "try"
        /\ LET cmd == [name |-> Ev.name, cats |-> Range(Ev.cats), args |-> Ev.args]
               a   == Authorized(users, conns[Ev.c], cmd)
           IN IF Dead(Ev.c)
              THEN Ev.outcome = "closed" /\ Ev.sb = Ev.sa
              ELSE /\ Ev.outcome # "closed"
                   /\ (Ev.outcome = "ran") = a
                   /\ (Ev.outcome # "ran" => Ev.sb = Ev.sa)
        /\ l' = l + 1 /\ UNCHANGED <<users, conns, file>>

\* diagnostics: a second TLC pass with DIAG=<rejected line> prints the model's view of that line
DiagLine == IF "DIAG" \in DOMAIN IOEnv THEN atoi(IOEnv.DIAG) ELSE 0

TStuck == /\ l <= Len(Trace) /\ l = DiagLine
          /\ PrintT(<<"MISMATCH-LINE", l>>)
          /\ PrintT(<<"MISMATCH-NOTE", "event", Ev>>)
          /\ PrintT(<<"MISMATCH-NOTE", "model users", users, "connections", conns>>)
          /\ (Ev.ev = "try" => PrintT(<<"MISMATCH-NOTE", "model says authorized =",
                 Authorized(users, conns[Ev.c], [name |-> Ev.name, cats |-> Range(Ev.cats), args |-> Ev.args])>>))
          /\ (Ev.ev = "setuser" => PrintT(<<"MISMATCH-NOTE", "model users after", SetUser(users, Ev.name, Ev.toks)>>))
          /\ FALSE /\ UNCHANGED vars

Next == TReset \/ TConn \/ TSetUser \/ TDelUser \/ TSave \/ TLoad \/ TRestart \/ TAuth \/ TTry \/ TStuck

Spec == Init /\ [][Next]_vars

Report == (l = Len(Trace) + 1) => PrintT(<<"SUMMARY", Len(Trace), [none |-> 0], 0>>)
TraceAccepted == TLCGet("stats").diameter - 1 = Len(Trace)

=============================================================================
