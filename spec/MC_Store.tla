------------------------------ MODULE MC_Store ------------------------------
(***************************************************************************)
(* Bounded instance of Sugar for TLC: generic + string commands over two   *)
(* keys, two databases, a value pool that contains the awkward cases       *)
(* (empty, numeric-looking, non-canonical numerals, CRLF, NUL), presets of *)
(* several value types with and without deadlines, and a clock that can    *)
(* pass a deadline.  Used for C01, C04, C13, C20.                          *)
(***************************************************************************)
EXTENDS Sugar, TLC

K(k) == [s |-> k]
W(w) == [s |-> w]
V(b) == [b |-> b]
N(n) == [i |-> n]
A(ms, u) == [at |-> ms, u |-> u]
Qt(q) == [q |-> q, inf |-> 0]

MCKeys == {"k1", "k2"}

\* "", "a", "7", "-3", "007", "1.5", "2.0", "a\r\nb", "\0"
MCVals == {<<>>, <<97>>, <<55>>, <<45, 51>>, <<48, 48, 55>>, <<49, 46, 53>>, <<50, 46, 48>>,
           <<97, 13, 10, 98>>, <<0>>}

MCT0 == 100000

MCCmds ==
    {<<W("SET"), K(k), V(v)>> : k \in MCKeys, v \in MCVals}
    \cup {<<W("SET"), K(k), V(<<98>>), W(o)>> : k \in MCKeys, o \in {"NX", "XX", "GET"}}
    \cup {<<W("SET"), K(k), V(<<98>>), W("EX"), N(1)>> : k \in MCKeys}
    \cup {<<W("SET"), K(k), V(<<98>>), W("PXAT"), A(MCT0 + 500, "ms")>> : k \in MCKeys}
    \cup {<<W("SET"), K("k1"), V(<<98>>), W("NX"), W("XX")>>, <<W("SET"), K("k1"), V(<<98>>), W("EX")>>,
          <<W("SET"), K("k1")>>, <<W("SET"), K("k1"), V(<<98>>), W("EX"), V(<<120>>)>>}
    \cup {<<W("MSET"), K("k1"), V(<<97>>), K("k2"), V(<<55>>)>>, <<W("MSET"), K("k1"), V(<<97>>), K("k1")>>}
    \cup {<<W(op), K(k)>> : op \in {"GET", "GETDEL", "TYPE", "TTL", "PTTL", "EXPIRETIME", "PEXPIRETIME",
                                     "PERSIST", "INCR", "DECR", "STRLEN", "GETEX", "DEL"}, k \in MCKeys}
    \cup {<<W("MGET"), K("k1"), K("k2"), K("k1")>>, <<W("DEL"), K("k1"), K("k2"), K("k1")>>}
    \cup {<<W("TOUCH"), K("k1"), K("k2"), K("k1")>>, <<W("TOUCH")>>}
    \cup {<<W("GETEX"), K("k1"), W("PERSIST")>>, <<W("GETEX"), K("k1"), W("PX"), N(700)>>,
          <<W("GETEX"), K("k1"), W("EX")>>, <<W("GETEX"), K("k1"), W("ZZ"), N(1)>>}
    \cup {<<W(op), K(k), N(1)>> : op \in {"EXPIRE"}, k \in MCKeys}
    \cup {<<W("PEXPIRE"), K("k1"), N(700), W(o)>> : o \in {"NX", "XX", "GT", "LT", "ZZ"}}
    \cup {<<W("PEXPIREAT"), K("k1"), A(MCT0 + 300, "ms")>>, <<W("EXPIREAT"), K("k2"), A(MCT0 + 1000, "s")>>,
          <<W("EXPIRE"), K("k1"), V(<<120>>)>>}
    \cup {<<W("INCRBY"), K("k1"), N(5)>>, <<W("DECRBY"), K("k1"), N(2)>>, <<W("INCRBY"), K("k1"), V(<<120>>)>>,
          <<W("INCRBYFLOAT"), K("k1"), Qt(6)>>, <<W("INCRBYFLOAT"), K("k2"), Qt(-1)>>}
    \cup {<<W("RENAME"), K(a), K(b)>> : a \in MCKeys, b \in MCKeys}
    \cup {<<W("FLUSHDB")>>, <<W("FLUSHALL")>>, <<W("FLUSHDB"), K("k1")>>}
    \cup {<<W("APPEND"), K("k1"), V(v)>> : v \in {<<>>, <<97>>, <<55>>}}
    \cup {<<W("SETRANGE"), K("k1"), N(o), V(<<120, 121>>)>> : o \in {0, 1, 5, -1}}
    \cup {<<W("GETRANGE"), K("k1"), N(s), N(e)>> : s \in {0, -1, -5, 2}, e \in {0, -1, 1, 9}}

MCInits ==
    { EmptyStore,
      (<<"0", "k1">> :> Ent(VStr(<<97, 98, 99>>), NoD)),
      (<<"0", "k1">> :> Ent(VInt(41), MCT0 + 400)) @@ (<<"1", "k1">> :> Ent(VStr(<<122>>), NoD)),
      (<<"0", "k1">> :> Ent(VList(<< <<97>>, <<98>> >>), NoD)) @@ (<<"0", "k2">> :> Ent(VFlt(6), MCT0 + 1000)),
      (<<"0", "k1">> :> Ent(VStr(<<>>), MCT0 - 1)) @@ (<<"1", "k2">> :> Ent(VStr(<<55>>), MCT0 + 400)) }

MCDBs == {"0", "1"}
MCTicks == {500}

\* every value of the pool reads back byte for byte under the reference typing
PoolRoundTrips == \A v \in MCVals : Render(Typed(v, {})) = v
ASSUME PoolRoundTrips

=============================================================================
