------------------------------ MODULE CmdSet ------------------------------
(* placeholder: semantics of the set commands (to be written) *)
EXTENDS CmdBase

SetOps == {}
ExecSet(C, a, g) == Skip(C)
SetDevs(a) == {}

=============================================================================
