------------------------------ MODULE CmdSet ------------------------------
(***************************************************************************)
(* Semantics of the set commands (property C16: "set commands implement    *)
(* mathematical sets").  internal/modules/set/commands.go, set.go.         *)
(*                                                                         *)
(* A stored set is VSet(s), s a finite set of byte strings (members are    *)
(* kept byte for byte: no numeric typing of members).  An absent key is    *)
(* the empty set for every reader; a live key of another kind makes every  *)
(* set command that names it fail without changing anything (C01).         *)
(*                                                                         *)
(* Commands with a random choice (SPOP, SRANDMEMBER) read the choice off   *)
(* the logged reply g, check that it is a legal one (correct size, current *)
(* members, distinct when the count is positive) and compute the next      *)
(* state from it.                                                          *)
(*                                                                         *)
(* as-code decisions (recorded, not judged) are marked "as-code".          *)
(***************************************************************************)
EXTENDS CmdBase

SetOps == {"SADD", "SCARD", "SDIFF", "SDIFFSTORE", "SINTER", "SINTERCARD", "SINTERSTORE", "SISMEMBER",
           "SMEMBERS", "SMISMEMBER", "SMOVE", "SPOP", "SRANDMEMBER", "SREM", "SUNION", "SUNIONSTORE"}

----------------------------------------------------------------------------
\* vocabulary

SIsSet(C, k) == Live(C, k) /\ ValOf(C, k).k = "set"
SWrong(C, k) == Live(C, k) /\ ValOf(C, k).k # "set"

\* members contributed by a key: an absent key (and, for SWrong keys that a deviation lets through,
\* a non-set) contributes nothing
SMem(C, k) == IF SIsSet(C, k) THEN ValOf(C, k).s ELSE {}

\* the member arguments a[from..] as a set of byte strings
SArgs(a, from) == {TokBytes(a[i]) : i \in from..Len(a)}

\* the key arguments a[lo..hi] as a sequence of key names
SKeySeq(a, lo, hi) == [i \in 1..(hi - lo + 1) |-> a[lo + i - 1].s]

SAnyWrong(C, ks) == \E i \in DOMAIN ks : SWrong(C, ks[i])

RECURSIVE SSeqOf(_)
SSeqOf(s) == IF s = {} THEN <<>> ELSE LET x == CHOOSE y \in s : TRUE IN <<x>> \o SSeqOf(s \ {x})

\* an array reply listing the members of s in no particular order (Go map iteration)
SBag(s) == LET q == SSeqOf(s) IN RBag([i \in 1..Len(q) |-> RStr(q[i])])

\* a reply nothing matches (ReplyEq has no arm for it): an illegal random choice
SNoMatch == [t |-> "nomatch"]

(***************************************************************************)
(* Integer arguments (SPOP/SRANDMEMBER count, SINTERCARD limit) are parsed *)
(* with internal.AdaptType(..).(int): any decimal literal whose value is   *)
(* integral is accepted ("007", "+2", "2.0", "-0"); a literal with a       *)
(* fractional value or a non-number is an error.  as-code.                 *)
(* "int" | "bad" | "skip" (numeric shape the bounded model cannot follow)  *)
(***************************************************************************)
SNumKind(t) ==
    IF IsIntT(t) THEN "int"
    ELSE IF IsQT(t) THEN (IF t.inf = 0 /\ t.q % 4 = 0 THEN "int" ELSE "bad")
    ELSE IF IsBytesT(t) THEN
         IF Unmodelled(t.b) THEN "skip"
         ELSE IF IsLooseNum(t.b) /\ LooseNum(t.b).ok
              THEN (IF LooseNum(t.b).isint THEN "int" ELSE "bad")
         ELSE "bad"
    ELSE "bad"

SNum(t) == IF IsIntT(t) THEN t.i ELSE IF IsQT(t) THEN t.q \div 4 ELSE LooseNum(t.b).n

----------------------------------------------------------------------------
\* SADD key member [member ...] : reply = number of members that were not there before
\* (duplicates in the argument list count once)

XSAdd(C, a) ==
    IF Len(a) < 3 THEN Fail(C)
    ELSE LET k == a[2].s   ms == SArgs(a, 3) IN
         IF SWrong(C, k) THEN Fail(C)
         ELSE LET old == SMem(C, k) IN
              Res(Write(C, k, VSet(old \cup ms)), RInt(Cardinality(ms \ old)))

\* SREM key member [member ...] : reply = number of members removed.
\* as-code: a set emptied by SREM/SPOP/SMOVE stays in the keyspace as an empty set;
\* SREM on an absent key creates nothing.
XSRem(C, a) ==
    IF Len(a) < 3 THEN Fail(C)
    ELSE LET k == a[2].s   ms == SArgs(a, 3) IN
         IF ~Live(C, k) THEN Res(C.S, RInt(0))
         ELSE IF SWrong(C, k) THEN Fail(C)
         ELSE LET old == SMem(C, k) IN
              Res(Write(C, k, VSet(old \ ms)), RInt(Cardinality(ms \cap old)))

XSCard(C, a) ==
    IF Len(a) # 2 THEN Fail(C)
    ELSE IF SWrong(C, a[2].s) THEN Fail(C)
    ELSE Res(C.S, RInt(Cardinality(SMem(C, a[2].s))))

XSIsMember(C, a) ==
    IF Len(a) # 3 THEN Fail(C)
    ELSE IF SWrong(C, a[2].s) THEN Fail(C)
    ELSE Res(C.S, RInt(IF TokBytes(a[3]) \in SMem(C, a[2].s) THEN 1 ELSE 0))

\* SMISMEMBER key member [member ...] : one 0/1 integer per argument, in argument order
XSMIsMember(C, a) ==
    IF Len(a) < 3 THEN Fail(C)
    ELSE IF SWrong(C, a[2].s) THEN Fail(C)
    ELSE LET s == SMem(C, a[2].s) IN
         Res(C.S, RArr([i \in 1..(Len(a) - 2) |-> RInt(IF TokBytes(a[i + 2]) \in s THEN 1 ELSE 0)]))

XSMembers(C, a) ==
    IF Len(a) # 2 THEN Fail(C)
    ELSE IF SWrong(C, a[2].s) THEN Fail(C)
    ELSE Res(C.S, SBag(SMem(C, a[2].s)))

----------------------------------------------------------------------------
\* set algebra over the keys named; an absent key never contributes members

SUnionOf(C, ks) == UNION {SMem(C, ks[i]) : i \in DOMAIN ks}
SInterOf(C, ks) == {m \in SMem(C, ks[1]) : \A i \in DOMAIN ks : m \in SMem(C, ks[i])}
SDiffOf(C, ks)  == SMem(C, ks[1]) \ UNION {SMem(C, ks[i]) : i \in 2..Len(ks)}

\* the STORE variants replace the destination (whatever it held) with the result.
\* as-code: an empty result is stored as an empty set; a live destination keeps its deadline.
SStore(C, dst, s) == Res(Write(C, dst, VSet(s)), RInt(Cardinality(s)))

XSUnion(C, a) ==
    IF Len(a) < 2 THEN Fail(C)
    ELSE LET ks == SKeySeq(a, 2, Len(a)) IN
         IF SAnyWrong(C, ks) THEN Fail(C) ELSE Res(C.S, SBag(SUnionOf(C, ks)))

XSUnionStore(C, a) ==
    IF Len(a) < 3 THEN Fail(C)
    ELSE LET ks == SKeySeq(a, 3, Len(a)) IN
         IF SAnyWrong(C, ks) THEN Fail(C) ELSE SStore(C, a[2].s, SUnionOf(C, ks))

XSInter(C, a) ==
    IF Len(a) < 2 THEN Fail(C)
    ELSE LET ks == SKeySeq(a, 2, Len(a)) IN
         IF SAnyWrong(C, ks) THEN Fail(C) ELSE Res(C.S, SBag(SInterOf(C, ks)))

XSInterStore(C, a) ==
    IF Len(a) < 3 THEN Fail(C)
    ELSE LET ks == SKeySeq(a, 3, Len(a)) IN
         IF SAnyWrong(C, ks) THEN Fail(C) ELSE SStore(C, a[2].s, SInterOf(C, ks))

(***************************************************************************)
(* SINTERCARD key [key ...] [LIMIT limit]                                  *)
(* as-code syntax: the keys are the arguments before the first LIMIT       *)
(* keyword (any case); LIMIT in first position, LIMIT without a value or   *)
(* with a non-integer value is an error; whatever follows the limit value  *)
(* is ignored.  A limit <= 0 means no limit.                               *)
(***************************************************************************)
SLimitPos(a) == IF \E i \in 2..Len(a) : KW(a[i]) = "LIMIT"
                THEN CHOOSE i \in 2..Len(a) : KW(a[i]) = "LIMIT" /\ \A j \in 2..(i - 1) : KW(a[j]) # "LIMIT"
                ELSE 0

XSInterCard(C, a) ==
    IF Len(a) < 2 THEN Fail(C)
    ELSE LET p == SLimitPos(a) IN
         IF p = 2 THEN Fail(C)
         ELSE IF p # 0 /\ p = Len(a) THEN Fail(C)
         ELSE IF p # 0 /\ SNumKind(a[p + 1]) = "skip" THEN Skip(C)
         ELSE IF p # 0 /\ SNumKind(a[p + 1]) = "bad" THEN Fail(C)
         ELSE LET ks  == SKeySeq(a, 2, IF p = 0 THEN Len(a) ELSE p - 1)
                  lim == IF p = 0 THEN 0 ELSE SNum(a[p + 1])
              IN IF SAnyWrong(C, ks) THEN Fail(C)
                 ELSE LET n == Cardinality(SInterOf(C, ks)) IN
                      Res(C.S, RInt(IF lim > 0 /\ n > lim THEN lim ELSE n))

(***************************************************************************)
(* SDIFF key [key ...] / SDIFFSTORE destination key [key ...]              *)
(* Reference: members of the first set that are in none of the others; an  *)
(* absent key is the empty set, a non-set key is an error.                 *)
(* Deviations of the implementation (both pinned by its own tests):        *)
(*   SDiffBaseAbsent  an absent FIRST key is an error instead of the empty *)
(*                    set (nothing is stored by SDIFFSTORE)                *)
(*   SDiffSkipNonSet  a non-set key in second or later position is skipped *)
(*                    instead of failing the command                       *)
(***************************************************************************)
SDiffErr(C, ks) ==
    \/ SWrong(C, ks[1])
    \/ ~Live(C, ks[1]) /\ Dev(C, "SDiffBaseAbsent")
    \/ (\E i \in 2..Len(ks) : SWrong(C, ks[i])) /\ ~Dev(C, "SDiffSkipNonSet")

XSDiff(C, a) ==
    IF Len(a) < 2 THEN Fail(C)
    ELSE LET ks == SKeySeq(a, 2, Len(a)) IN
         IF SDiffErr(C, ks) THEN Fail(C) ELSE Res(C.S, SBag(SDiffOf(C, ks)))

XSDiffStore(C, a) ==
    IF Len(a) < 3 THEN Fail(C)
    ELSE LET ks == SKeySeq(a, 3, Len(a)) IN
         IF SDiffErr(C, ks) THEN Fail(C) ELSE SStore(C, a[2].s, SDiffOf(C, ks))

----------------------------------------------------------------------------
\* SMOVE source destination member.
\* as-code: an absent source replies 0 before the destination is looked at.
\* An absent destination is created when the member is moved.

XSMove(C, a) ==
    IF Len(a) # 4 THEN Fail(C)
    ELSE LET src == a[2].s   dst == a[3].s   m == TokBytes(a[4]) IN
         IF ~Live(C, src) THEN Res(C.S, RInt(0))
         ELSE IF SWrong(C, src) \/ SWrong(C, dst) THEN Fail(C)
         ELSE IF ~(m \in SMem(C, src)) THEN Res(C.S, RInt(0))
         ELSE IF src = dst THEN Res(C.S, RInt(1))
         ELSE LET S1 == SetVal(C.S, C.now, C.db, src, VSet(SMem(C, src) \ {m}))
                  S2 == SetVal(S1, C.now, C.db, dst, VSet(SMem(C, dst) \cup {m}))
              IN Res(S2, RInt(1))

(***************************************************************************)
(* SPOP key [count] / SRANDMEMBER key [count]                              *)
(* as-code: the reply is always an array (also without count, where the    *)
(* count is 1); an absent key replies nil; the count is validated before   *)
(* the key is looked at.                                                   *)
(* Size of a legal selection from a set of n members:                      *)
(*    count >= 0 : min(count, n) distinct members                          *)
(*    count <  0 : |count| members, repetitions allowed (0 when n = 0)     *)
(* as-code: SPOP accepts a negative count like SRANDMEMBER and removes the *)
(* members selected.                                                       *)
(***************************************************************************)
SSelSize(cnt, n) == IF cnt >= 0 THEN Min2(cnt, n) ELSE IF n = 0 THEN 0 ELSE -cnt

SLegalSel(g, s, cnt) ==
    /\ g.t = "arr"
    /\ Len(g.a) = SSelSize(cnt, Cardinality(s))
    /\ \A i \in 1..Len(g.a) : g.a[i].t = "bulk" /\ g.a[i].b \in s
    /\ cnt > 0 => \A i, j \in 1..Len(g.a) : i # j => g.a[i].b # g.a[j].b

SSelReply(g) == RArr([i \in 1..Len(g.a) |-> RStr(g.a[i].b)])

XSRandom(C, a, g, pop) ==
    IF Len(a) < 2 \/ Len(a) > 3 THEN Fail(C)
    ELSE IF Len(a) = 3 /\ SNumKind(a[3]) = "skip" THEN Skip(C)
    ELSE IF Len(a) = 3 /\ SNumKind(a[3]) = "bad" THEN Fail(C)
    ELSE LET k == a[2].s   cnt == IF Len(a) = 3 THEN SNum(a[3]) ELSE 1 IN
         IF ~Live(C, k) THEN Res(C.S, RNil)
         ELSE IF SWrong(C, k) THEN Fail(C)
         ELSE LET s == SMem(C, k) IN
              IF ~SLegalSel(g, s, cnt) THEN Res(C.S, SNoMatch)
              ELSE LET picked == {g.a[i].b : i \in 1..Len(g.a)} IN
                   Res(IF pop THEN Write(C, k, VSet(s \ picked)) ELSE C.S, SSelReply(g))

----------------------------------------------------------------------------

ExecSet(C, a, g) ==
    LET op == a[1].s IN
    CASE op = "SADD"        -> XSAdd(C, a)
      [] op = "SCARD"       -> XSCard(C, a)
      [] op = "SDIFF"       -> XSDiff(C, a)
      [] op = "SDIFFSTORE"  -> XSDiffStore(C, a)
      [] op = "SINTER"      -> XSInter(C, a)
      [] op = "SINTERCARD"  -> XSInterCard(C, a)
      [] op = "SINTERSTORE" -> XSInterStore(C, a)
      [] op = "SISMEMBER"   -> XSIsMember(C, a)
      [] op = "SMEMBERS"    -> XSMembers(C, a)
      [] op = "SMISMEMBER"  -> XSMIsMember(C, a)
      [] op = "SMOVE"       -> XSMove(C, a)
      [] op = "SPOP"        -> XSRandom(C, a, g, TRUE)
      [] op = "SRANDMEMBER" -> XSRandom(C, a, g, FALSE)
      [] op = "SREM"        -> XSRem(C, a)
      [] op = "SUNION"      -> XSUnion(C, a)
      [] op = "SUNIONSTORE" -> XSUnionStore(C, a)

SetDevs(a) ==
    IF a[1].s \in {"SDIFF", "SDIFFSTORE"} THEN {"SDiffBaseAbsent", "SDiffSkipNonSet"} ELSE {}

=============================================================================
