------------------------------- MODULE Persist -------------------------------
(***************************************************************************)
(* The append-only log, its rewrite (compaction) and crash/recovery, at    *)
(* the granularity of file operations - one action per instrumented        *)
(* operation of internal/aof (the same names appear as "fop" events in     *)
(* traces and are checked against this step structure by Trace_Persist).   *)
(*                                                                         *)
(* The dataset is abstracted to the sequence of write commands applied     *)
(* (commands are not idempotent: applying one twice, or skipping one, is   *)
(* visible).  mem is the server's dataset, pre the preamble file, log the  *)
(* log file (synced = length known to be on stable storage).               *)
(*                                                                         *)
(* Atomic = TRUE is the reference design (preamble and log are replaced in *)
(* one atomic step); Atomic = FALSE is what the code does today (open      *)
(* finding RewriteNotAtomic): TLC reports ImageOK violated at              *)
(* RwPreTruncate / RwPreWrite, the windows the trace check sees on the     *)
(* real files.                                                             *)
(***************************************************************************)
EXTENDS Integers, Sequences, FiniteSets, SequencesExt

CONSTANTS MaxCmds, MaxRewrites, MaxCrashes, Strategy, Atomic

VARIABLES mem, acked, nexec, pre, log, synced, wpc, rpc, rwsnap, rwmark, nrw, ncrash, up
vars == <<mem, acked, nexec, pre, log, synced, wpc, rpc, rwsnap, rwmark, nrw, ncrash, up>>

\* the command sequence the clients have executed so far is <<1, 2, ..., nexec>>
Executed == [i \in 1..nexec |-> i]
PrefixOf(p) == [i \in 1..p |-> i]

Init == /\ mem = <<>> /\ acked = 0 /\ nexec = 0 /\ pre = <<>> /\ log = <<>> /\ synced = 0
        /\ wpc = "idle" /\ rpc = "idle" /\ rwsnap = <<>> /\ rwmark = 0 /\ nrw = 0 /\ ncrash = 0 /\ up = TRUE

----------------------------------------------------------------------------
\* the writer: handler, then LogCommand (write, sync under "always"), then the reply
WHandle == /\ up /\ wpc = "idle" /\ nexec < MaxCmds
           /\ nexec' = nexec + 1 /\ mem' = Append(mem, nexec + 1) /\ wpc' = "handled"
           /\ UNCHANGED <<acked, pre, log, synced, rpc, rwsnap, rwmark, nrw, ncrash, up>>

WLogWrite == /\ up /\ wpc = "handled"
             /\ log' = Append(log, nexec) /\ wpc' = "written"
             /\ UNCHANGED <<mem, acked, nexec, pre, synced, rpc, rwsnap, rwmark, nrw, ncrash, up>>

WLogSync == /\ up /\ wpc = "written" /\ Strategy = "always"
            /\ synced' = Len(log) /\ wpc' = "synced"
            /\ UNCHANGED <<mem, acked, nexec, pre, log, rpc, rwsnap, rwmark, nrw, ncrash, up>>

WAck == /\ up /\ wpc = (IF Strategy = "always" THEN "synced" ELSE "written")
        /\ acked' = nexec /\ wpc' = "idle"
        /\ UNCHANGED <<mem, nexec, pre, log, synced, rpc, rwsnap, rwmark, nrw, ncrash, up>>

\* the every-second syncer
EverysecSync == /\ up /\ Strategy = "everysec" /\ synced < Len(log)
                /\ synced' = Len(log)
                /\ UNCHANGED <<mem, acked, nexec, pre, log, wpc, rpc, rwsnap, rwmark, nrw, ncrash, up>>

----------------------------------------------------------------------------
\* the rewrite.  In the code the command table holds a flag while a write command runs, and the
\* state copy waits for it: RwCopy is only enabled between commands.
RwCopy == /\ up /\ rpc = "idle" /\ wpc = "idle" /\ nrw < MaxRewrites
          /\ rwsnap' = mem /\ rwmark' = Len(log) /\ rpc' = "copied" /\ nrw' = nrw + 1
          /\ UNCHANGED <<mem, acked, nexec, pre, log, synced, wpc, ncrash, up>>

\* reference design: the new preamble and the log *minus what the preamble already contains*
\* become visible together; records logged since the copy are carried over
RwSwapAtomic == /\ up /\ Atomic /\ rpc = "copied" /\ wpc \in {"idle", "handled"}
                /\ pre' = rwsnap /\ log' = SubSeq(log, rwmark + 1, Len(log))
                /\ synced' = (IF synced > rwmark THEN synced - rwmark ELSE 0) /\ rpc' = "idle"
                /\ UNCHANGED <<mem, acked, nexec, wpc, rwsnap, rwmark, nrw, ncrash, up>>

\* the code: truncate preamble, write it, sync it, truncate the log, sync it
RwPreTruncate == /\ up /\ ~Atomic /\ rpc = "copied" /\ pre' = <<>> /\ rpc' = "pretrunc"
                 /\ UNCHANGED <<mem, acked, nexec, log, synced, wpc, rwsnap, rwmark, nrw, ncrash, up>>
RwPreWrite    == /\ up /\ ~Atomic /\ rpc = "pretrunc" /\ pre' = rwsnap /\ rpc' = "prewritten"
                 /\ UNCHANGED <<mem, acked, nexec, log, synced, wpc, rwsnap, rwmark, nrw, ncrash, up>>
RwPreSync     == /\ up /\ ~Atomic /\ rpc = "prewritten" /\ rpc' = "presynced"
                 /\ UNCHANGED <<mem, acked, nexec, pre, log, synced, wpc, rwsnap, rwmark, nrw, ncrash, up>>
RwLogTruncate == /\ up /\ ~Atomic /\ rpc = "presynced" /\ wpc \in {"idle", "handled"}
                 /\ log' = <<>> /\ synced' = 0 /\ rpc' = "idle"
                 /\ UNCHANGED <<mem, acked, nexec, pre, wpc, rwsnap, rwmark, nrw, ncrash, up>>

----------------------------------------------------------------------------
\* Crash: the process dies; of the unsynced suffix of the log any prefix survives (all of it =
\* process death, none = power loss, in between = torn tail which recovery cuts off).
Crash(keep) == /\ up /\ ncrash < MaxCrashes /\ keep \in synced..Len(log)
               /\ log' = SubSeq(log, 1, keep) /\ synced' = keep
               /\ up' = FALSE /\ ncrash' = ncrash + 1
               /\ wpc' = "idle" /\ rpc' = "idle"
               /\ UNCHANGED <<mem, acked, nexec, pre, rwsnap, rwmark, nrw>>

\* Recover: preamble, then the log on top.  What was executed but not recovered is gone: the
\* clients' history is cut back to what the server now holds.
Recover == /\ ~up
           /\ mem' = pre \o log /\ up' = TRUE
           /\ nexec' = Len(pre \o log)
           /\ acked' = IF acked < Len(pre \o log) THEN acked ELSE Len(pre \o log)
           /\ UNCHANGED <<pre, log, synced, wpc, rpc, rwsnap, rwmark, nrw, ncrash>>

Next == WHandle \/ WLogWrite \/ WLogSync \/ WAck \/ EverysecSync
        \/ RwCopy \/ RwSwapAtomic \/ RwPreTruncate \/ RwPreWrite \/ RwPreSync \/ RwLogTruncate
        \/ (\E k \in 0..MaxCmds : Crash(k)) \/ Recover

Spec == Init /\ [][Next]_vars

----------------------------------------------------------------------------
\* what a restore would produce from the files as they are now, if only `keep` log records survive
Image(keep) == pre \o SubSeq(log, 1, keep)

\* C02/C09: at every instant, restoring yields the state after a prefix of the executed writes
\* that contains every acknowledged write (process death: the whole file; power loss: any
\* surviving length from `synced` on, the acknowledged ones being guaranteed only under "always")
ImageOK ==
    up =>
    /\ \E p \in acked..nexec : Image(Len(log)) = PrefixOf(p)
    /\ \A keep \in synced..Len(log) :
          \E p \in (IF Strategy = "always" THEN acked ELSE 0)..nexec : Image(keep) = PrefixOf(p)

\* after recovery the server holds exactly what the files say (durable again follows from ImageOK
\* holding in the states after Recover)
RecoverExact == [][(~up /\ up') => mem' = pre \o log]_vars

\* the live dataset is always the executed prefix (no command lost or applied twice while up),
\* except that a crash may have cut the history back
MemIsPrefix == up => \E p \in 0..nexec : mem = PrefixOf(p)

TypeOK == /\ acked <= nexec /\ synced <= Len(log) /\ wpc \in {"idle", "handled", "written", "synced"}
          /\ rpc \in {"idle", "copied", "pretrunc", "prewritten", "presynced"}

=============================================================================
