----------------------------- MODULE CmdGeneric -----------------------------
(***************************************************************************)
(* Semantics of the generic (key/value, counter, expiry) commands.         *)
(* internal/modules/generic/commands.go.  Each operator takes the context  *)
(* C and the token sequence a (a[1] is the command name) and returns       *)
(* [S |-> next store, r |-> reply, rel |-> "eq" | "skip" | ...].           *)
(* Reference decisions are listed in spec/DECISIONS.md.                    *)
(***************************************************************************)
EXTENDS CmdBase

----------------------------------------------------------------------------
\* SET key value [NX | XX] [GET] [EX s | PX ms | EXAT t | PXAT t]   (options in any order)

NoOpts == [err |-> FALSE, ex |-> "", get |-> FALSE, hasexp |-> FALSE, exp |-> NoD, skip |-> FALSE]
OptErr == [NoOpts EXCEPT !.err = TRUE]

\* deadline denoted by an expiry option and its argument token
RelTimeOk(t)  == IntArgOk(t)
AbsTimeOk(t)  == IsAtT(t)
DeadlineOf(C, kw, t) ==
    CASE kw = "EX"   -> C.now + 1000 * IntArg(t)
      [] kw = "PX"   -> C.now + IntArg(t)
      [] kw = "EXAT" -> (t.at \div 1000) * 1000
      [] kw = "PXAT" -> t.at

RECURSIVE SetOpts(_, _, _)
SetOpts(C, toks, o) ==
    IF toks = <<>> THEN o
    ELSE LET kw == KW(toks[1]) IN
         CASE kw = "GET" -> SetOpts(C, Tail(toks), [o EXCEPT !.get = TRUE])
           [] kw \in {"NX", "XX"} ->
                IF o.ex # "" THEN OptErr ELSE SetOpts(C, Tail(toks), [o EXCEPT !.ex = kw])
           [] kw \in {"EX", "PX", "EXAT", "PXAT"} ->
                IF Len(toks) < 2 THEN OptErr
                ELSE IF o.hasexp THEN OptErr
                ELSE IF kw \in {"EX", "PX"} /\ IsAtT(toks[2]) THEN [o EXCEPT !.skip = TRUE]
                ELSE IF kw \in {"EXAT", "PXAT"} /\ IntArgOk(toks[2]) THEN [o EXCEPT !.skip = TRUE]
                ELSE IF kw \in {"EX", "PX"} /\ ~RelTimeOk(toks[2]) THEN OptErr
                ELSE IF kw \in {"EXAT", "PXAT"} /\ ~AbsTimeOk(toks[2]) THEN OptErr
                ELSE SetOpts(C, SubSeq(toks, 3, Len(toks)),
                             [o EXCEPT !.hasexp = TRUE, !.exp = DeadlineOf(C, kw, toks[2])])
           [] OTHER -> OptErr

XSet(C, a) ==
    IF Len(a) < 3 \/ Len(a) > 7 THEN Fail(C)
    ELSE LET k    == a[2].s
             v    == TokBytes(a[3])
             o    == SetOpts(C, SubSeq(a, 4, Len(a)), NoOpts)
             live == Live(C, k)
         IN IF o.skip THEN Skip(C)
            ELSE IF o.err THEN Fail(C)
            ELSE IF o.get /\ live /\ ~IsScalar(ValOf(C, k)) THEN Fail(C)
            ELSE IF o.ex = "XX" /\ ~live THEN Fail(C)
            ELSE IF o.ex = "NX" /\ live THEN Fail(C)
            ELSE IF Unmodelled(v) THEN Skip(C)
            ELSE LET S1 == Write(C, k, Typed(v, C.D))
                     S2 == IF o.hasexp THEN SetD(S1, C.db, k, o.exp) ELSE S1
                 IN Res(S2, IF o.get THEN (IF live THEN RStr(Render(ValOf(C, k))) ELSE RNil) ELSE ROk)

----------------------------------------------------------------------------
\* MSET key value [key value ...]

RECURSIVE MSetFold(_, _, _)
MSetFold(C, S, toks) ==
    IF toks = <<>> THEN S
    ELSE MSetFold(C, SetVal(S, C.now, C.db, toks[1].s, Typed(TokBytes(toks[2]), C.D)),
                  SubSeq(toks, 3, Len(toks)))

XMSet(C, a) ==
    IF (Len(a) - 1) % 2 # 0 THEN Fail(C)
    ELSE IF \E i \in 2..Len(a) : i % 2 = 1 /\ Unmodelled(TokBytes(a[i])) THEN Skip(C)
    ELSE Res(MSetFold(C, C.S, Tail(a)), ROk)

----------------------------------------------------------------------------
\* GET / MGET / GETDEL / GETEX / TYPE

XGet(C, a) ==
    IF Len(a) # 2 THEN Fail(C)
    ELSE LET k == a[2].s IN
         IF ~Live(C, k) THEN Res(C.S, RNil)
         ELSE IF ~IsScalar(ValOf(C, k)) THEN Fail(C)
         ELSE Res(C.S, RStr(Render(ValOf(C, k))))

\* MGET on a key holding a collection is outside the model (the implementation prints the Go
\* value; see known finding MGetWrongType)
XMGet(C, a) ==
    IF Len(a) < 2 THEN Fail(C)
    ELSE IF \E i \in 2..Len(a) : Live(C, a[i].s) /\ ~IsScalar(ValOf(C, a[i].s)) THEN Skip(C)
    ELSE Res(C.S, RArr([i \in 1..(Len(a) - 1) |->
                         IF Live(C, a[i + 1].s) THEN RStr(Render(ValOf(C, a[i + 1].s))) ELSE RNil]))

XGetDel(C, a) ==
    IF Len(a) # 2 THEN Fail(C)
    ELSE LET k == a[2].s IN
         IF ~Live(C, k) THEN Res(C.S, RNil)
         ELSE IF ~IsScalar(ValOf(C, k)) THEN Fail(C)
         ELSE Res(Del(C.S, C.db, k), RStr(Render(ValOf(C, k))))

XGetEx(C, a) ==
    IF Len(a) < 2 \/ Len(a) > 4 THEN Fail(C)
    ELSE LET k == a[2].s IN
         IF ~Live(C, k) THEN Res(C.S, RNil)
         ELSE IF ~IsScalar(ValOf(C, k)) THEN Fail(C)
         ELSE LET r == RStr(Render(ValOf(C, k))) IN
              IF Len(a) = 2 THEN Res(C.S, r)
              ELSE LET kw == KW(a[3]) IN
                   IF kw = "PERSIST" THEN Res(SetD(C.S, C.db, k, NoD), r)
                   ELSE IF Len(a) = 3 THEN Res(C.S, r)           \* option without a time: ignored
                   ELSE IF kw \in {"EX", "PX"} /\ IsAtT(a[4]) THEN Skip(C)
                   ELSE IF kw \in {"EXAT", "PXAT"} /\ IntArgOk(a[4]) THEN Skip(C)
                   ELSE IF kw \in {"EX", "PX"} /\ RelTimeOk(a[4])
                        THEN Res(SetD(C.S, C.db, k, DeadlineOf(C, kw, a[4])), r)
                   ELSE IF kw \in {"EXAT", "PXAT"} /\ AbsTimeOk(a[4])
                        THEN Res(SetD(C.S, C.db, k, DeadlineOf(C, kw, a[4])), r)
                   ELSE Fail(C)

TypeBytes(v) == CASE v.k = "str"  -> <<115, 116, 114, 105, 110, 103>>
                  [] v.k = "int"  -> <<105, 110, 116, 101, 103, 101, 114>>
                  [] v.k = "flt"  -> <<102, 108, 111, 97, 116>>
                  [] v.k = "list" -> <<108, 105, 115, 116>>
                  [] v.k = "hash" -> <<104, 97, 115, 104>>
                  [] v.k = "set"  -> <<115, 101, 116>>
                  [] v.k = "zset" -> <<122, 115, 101, 116>>

XType(C, a) ==
    IF Len(a) # 2 THEN Fail(C)
    ELSE IF ~Live(C, a[2].s) THEN Fail(C)          \* as-code: TYPE of a missing key is an error
    ELSE Res(C.S, RStr(TypeBytes(ValOf(C, a[2].s))))

----------------------------------------------------------------------------
\* DEL key [key ...]

XDel(C, a) ==
    IF Len(a) < 2 THEN Fail(C)
    ELSE LET ks == {a[i].s : i \in 2..Len(a)}
             dl == {k \in ks : Live(C, k)}
         IN Res([x \in {y \in DOMAIN C.S : ~(y[1] = C.db /\ y[2] \in dl)} |-> C.S[x]],
                RInt(Cardinality(dl)))

----------------------------------------------------------------------------
\* expiry commands

XPersist(C, a) ==
    IF Len(a) # 2 THEN Fail(C)
    ELSE LET k == a[2].s IN
         IF ~Live(C, k) THEN Res(C.S, RInt(0))
         ELSE IF EntOf(C, k).d = NoD THEN Res(C.S, RInt(0))
         ELSE Res(SetD(C.S, C.db, k, NoD), RInt(1))

\* EXPIRETIME / PEXPIRETIME  (the harness reports the reply relative to the epoch)
XExpireTime(C, a, ms) ==
    IF Len(a) # 2 THEN Fail(C)
    ELSE LET k == a[2].s IN
         IF ~Live(C, k) THEN Res(C.S, RInt(-2))
         ELSE IF EntOf(C, k).d = NoD THEN Res(C.S, RInt(-1))
         ELSE Res(C.S, RInt(IF ms THEN EntOf(C, k).d ELSE EntOf(C, k).d \div 1000))

\* TTL / PTTL.  as-code: TTL is the difference of the two truncated second counts.
XTtl(C, a, ms) ==
    IF Len(a) # 2 THEN Fail(C)
    ELSE LET k == a[2].s IN
         IF ~Live(C, k) THEN Res(C.S, RInt(-2))
         ELSE IF EntOf(C, k).d = NoD THEN Res(C.S, RInt(-1))
         ELSE LET d == EntOf(C, k).d
                  t == IF ms THEN d - C.now ELSE (d \div 1000) - (C.now \div 1000)
              IN Res(C.S, RInt(IF t <= 0 THEN 0 ELSE t))

\* EXPIRE / PEXPIRE / EXPIREAT / PEXPIREAT key time [NX | XX | GT | LT]
XExpire(C, a, kind) ==
    IF Len(a) < 3 \/ Len(a) > 4 THEN Fail(C)
    ELSE LET k   == a[2].s
             rel == kind \in {"EX", "PX"}
         IN IF rel /\ IsAtT(a[3]) THEN Skip(C)
            ELSE IF ~rel /\ IntArgOk(a[3]) THEN Skip(C)
            ELSE IF rel /\ ~RelTimeOk(a[3]) THEN Fail(C)
            ELSE IF ~rel /\ ~AbsTimeOk(a[3]) THEN Fail(C)
            ELSE IF ~Live(C, k) THEN Res(C.S, RInt(0))
            ELSE LET new == DeadlineOf(C, IF rel THEN kind ELSE (IF kind = "EXAT" THEN "EXAT" ELSE "PXAT"), a[3])
                     cur == EntOf(C, k).d
                     set == Res(SetD(C.S, C.db, k, new), RInt(1))
                     no  == Res(C.S, RInt(0))
                 IN IF Len(a) = 3 THEN set
                    ELSE LET kw == KW(a[4]) IN
                         CASE kw = "NX" -> IF cur # NoD THEN no ELSE set
                           [] kw = "XX" -> IF cur = NoD THEN no ELSE set
                           [] kw = "GT" -> IF cur = NoD \/ new < cur THEN no ELSE set
                           [] kw = "LT" -> IF cur # NoD /\ cur < new THEN no ELSE set
                           [] OTHER -> Fail(C)

----------------------------------------------------------------------------
\* counters.  The new value is stored as a (Go) string holding the decimal text.

CurIntOk(v) == (v.k = "str" /\ IsParseInt(v.b)) \/ v.k = "int"
CurInt(v)   == IF v.k = "int" THEN v.n ELSE ParseIntVal(v.b)

IncrBy(C, k, delta) ==
    IF ~Live(C, k) THEN Res(Write(C, k, VStr(Dec(delta))), RInt(delta))
    ELSE IF ValOf(C, k).k = "str" /\ Unmodelled(ValOf(C, k).b) THEN Skip(C)
    ELSE IF ~CurIntOk(ValOf(C, k)) THEN Fail(C)
    ELSE LET n == CurInt(ValOf(C, k)) + delta IN Res(Write(C, k, VStr(Dec(n))), RInt(n))

XIncr(C, a, sign) == IF Len(a) # 2 THEN Fail(C) ELSE IncrBy(C, a[2].s, sign)

XIncrBy(C, a, sign) ==
    IF Len(a) # 3 THEN Fail(C)
    ELSE IF ~IntArgOk(a[3]) THEN Fail(C)
    ELSE IncrBy(C, a[2].s, sign * IntArg(a[3]))

XIncrByFloat(C, a) ==
    IF Len(a) # 3 THEN Fail(C)
    ELSE IF IsQT(a[3]) /\ a[3].inf # 0 THEN Skip(C)
    ELSE IF IsBytesT(a[3]) /\ Unmodelled(a[3].b) THEN Skip(C)
    ELSE IF ~FltArgOk(a[3]) THEN Fail(C)
    ELSE LET k == a[2].s   f == FltArg(a[3]) IN
         IF ~Live(C, k) THEN Res(Write(C, k, VStr(FmtQ(f))), RStr(FmtQ(f)))
         ELSE LET v == ValOf(C, k) IN
              IF v.k = "str" /\ Unmodelled(v.b) THEN Skip(C)
              ELSE IF v.k = "flt" /\ v.inf # 0 THEN Skip(C)
              ELSE IF ~(v.k \in {"int", "flt"} \/ (v.k = "str" /\ IsLooseNum(v.b))) THEN Fail(C)
              ELSE LET cur == CASE v.k = "int" -> 4 * v.n [] v.k = "flt" -> v.q [] OTHER -> LooseNum(v.b).q
                       n   == cur + f
                   IN Res(Write(C, k, VStr(FmtQ(n))), RStr(FmtQ(n)))

----------------------------------------------------------------------------
\* RENAME key newkey : value and deadline move; renaming a key to itself changes nothing

XRename(C, a) ==
    IF Len(a) # 3 THEN Fail(C)
    ELSE LET k == a[2].s   n == a[3].s IN
         IF ~Live(C, k) THEN Fail(C)
         ELSE IF k = n THEN Res(C.S, ROk)
         ELSE Res(Del(Put(C.S, C.db, n, EntOf(C, k)), C.db, k), ROk)

----------------------------------------------------------------------------
\* FLUSHDB / FLUSHALL

XFlush(C, a, all) ==
    IF Len(a) # 1 THEN Fail(C)
    ELSE Res(IF all THEN EmptyStore ELSE DropDb(C.S, C.db), ROk)


\* RANDOMKEY : some key of the selected database that a reader can see (one that is live at now); the
\* choice is read off the logged reply g (g.s: the key as the harness decoded it).  as-code: the reply is a simple string, and the empty simple
\* string when there is no such key.
LiveKeys(C) == {x[2] : x \in {y \in DOMAIN C.S : y[1] = C.db /\ LiveEnt(C.S[y], C.now)}}
XRandomKey(C, a, g) ==
    \* as-code: extra arguments are ignored (no arity check)
    IF LiveKeys(C) = {} THEN Res(C.S, RStr(<<>>))
    ELSE IF g.t \in {"simple", "bulk"} /\ "s" \in DOMAIN g /\ g.s \in LiveKeys(C) THEN Res(C.S, RStr(g.b))
    ELSE Res(C.S, [t |-> "nomatch"])

\* TOUCH key [key ...] : the number of the named keys a reader can see (an argument given twice counts
\* twice); nothing in the dataset changes.  as-code: the reply is a simple string carrying the decimal count.
XTouch(C, a) ==
    IF Len(a) < 2 THEN Fail(C)
    ELSE Res(C.S, RStr(Dec(Cardinality({i \in 2..Len(a) : Live(C, a[i].s)}))))

\* SWAPDB a b : the two databases exchange their contents (keys, values, deadlines) - for every caller.
\* Indices are non-negative integers (tokens of kind i); anything else is an error that changes nothing.
\* Deviation SwapDbConnsOnly (the code): the handler renumbers the TCP connections currently on a or b and
\* leaves the data where it is - a caller that is not such a connection (the embedded API, a new or
\* re-SELECTing connection, a restart) sees no exchange at all.
\* decimal name of a database index (the store is keyed by the name the projection uses)
RECURSIVE DbName(_)
DbName(i) == IF i < 10 THEN <<"0", "1", "2", "3", "4", "5", "6", "7", "8", "9">>[i + 1]
             ELSE DbName(i \div 10) \o DbName(i % 10)
XSwapDb(C, a) ==
    IF Len(a) # 3 THEN Fail(C)
    ELSE IF ~(IsIntT(a[2]) /\ IsIntT(a[3])) THEN Fail(C)
    ELSE IF a[2].i < 0 \/ a[3].i < 0 THEN Fail(C)
    ELSE IF Dev(C, "SwapDbConnsOnly") THEN Res(C.S, ROk)
    ELSE LET d1 == DbName(a[2].i)   d2 == DbName(a[3].i)
             sw(d) == IF d = d1 THEN d2 ELSE IF d = d2 THEN d1 ELSE d
         IN Res([x \in {<<sw(y[1]), y[2]>> : y \in DOMAIN C.S} |-> C.S[<<sw(x[1]), x[2]>>]], ROk)

=============================================================================
