-------------------------------- MODULE Wire --------------------------------
(***************************************************************************)
(* C12: the connection read loop.  A client sends a stream of RESP frames  *)
(* cut into writes at arbitrary places; the server reads what is available *)
(* (at most ChunkSize units at a time), and must answer every complete     *)
(* frame exactly once, in order, whatever the segmentation.                *)
(*                                                                         *)
(* Frames are abstract: frame i has length Size[Kinds[i]] "units"; the     *)
(* stream is the concatenation.  Framed = TRUE is the reference (and the   *)
(* code after the repair): a persistent reader consumes complete frames    *)
(* from its buffer.  Framed = FALSE is the original loop: every read is    *)
(* handed to the command handler, which decodes only the first frame in it *)
(* - TLC shows OneReplyEach violated for pipelined and for split frames.   *)
(***************************************************************************)
EXTENDS Integers, Sequences, FiniteSets, TLC, Json

CONSTANTS Kinds,        \* set of frame kinds
          Size(_),      \* length of a frame of that kind, in units
          MaxFrames, ChunkSize, Framed

VARIABLES frames, cuts, sent, buf, replies, phase
vars == <<frames, cuts, sent, buf, replies, phase>>

\* total length and frame boundaries of the stream
RECURSIVE Total(_)
Total(fs) == IF fs = <<>> THEN 0 ELSE Size(Head(fs)) + Total(Tail(fs))
EndOf(fs, i) == Total(SubSeq(fs, 1, i))

Init == /\ frames \in UNION {[1..n -> Kinds] : n \in 1..MaxFrames}
        /\ cuts \in SUBSET (1..(Total(frames) - 1))      \* where the client splits its writes
        /\ sent = 0 /\ buf = <<0, 0>> /\ replies = <<>> /\ phase = "run"

\* buf = <<start, end>>: stream positions the server holds unparsed (reference) / got in its last read (code)

NextCut == LET later == {c \in cuts \cup {Total(frames)} : c > sent} IN
           CHOOSE c \in later : \A d \in later : c <= d

ClientWrite == /\ phase = "run" /\ sent < Total(frames) /\ buf[2] = sent      \* pipe: the previous write has been read
               /\ sent' = NextCut
               /\ UNCHANGED <<frames, cuts, buf, replies, phase>>

\* the server reads up to ChunkSize units of what has been written
ServerRead == /\ phase = "run" /\ buf[2] < sent
              /\ \E n \in 1..ChunkSize :
                    /\ buf[2] + n <= sent
                    /\ (n = ChunkSize \/ buf[2] + n = sent)              \* a read returns what is available
                    /\ IF Framed
                       THEN buf' = <<buf[1], buf[2] + n>> /\ UNCHANGED replies
                       ELSE \* original loop: the read is the "message"; only a frame that starts at its
                            \* beginning and ends inside it is decoded; anything else is an error reply
                            LET a == buf[2]   b == buf[2] + n
                                starts == {i \in 1..Len(frames) : EndOf(frames, i - 1) = a}
                            IN /\ buf' = <<b, b>>
                               /\ replies' = IF starts # {} /\ EndOf(frames, CHOOSE i \in starts : TRUE) <= b
                                             THEN Append(replies, CHOOSE i \in starts : TRUE)
                                             ELSE Append(replies, 0)
              /\ UNCHANGED <<frames, cuts, sent, phase>>

\* reference: a complete frame at the head of the buffer is answered
ServerParse == /\ Framed /\ phase = "run"
               /\ \E i \in 1..Len(frames) :
                     /\ EndOf(frames, i - 1) = buf[1] /\ EndOf(frames, i) <= buf[2]
                     /\ replies' = Append(replies, i) /\ buf' = <<EndOf(frames, i), buf[2]>>
               /\ UNCHANGED <<frames, cuts, sent, phase>>

Finish == /\ phase = "run" /\ sent = Total(frames) /\ buf[2] = sent
          /\ (Framed => buf[1] = buf[2])
          /\ phase' = "done" /\ UNCHANGED <<frames, cuts, sent, buf, replies>>

Next == ClientWrite \/ ServerRead \/ ServerParse \/ Finish
Spec == Init /\ [][Next]_vars

\* every complete frame is answered exactly once, in order, for every segmentation
OneReplyEach == phase = "done" => replies = [i \in 1..Len(frames) |-> i]

\* replies never run ahead of, or reorder, the frames
PrefixOnly == \A i \in 1..Len(replies) : replies[i] = i \/ ~Framed

Export == phase = "done" => PrintT(<<"BEH", ToJson([frames |-> frames, cuts |-> cuts])>>)
=============================================================================
