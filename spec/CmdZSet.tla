------------------------------ MODULE CmdZSet ------------------------------
(* placeholder: semantics of the zset commands (to be written) *)
EXTENDS CmdBase

ZSetOps == {}
ExecZSet(C, a, g) == Skip(C)
ZSetDevs(a) == {}

=============================================================================
