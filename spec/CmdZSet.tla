------------------------------ MODULE CmdZSet ------------------------------
(***************************************************************************)
(* Semantics of the 25 sorted-set commands.                                *)
(* internal/modules/sorted_set/{commands,sorted_set,utils,key_funcs}.go    *)
(*                                                                         *)
(* A sorted set is a function  member bytes |-> score, a score being       *)
(* [q |-> quarters, inf |-> 0] or [q |-> 0, inf |-> +1 / -1].  "The order" *)
(* of a sorted set is by score, then by member bytes (ZAsc); the reverse   *)
(* order is its exact mirror (ZDesc).  Replies built from Go map iteration *)
(* (algebra commands, pops, ZRANDMEMBER) are bags; ranges and ranks follow *)
(* the order.  Reference decisions ("as-code") are commented where they    *)
(* are taken and collected in NOTES.md.                                    *)
(*                                                                         *)
(* Reply shapes (as-code): member lists are arrays of one-element arrays   *)
(* [[m], ...]; with scores arrays of pairs [[m, score], ...]; a score is   *)
(* printed by strconv.FormatFloat(f, 'f', -1, 64) ("1.5", "-2", "+Inf").   *)
(***************************************************************************)
EXTENDS CmdBase

ZSetOps == {"ZADD", "ZCARD", "ZCOUNT", "ZDIFF", "ZDIFFSTORE", "ZINCRBY", "ZINTER", "ZINTERSTORE",
            "ZLEXCOUNT", "ZMPOP", "ZMSCORE", "ZPOPMAX", "ZPOPMIN", "ZRANDMEMBER", "ZRANGE",
            "ZRANGESTORE", "ZRANK", "ZREVRANK", "ZREM", "ZREMRANGEBYLEX", "ZREMRANGEBYRANK",
            "ZREMRANGEBYSCORE", "ZSCORE", "ZUNION", "ZUNIONSTORE"}

----------------------------------------------------------------------------
\* scores

ZFin(q)    == [q |-> q, inf |-> 0]
ZInfS(sg)  == [q |-> 0, inf |-> sg]
ZNaN       == [q |-> 0, inf |-> 2]       \* never stored: the step that would produce it is skipped

ZLt(x, y) == IF x.inf # y.inf THEN x.inf < y.inf ELSE (x.inf = 0 /\ x.q < y.q)
ZLe(x, y) == ~ZLt(y, x)

ZSgn(n) == IF n < 0 THEN -1 ELSE IF n > 0 THEN 1 ELSE 0

\* float addition; +inf + -inf is NaN
ZPlus(x, y) ==
    IF x.inf = 2 \/ y.inf = 2 THEN ZNaN
    ELSE IF x.inf # 0 /\ y.inf # 0 THEN (IF x.inf = y.inf THEN x ELSE ZNaN)
    ELSE IF x.inf # 0 THEN x
    ELSE IF y.inf # 0 THEN y
    ELSE IF Abs(x.q) > 500000000 \/ Abs(y.q) > 500000000 THEN ZNaN
    ELSE ZFin(x.q + y.q)

\* weight * score, the weight being a double as well (quarter units or +-inf); inf * 0 is NaN.
\* A product that is a *negative zero* in IEEE arithmetic (printed "-0" but indistinguishable in
\* the projected state), that is not a multiple of 1/4, or that is too large for TLC's integers is
\* reported as NaN too, so that the step is skipped rather than judged.
ZTimes(w, x) ==
    IF w.inf # 0 THEN (IF x.inf = 0 /\ x.q = 0 THEN ZNaN ELSE ZInfS(w.inf * (IF x.inf # 0 THEN x.inf ELSE ZSgn(x.q))))
    ELSE IF x.inf # 0 THEN (IF w.q = 0 THEN ZNaN ELSE ZInfS(ZSgn(w.q) * x.inf))
    ELSE IF (w.q < 0 /\ x.q = 0) \/ (w.q = 0 /\ x.q < 0) THEN ZNaN
    ELSE IF Abs(w.q) > 1000 \/ Abs(x.q) > 1000000 THEN ZNaN
    ELSE IF (w.q * x.q) % 4 # 0 THEN ZNaN
    ELSE ZFin((w.q * x.q) \div 4)

\* strconv.FormatFloat(f, 'f', -1, 64)
ZScoreBytes(x) == IF x.inf # 0 THEN InfBytes(x.inf) ELSE FmtQ(x.q)

\* fmt.Sprintf("%f", f): six decimals  (reply of ZADD ... INCR, as-code)
ZFmt6(x) ==
    IF x.inf # 0 THEN InfBytes(x.inf)
    ELSE LET m    == Abs(x.q)
             frac == CASE m % 4 = 0 -> <<48, 48, 48, 48, 48, 48>>
                       [] m % 4 = 1 -> <<50, 53, 48, 48, 48, 48>>
                       [] m % 4 = 2 -> <<53, 48, 48, 48, 48, 48>>
                       [] m % 4 = 3 -> <<55, 53, 48, 48, 48, 48>>
         IN (IF x.q < 0 THEN <<cMinus>> ELSE <<>>) \o DecNat(m \div 4) \o <<cDot>> \o frac

\* a token where a double is expected (internal.AdaptType / strconv.ParseFloat); generators only
\* send exponent-free literals and "+inf" / "-inf"
ZNumSkip(t) == IsBytesT(t) /\ ~IsIntT(t) /\ ~IsQT(t) /\ Unmodelled(t.b)
ZNumOk(t)   == IsIntT(t) \/ IsQT(t) \/ (IsBytesT(t) /\ IsLooseNum(t.b) /\ LooseNum(t.b).ok)
ZNum(t)     == CASE IsIntT(t) -> ZFin(4 * t.i)
                 [] IsQT(t)   -> (IF t.inf # 0 THEN ZInfS(t.inf) ELSE ZFin(t.q))
                 [] OTHER     -> ZFin(LooseNum(t.b).q)

\* a token where an integer is expected (strconv.Atoi)
ZIntOk(t) == IsIntT(t) \/ (IsQT(t) /\ t.inf = 0 /\ t.q % 4 = 0) \/ (~IsQT(t) /\ IsBytesT(t) /\ IsParseInt(t.b))
ZIntV(t)  == CASE IsIntT(t) -> t.i [] IsQT(t) -> t.q \div 4 [] OTHER -> ParseIntVal(t.b)

----------------------------------------------------------------------------
\* sorted sets

ZEmpty == [m \in {} |-> ZFin(0)]
ZPutM(z, m, x) == [y \in (DOMAIN z) \cup {m} |-> IF y = m THEN x ELSE z[y]]
ZKeep(z, ms)   == [y \in (DOMAIN z) \cap ms |-> z[y]]
ZDrop(z, ms)   == [y \in (DOMAIN z) \ ms |-> z[y]]
ZCardOf(z)     == Cardinality(DOMAIN z)

ZReverse(s) == [i \in 1..Len(s) |-> s[Len(s) + 1 - i]]
ZMin2(x, y) == IF x < y THEN x ELSE y
ZMax2(x, y) == IF x > y THEN x ELSE y

\* SubSeq that tolerates any bounds (1-based, inclusive)
ZSlice(s, lo, hi) == IF lo > hi \/ lo > Len(s) \/ hi < 1 THEN <<>> ELSE SubSeq(s, ZMax2(lo, 1), ZMin2(hi, Len(s)))

\* the elements of ms as the sequence sorted by the strict total order Less
ZSortBy(ms, Less(_, _)) ==
    [i \in 1..Cardinality(ms) |-> CHOOSE m \in ms : Cardinality({y \in ms : Less(y, m)}) = i - 1]

ZBefore(z, m1, m2) == ZLt(z[m1], z[m2]) \/ (z[m1] = z[m2] /\ LexLess(m1, m2))
ZAsc(z)  == ZSortBy(DOMAIN z, LAMBDA m1, m2 : ZBefore(z, m1, m2))
ZDesc(z) == ZReverse(ZAsc(z))

ZSeqSet(s) == {s[i] : i \in DOMAIN s}
ZAnyOrder(ms) == ZSortBy(ms, LexLess)                  \* some enumeration, for bag replies

ZIsZ(C, k)   == Live(C, k) /\ ValOf(C, k).k = "zset"
ZWrong(C, k) == Live(C, k) /\ ValOf(C, k).k # "zset"
ZOf(C, k)    == IF ZIsZ(C, k) THEN ValOf(C, k).z ELSE ZEmpty     \* an absent key is the empty sorted set

ZAllSame(z) == \A m1, m2 \in DOMAIN z : z[m1] = z[m2]

\* replies
ZItem(z, m, ws)    == IF ws THEN RArr(<<RStr(m), RStr(ZScoreBytes(z[m]))>>) ELSE RArr(<<RStr(m)>>)
ZListReply(z, s, ws) == RArr([i \in 1..Len(s) |-> ZItem(z, s[i], ws)])
ZBagReply(z, ws)   == LET s == ZAnyOrder(DOMAIN z) IN RBag([i \in 1..Len(s) |-> ZItem(z, s[i], ws)])
ZNoMatch           == [t |-> "illegal"]                  \* a reply nothing the server sends can equal

ZHasKw(toks, w)  == \E i \in DOMAIN toks : KW(toks[i]) = w
ZFirstKw(toks, ws) == IF \E i \in DOMAIN toks : KW(toks[i]) \in ws
                      THEN CHOOSE i \in DOMAIN toks : KW(toks[i]) \in ws /\ \A j \in 1..(i - 1) : ~(KW(toks[j]) \in ws)
                      ELSE 0

(***************************************************************************)
(* Lexicographic comparison of members.  The reference is bytes.Compare.   *)
(* The implementation (internal.CompareLex, internal/utils.go) first       *)
(* decides by *substring containment* ("ab" contains "b", hence "ab" > "b")*)
(* - deviation ZLexSubstr.  That relation is not transitive in general;    *)
(* where a sort by it has no determined outcome the step is skipped.       *)
(***************************************************************************)
ZContains(big, small) == \E i \in 0..(Len(big) - Len(small)) : SubSeq(big, i + 1, i + Len(small)) = small
ZCodeLexLess(x, y) == x # y /\ ~ZContains(x, y) /\ (ZContains(y, x) \/ LexLess(x, y))
ZLexLess(C, x, y)  == IF Dev(C, "ZLexSubstr") THEN ZCodeLexLess(x, y) ELSE LexLess(x, y)
ZLexIn(C, m, lo, hi) == ~ZLexLess(C, m, lo) /\ ~ZLexLess(C, hi, m)       \* both bounds inclusive (as-code)
ZLexSortable(C, ms) == ~Dev(C, "ZLexSubstr") \/ \A x, y, w \in ms : (ZCodeLexLess(x, y) /\ ZCodeLexLess(y, w)) => ZCodeLexLess(x, w)

----------------------------------------------------------------------------
\* ZADD key [NX | XX] [GT | LT] [CH] [INCR] score member [score member ...]
\* The options are the tokens before the first token that parses as a number (as-code); the last
\* of NX/XX and the last of GT/LT win; NX together with GT/LT is an error.

ZNoOpt == [pol |-> "", cmp |-> "", ch |-> FALSE, incr |-> FALSE, err |-> FALSE]

RECURSIVE ZAddOpts(_, _, _)
ZAddOpts(toks, np, o) ==
    IF toks = <<>> \/ o.err THEN o
    ELSE LET w == KW(toks[1])   rest == Tail(toks) IN
         CASE w \in {"NX", "XX"} -> IF w = "NX" /\ o.cmp # "" THEN [o EXCEPT !.err = TRUE]
                                    ELSE ZAddOpts(rest, np, [o EXCEPT !.pol = w])
           [] w \in {"GT", "LT"} -> IF o.pol = "NX" THEN [o EXCEPT !.err = TRUE]
                                    ELSE ZAddOpts(rest, np, [o EXCEPT !.cmp = w])
           [] w = "CH"           -> ZAddOpts(rest, np, [o EXCEPT !.ch = TRUE])
           [] w = "INCR"         -> IF np > 1 THEN [o EXCEPT !.err = TRUE]
                                    ELSE ZAddOpts(rest, np, [o EXCEPT !.incr = TRUE])
           [] OTHER              -> [o EXCEPT !.err = TRUE]

\* may an existing score old be replaced by new under GT / LT ?
ZCmpAllows(cmp, old, new) == CASE cmp = "GT" -> ZLt(old, new) [] cmp = "LT" -> ZLt(new, old) [] OTHER -> TRUE

\* pairs are applied one after the other (a member named twice is first added, then updated).
\* added / changed: members added / existing members whose score changed.  code: the number the
\* implementation reports (deviation ZAddCount): without NX/XX every existing member *given* a
\* score different from its current one is counted, CH or not, whatever GT/LT then decide; with
\* XX CH every existing member named is counted.
RECURSIVE ZAddFold(_, _, _)
ZAddFold(acc, prs, o) ==
    IF prs = <<>> THEN acc
    ELSE LET x == ZNum(prs[1])   m == TokBytes(prs[2])   z == acc.z   rest == SubSeq(prs, 3, Len(prs)) IN
         IF m \in DOMAIN z
         THEN LET cc == CASE o.pol = "XX" -> IF o.ch THEN 1 ELSE 0
                          [] o.pol = "NX" -> 0
                          [] OTHER        -> IF z[m] # x THEN 1 ELSE 0
                  acc1 == [acc EXCEPT !.code = @ + cc]
              IN IF o.pol = "NX" \/ ~ZCmpAllows(o.cmp, z[m], x) \/ z[m] = x THEN ZAddFold(acc1, rest, o)
                 ELSE ZAddFold([acc1 EXCEPT !.z = ZPutM(z, m, x), !.changed = @ + 1], rest, o)
         ELSE IF o.pol = "XX" THEN ZAddFold(acc, rest, o)
              ELSE ZAddFold([acc EXCEPT !.z = ZPutM(z, m, x), !.added = @ + 1, !.code = @ + 1], rest, o)

\* the key is created only when something was added to it
ZStore(C, k, z) == IF ~Live(C, k) /\ DOMAIN z = {} THEN C.S ELSE Write(C, k, VZSet(z))

XZAdd(C, a) ==
    IF Len(a) < 4 THEN Fail(C)
    ELSE IF \E i \in 3..Len(a) : ZNumSkip(a[i]) THEN Skip(C)
    ELSE LET k    == a[2].s
             rest == SubSeq(a, 3, Len(a))
             nums == {i \in 1..Len(rest) : ZNumOk(rest[i])}
             p    == IF nums = {} THEN 0 ELSE CHOOSE i \in nums : \A j \in nums : i <= j
             prs  == IF p = 0 THEN <<>> ELSE SubSeq(rest, p, Len(rest))
             np   == Len(prs) \div 2
         IN IF p = 0 \/ Len(prs) % 2 # 0 THEN Fail(C)
            ELSE IF \E i \in 1..np : ~ZNumOk(prs[2 * i - 1]) THEN Fail(C)      \* a score that is not a number
            ELSE LET o == ZAddOpts(SubSeq(rest, 1, p - 1), np, ZNoOpt) IN
                 IF o.err THEN Fail(C)
                 ELSE IF ZWrong(C, k) THEN Fail(C)
                 ELSE LET z == ZOf(C, k) IN
                      IF o.incr
                      THEN LET x == ZNum(prs[1])   m == TokBytes(prs[2]) IN
                           IF ~(m \in DOMAIN z)
                           THEN IF o.pol = "XX" THEN Res(C.S, RNil)
                                ELSE Res(ZStore(C, k, ZPutM(z, m, x)), RStr(ZFmt6(x)))
                           ELSE IF o.pol = "NX" THEN Res(C.S, RNil)
                           ELSE IF z[m].inf # 0 THEN Fail(C)               \* as-code: an infinite score cannot be incremented
                           ELSE LET new == ZPlus(z[m], x) IN
                                IF new.inf = 2 THEN Skip(C)
                                ELSE IF ~ZCmpAllows(o.cmp, z[m], new) THEN Res(C.S, RNil)
                                ELSE Res(ZStore(C, k, ZPutM(z, m, new)), RStr(ZFmt6(new)))
                      ELSE LET r == ZAddFold([z |-> z, added |-> 0, changed |-> 0, code |-> 0], prs, o) IN
                           Res(ZStore(C, k, r.z), RInt(IF Dev(C, "ZAddCount") THEN r.code
                                                       ELSE IF o.ch THEN r.added + r.changed ELSE r.added))

----------------------------------------------------------------------------
\* ZCARD / ZCOUNT / ZLEXCOUNT / ZSCORE / ZMSCORE / ZRANK / ZREVRANK

XZCard(C, a) ==
    IF Len(a) # 2 THEN Fail(C)
    ELSE IF ZWrong(C, a[2].s) THEN Fail(C)
    ELSE Res(C.S, RInt(ZCardOf(ZOf(C, a[2].s))))

\* ZCOUNT key min max : both bounds inclusive doubles (no "(" syntax; as-code)
XZCount(C, a) ==
    IF Len(a) # 4 THEN Fail(C)
    ELSE IF ZNumSkip(a[3]) \/ ZNumSkip(a[4]) THEN Skip(C)
    ELSE IF ~ZNumOk(a[3]) \/ ~ZNumOk(a[4]) THEN Fail(C)
    ELSE IF ZWrong(C, a[2].s) THEN Fail(C)
    ELSE LET z == ZOf(C, a[2].s)   lo == ZNum(a[3])   hi == ZNum(a[4]) IN
         Res(C.S, RInt(Cardinality({m \in DOMAIN z : ZLe(lo, z[m]) /\ ZLe(z[m], hi)})))

\* ZLEXCOUNT key min max : min and max are plain member strings, both inclusive (as-code);
\* 0 unless all members have the same score (docs)
XZLexCount(C, a) ==
    IF Len(a) # 4 THEN Fail(C)
    ELSE IF ZWrong(C, a[2].s) THEN Fail(C)
    ELSE LET z == ZOf(C, a[2].s)   lo == TokBytes(a[3])   hi == TokBytes(a[4]) IN
         IF ~ZAllSame(z) THEN Res(C.S, RInt(0))
         ELSE Res(C.S, RInt(Cardinality({m \in DOMAIN z : ZLexIn(C, m, lo, hi)})))

XZScore(C, a) ==
    IF Len(a) # 3 THEN Fail(C)
    ELSE IF ZWrong(C, a[2].s) THEN Fail(C)
    ELSE LET z == ZOf(C, a[2].s)   m == TokBytes(a[3]) IN
         Res(C.S, IF m \in DOMAIN z THEN RStr(ZScoreBytes(z[m])) ELSE RNil)

\* as-code: an absent key yields the empty array, not one nil per member
XZMScore(C, a) ==
    IF Len(a) < 3 THEN Fail(C)
    ELSE IF ~Live(C, a[2].s) THEN Res(C.S, RArr(<<>>))
    ELSE IF ZWrong(C, a[2].s) THEN Fail(C)
    ELSE LET z == ZOf(C, a[2].s) IN
         Res(C.S, RArr([i \in 1..(Len(a) - 2) |->
                          LET m == TokBytes(a[i + 2]) IN
                          IF m \in DOMAIN z THEN RStr(ZScoreBytes(z[m])) ELSE RNil]))

\* ZRANK / ZREVRANK key member [WITHSCORES] : [rank] or [rank, score]; a fourth token other than
\* WITHSCORES is ignored (as-code)
XZRank(C, a, rev) ==
    IF Len(a) < 3 \/ Len(a) > 4 THEN Fail(C)
    ELSE IF ZWrong(C, a[2].s) THEN Fail(C)
    ELSE LET z  == ZOf(C, a[2].s)
             m  == TokBytes(a[3])
             ws == Len(a) = 4 /\ KW(a[4]) = "WITHSCORES"
             s  == IF rev THEN ZDesc(z) ELSE ZAsc(z)
         IN IF ~(m \in DOMAIN z) THEN Res(C.S, RNil)
            ELSE LET r == (CHOOSE i \in DOMAIN s : s[i] = m) - 1 IN
                 Res(C.S, IF ws THEN RArr(<<RInt(r), RStr(ZScoreBytes(z[m]))>>) ELSE RArr(<<RInt(r)>>))

----------------------------------------------------------------------------
\* ZINCRBY key increment member

XZIncrBy(C, a) ==
    IF Len(a) # 4 THEN Fail(C)
    ELSE IF ZNumSkip(a[3]) THEN Skip(C)
    ELSE IF ~ZNumOk(a[3]) THEN Fail(C)
    ELSE IF ZWrong(C, a[2].s) THEN Fail(C)
    ELSE LET k == a[2].s   z == ZOf(C, k)   x == ZNum(a[3])   m == TokBytes(a[4]) IN
         IF m \in DOMAIN z /\ z[m].inf # 0 THEN Fail(C)                  \* as-code
         ELSE LET new == IF m \in DOMAIN z THEN ZPlus(z[m], x) ELSE x IN
              IF new.inf = 2 THEN Skip(C)
              ELSE Res(Write(C, k, VZSet(ZPutM(z, m, new))), RStr(ZScoreBytes(new)))

----------------------------------------------------------------------------
\* removals: ZREM, ZREMRANGEBYSCORE, ZREMRANGEBYRANK, ZREMRANGEBYLEX, ZPOPMIN, ZPOPMAX, ZMPOP
\* as-code: a sorted set that loses its last member stays as an empty sorted set

ZRemove(C, k, ms) == IF ~Live(C, k) THEN C.S ELSE Write(C, k, VZSet(ZDrop(ValOf(C, k).z, ms)))

XZRem(C, a) ==
    IF Len(a) < 3 THEN Fail(C)
    ELSE IF ZWrong(C, a[2].s) THEN Fail(C)
    ELSE LET z == ZOf(C, a[2].s)   ms == {TokBytes(a[i]) : i \in 3..Len(a)} \cap DOMAIN z IN
         Res(ZRemove(C, a[2].s, ms), RInt(Cardinality(ms)))

XZRemRangeByScore(C, a) ==
    IF Len(a) # 4 THEN Fail(C)
    ELSE IF ZNumSkip(a[3]) \/ ZNumSkip(a[4]) THEN Skip(C)
    ELSE IF ~ZNumOk(a[3]) \/ ~ZNumOk(a[4]) THEN Fail(C)
    ELSE IF ZWrong(C, a[2].s) THEN Fail(C)
    ELSE LET z == ZOf(C, a[2].s)   lo == ZNum(a[3])   hi == ZNum(a[4])
             ms == {m \in DOMAIN z : ZLe(lo, z[m]) /\ ZLe(z[m], hi)}
         IN Res(ZRemove(C, a[2].s, ms), RInt(Cardinality(ms)))

\* as-code: ranks outside 0..card-1 (after adding card to negative ones) are an error; start > stop
\* denotes the same range as stop..start
XZRemRangeByRank(C, a) ==
    IF Len(a) # 4 THEN Fail(C)
    ELSE IF ~ZIntOk(a[3]) \/ ~ZIntOk(a[4]) THEN Fail(C)
    ELSE IF ~Live(C, a[2].s) THEN Res(C.S, RInt(0))
    ELSE IF ZWrong(C, a[2].s) THEN Fail(C)
    ELSE LET z  == ZOf(C, a[2].s)
             n  == ZCardOf(z)
             st == IF ZIntV(a[3]) < 0 THEN ZIntV(a[3]) + n ELSE ZIntV(a[3])
             sp == IF ZIntV(a[4]) < 0 THEN ZIntV(a[4]) + n ELSE ZIntV(a[4])
         IN IF st < 0 \/ st > n - 1 \/ sp < 0 \/ sp > n - 1 THEN Fail(C)
            ELSE LET ms == ZSeqSet(ZSlice(ZAsc(z), ZMin2(st, sp) + 1, ZMax2(st, sp) + 1)) IN
                 Res(ZRemove(C, a[2].s, ms), RInt(Cardinality(ms)))

XZRemRangeByLex(C, a) ==
    IF Len(a) # 4 THEN Fail(C)
    ELSE IF ZWrong(C, a[2].s) THEN Fail(C)
    ELSE LET z == ZOf(C, a[2].s)   lo == TokBytes(a[3])   hi == TokBytes(a[4])
             ms == IF ZAllSame(z) THEN {m \in DOMAIN z : ZLexIn(C, m, lo, hi)} ELSE {}
         IN Res(ZRemove(C, a[2].s, ms), RInt(Cardinality(ms)))

\* the count members with the lowest (MIN) / highest (MAX) scores, ties by member
ZPopped(z, count, max) == ZSeqSet(ZSlice(IF max THEN ZDesc(z) ELSE ZAsc(z), 1, count))

ZPopRes(C, k, z, count, max) ==
    LET ms == ZPopped(z, count, max) IN Res(ZRemove(C, k, ms), ZBagReply(ZKeep(z, ms), TRUE))

\* ZPOPMIN / ZPOPMAX key [count] : a count <= 0 stands for the default 1 (documented in the API)
XZPop(C, a, max) ==
    IF Len(a) < 2 \/ Len(a) > 3 THEN Fail(C)
    ELSE IF Len(a) = 3 /\ ~ZIntOk(a[3]) THEN Fail(C)
    ELSE IF ZWrong(C, a[2].s) THEN Fail(C)
    ELSE LET count == IF Len(a) = 3 /\ ZIntV(a[3]) > 0 THEN ZIntV(a[3]) ELSE 1 IN
         ZPopRes(C, a[2].s, ZOf(C, a[2].s), count, max)

\* ZMPOP key [key ...] [MIN | MAX] [COUNT count] : pops from the first key holding a non-empty
\* sorted set; MIN is the default; the reply is the list of popped pairs (as-code).
\* A key of another type is an error (C01); the implementation skips it: deviation
\* ZMPopSkipsWrongType.
RECURSIVE ZMPopKeys(_, _, _, _)
ZMPopKeys(C, ks, count, max) ==
    IF ks = <<>> THEN Res(C.S, RArr(<<>>))
    ELSE LET k == ks[1].s IN
         IF ZWrong(C, k) /\ ~Dev(C, "ZMPopSkipsWrongType") THEN Fail(C)
         ELSE IF ZIsZ(C, k) /\ DOMAIN ValOf(C, k).z # {} THEN ZPopRes(C, k, ValOf(C, k).z, count, max)
         ELSE ZMPopKeys(C, Tail(ks), count, max)

XZMPop(C, a) ==
    IF Len(a) < 2 THEN Fail(C)
    ELSE LET mods == {"MIN", "MAX", "COUNT"}
             e    == ZFirstKw(a, mods)
             ks   == IF e = 0 THEN Tail(a) ELSE SubSeq(a, 2, e - 1)
             ci   == ZFirstKw(a, {"COUNT"})
             pi   == ZFirstKw(a, {"MIN", "MAX"})
         IN IF e = 2 THEN Fail(C)
            ELSE IF ci # 0 /\ (ci = Len(a) \/ ~ZIntOk(a[ci + 1]) \/ ZIntV(a[ci + 1]) <= 0) THEN Fail(C)
            ELSE ZMPopKeys(C, ks, IF ci = 0 THEN 1 ELSE ZIntV(a[ci + 1]), pi # 0 /\ KW(a[pi]) = "MAX")

----------------------------------------------------------------------------
\* ZRANDMEMBER key [count [WITHSCORES]] : the choice is read off the logged reply g.
\* count 0 stands for the default 1; |count| >= card returns every member once (as-code, API doc);
\* otherwise count > 0 distinct members, count < 0 |count| members with repetitions allowed.
\* as-code: an absent key replies nil.

XZRandMember(C, a, g) ==
    IF Len(a) < 2 \/ Len(a) > 4 THEN Fail(C)
    ELSE IF Len(a) >= 3 /\ ~ZIntOk(a[3]) THEN Fail(C)
    ELSE IF Len(a) = 4 /\ KW(a[4]) # "WITHSCORES" THEN Fail(C)
    ELSE IF ~Live(C, a[2].s) THEN Res(C.S, RNil)
    ELSE IF ZWrong(C, a[2].s) THEN Fail(C)
    ELSE LET z     == ZOf(C, a[2].s)
             ws    == Len(a) = 4
             count == IF Len(a) >= 3 /\ ZIntV(a[3]) # 0 THEN ZIntV(a[3]) ELSE 1
             n     == Abs(count)
         IN IF n >= ZCardOf(z) THEN Res(C.S, ZBagReply(z, ws))
            ELSE LET ok ==
                     /\ g.t = "arr" /\ Len(g.a) = n
                     /\ \A i \in 1..n :
                           /\ g.a[i].t = "arr" /\ Len(g.a[i].a) = (IF ws THEN 2 ELSE 1)
                           /\ g.a[i].a[1].t = "bulk" /\ g.a[i].a[1].b \in DOMAIN z
                     /\ (count > 0 => \A i, j \in 1..n : i # j => g.a[i].a[1].b # g.a[j].a[1].b)
                 IN IF ok THEN Res(C.S, RArr([i \in 1..n |-> ZItem(z, g.a[i].a[1].b, ws)]))
                    ELSE Res(C.S, ZNoMatch)

----------------------------------------------------------------------------
\* ZRANGE key start stop [BYSCORE | BYLEX] [REV] [LIMIT offset count] [WITHSCORES]
\* ZRANGESTORE destination source start stop [...]
\* as-code: BYSCORE is the default (there are no rank ranges); start/stop are the inclusive lower /
\* upper bound also under REV; option words may come in any order and unknown ones are ignored;
\* BYLEX yields nothing unless all members have the same score (docs).
\* Reference: the members inside the bounds, in (reversed) order, then windowed by LIMIT offset
\* count (count < 0: no limit).  The implementation windows the *unfiltered* ordered set and takes
\* count as an end index: deviation ZRangeLimit.

ZRangeOpts(C, lo, hi, opts) ==
    LET bylex == ZHasKw(opts, "BYLEX")
        li    == ZFirstKw(opts, {"LIMIT"})
    IN [bylex |-> bylex, rev |-> ZHasKw(opts, "REV"), ws |-> ZHasKw(opts, "WITHSCORES"),
        skip  |-> ~bylex /\ (ZNumSkip(lo) \/ ZNumSkip(hi)),
        err   |-> \/ ~bylex /\ (~ZNumOk(lo) \/ ~ZNumOk(hi))
                  \/ li # 0 /\ (li + 2 > Len(opts) \/ ~ZIntOk(opts[li + 1]) \/ ZIntV(opts[li + 1]) < 0
                                \/ ~ZIntOk(opts[li + 2])),
        lim   |-> li # 0,
        off   |-> IF li # 0 /\ li + 2 <= Len(opts) /\ ZIntOk(opts[li + 1]) THEN ZIntV(opts[li + 1]) ELSE 0,
        cnt   |-> IF li # 0 /\ li + 2 <= Len(opts) /\ ZIntOk(opts[li + 2]) THEN ZIntV(opts[li + 2]) ELSE -1]

\* [ok |-> FALSE] when the outcome is not determined (sort by a non-transitive comparison)
ZRangeSel(C, z, lo, hi, o) ==
    IF o.bylex /\ ~ZAllSame(z) THEN [ok |-> TRUE, s |-> <<>>]
    ELSE IF o.bylex /\ ~ZLexSortable(C, DOMAIN z) THEN [ok |-> FALSE, s |-> <<>>]
    ELSE LET asc == IF o.bylex THEN ZSortBy(DOMAIN z, LAMBDA x, y : ZLexLess(C, x, y)) ELSE ZAsc(z)
             ord == IF o.rev THEN ZReverse(asc) ELSE asc
             In(m) == IF o.bylex THEN ZLexIn(C, m, TokBytes(lo), TokBytes(hi))
                      ELSE ZLe(ZNum(lo), z[m]) /\ ZLe(z[m], ZNum(hi))
             n   == Len(ord)
         IN IF o.lim /\ Dev(C, "ZRangeLimit")
            THEN IF o.off > n THEN [ok |-> TRUE, s |-> <<>>]
                 ELSE LET last == IF o.cnt < 0 THEN n - o.off ELSE o.cnt      \* zero-based, inclusive
                      IN [ok |-> TRUE, s |-> SelectSeq(ZSlice(ord, o.off + 1, last + 1), In)]
            ELSE LET f == SelectSeq(ord, In) IN
                 [ok |-> TRUE,
                  s  |-> IF ~o.lim THEN f
                         ELSE IF o.cnt < 0 THEN ZSlice(f, o.off + 1, Len(f))
                         ELSE ZSlice(f, o.off + 1, o.off + o.cnt)]

XZRange(C, a) ==
    IF Len(a) < 4 \/ Len(a) > 10 THEN Fail(C)
    ELSE LET o == ZRangeOpts(C, a[3], a[4], SubSeq(a, 5, Len(a))) IN
         IF o.skip THEN Skip(C)
         ELSE IF o.err THEN Fail(C)
         ELSE IF ZWrong(C, a[2].s) THEN Fail(C)
         ELSE LET z == ZOf(C, a[2].s)   r == ZRangeSel(C, z, a[3], a[4], o) IN
              IF ~r.ok THEN Skip(C) ELSE Res(C.S, ZListReply(z, r.s, o.ws))

\* the destination always receives the result (a fresh sorted set, empty when nothing is selected
\* or the source is absent) and keeps its deadline if it is live
XZRangeStore(C, a) ==
    IF Len(a) < 5 \/ Len(a) > 11 THEN Fail(C)
    ELSE LET o == ZRangeOpts(C, a[4], a[5], SubSeq(a, 6, Len(a))) IN
         IF o.skip THEN Skip(C)
         ELSE IF o.err THEN Fail(C)
         ELSE IF ZWrong(C, a[3].s) THEN Fail(C)
         ELSE LET z == ZOf(C, a[3].s)   r == ZRangeSel(C, z, a[4], a[5], o) IN
              IF ~r.ok THEN Skip(C)
              ELSE Res(Write(C, a[2].s, VZSet(ZKeep(z, ZSeqSet(r.s)))), RInt(Len(r.s)))

----------------------------------------------------------------------------
\* ZDIFF key [key ...] [WITHSCORES]      ZDIFFSTORE destination key [key ...]
\* members of the first sorted set that are in none of the others, with the first set's scores.
\* as-code: operands are examined in order and an absent first key ends the evaluation (later
\* operands are then not type-checked); tokens after WITHSCORES are ignored.

RECURSIVE ZDiffFold(_, _, _)
ZDiffFold(C, z, ks) ==          \* [err, z]
    IF ks = <<>> THEN [err |-> FALSE, z |-> z]
    ELSE IF ZWrong(C, ks[1].s) THEN [err |-> TRUE, z |-> z]
    ELSE ZDiffFold(C, ZDrop(z, DOMAIN ZOf(C, ks[1].s)), Tail(ks))

XZDiff(C, a) ==
    IF Len(a) < 2 THEN Fail(C)
    ELSE LET wi == ZFirstKw(a, {"WITHSCORES"})
             ks == IF wi = 0 THEN Tail(a) ELSE SubSeq(a, 2, wi - 1)
         IN IF wi = 2 THEN Fail(C)
            ELSE IF ~Live(C, ks[1].s) THEN Res(C.S, RArr(<<>>))
            ELSE IF ZWrong(C, ks[1].s) THEN Fail(C)
            ELSE LET r == ZDiffFold(C, ZOf(C, ks[1].s), Tail(ks)) IN
                 IF r.err THEN Fail(C) ELSE Res(C.S, ZBagReply(r.z, wi # 0))

XZDiffStore(C, a) ==
    IF Len(a) < 3 THEN Fail(C)
    ELSE LET ks == SubSeq(a, 3, Len(a)) IN
         IF ~Live(C, ks[1].s) THEN Res(Write(C, a[2].s, VZSet(ZEmpty)), RInt(0))
         ELSE IF ZWrong(C, ks[1].s) THEN Fail(C)
         ELSE LET r == ZDiffFold(C, ZOf(C, ks[1].s), Tail(ks)) IN
              IF r.err THEN Fail(C) ELSE Res(Write(C, a[2].s, VZSet(r.z)), RInt(ZCardOf(r.z)))

----------------------------------------------------------------------------
\* ZUNION / ZINTER key [key ...] [WEIGHTS w ...] [AGGREGATE SUM|MIN|MAX] [WITHSCORES]
\* ZUNIONSTORE / ZINTERSTORE destination key [key ...] [WEIGHTS ...] [AGGREGATE ...]
\* as-code: the keys are the tokens before the first of the three option words; the options may
\* come in any order; weights are doubles and run up to the next option word;
\* anything after "AGGREGATE x" that is not an option word is ignored.

ZAlgMods == {"WEIGHTS", "AGGREGATE", "WITHSCORES"}

RECURSIVE ZWeightToks(_)
ZWeightToks(toks) == IF toks = <<>> \/ KW(toks[1]) \in {"AGGREGATE", "WITHSCORES"} THEN <<>>
                     ELSE <<toks[1]>> \o ZWeightToks(Tail(toks))

\* toks: everything after the command name (and the destination)
ZAlgParse(toks) ==
    LET wi == ZFirstKw(toks, {"WEIGHTS"})
        ai == ZFirstKw(toks, {"AGGREGATE"})
        e  == ZFirstKw(toks, ZAlgMods)
        ks == IF e = 0 THEN toks ELSE SubSeq(toks, 1, e - 1)
        wt == IF wi = 0 THEN <<>> ELSE ZWeightToks(SubSeq(toks, wi + 1, Len(toks)))
    IN [skip |-> \E i \in DOMAIN wt : ZNumSkip(wt[i]),
        err  |-> \/ \E i \in DOMAIN wt : ~ZNumOk(wt[i])
                 \/ ai # 0 /\ (ai = Len(toks) \/ ~(KW(toks[ai + 1]) \in {"SUM", "MIN", "MAX"}))
                 \/ wi # 0 /\ Len(wt) # Len(ks),
        keys |-> ks,
        w    |-> [i \in 1..Len(ks) |-> IF wi # 0 /\ i <= Len(wt) /\ ZNumOk(wt[i]) THEN ZNum(wt[i]) ELSE ZFin(4)],
        agg  |-> IF ai # 0 /\ ai < Len(toks) THEN KW(toks[ai + 1]) ELSE "SUM",
        ws   |-> ZHasKw(toks, "WITHSCORES")]

\* aggregate of a non-empty sequence of weighted scores
RECURSIVE ZAggSeq(_, _)
ZAggSeq(agg, xs) ==
    IF Len(xs) = 1 THEN xs[1]
    ELSE LET r == ZAggSeq(agg, Tail(xs))   x == xs[1] IN
         IF x.inf = 2 \/ r.inf = 2 THEN ZNaN
         ELSE CASE agg = "SUM" -> ZPlus(x, r)
                [] agg = "MIN" -> IF ZLt(r, x) THEN r ELSE x
                [] OTHER       -> IF ZLt(x, r) THEN r ELSE x

\* zs: sequence of operand sorted sets, w: their weights; ms: the members of the result
ZCombine(zs, w, agg, ms) ==
    [m \in ms |-> LET idx == {i \in DOMAIN zs : m \in DOMAIN zs[i]}
                      ord == ZSortBy(idx, LAMBDA i, j : i < j)
                  IN ZAggSeq(agg, [j \in 1..Len(ord) |-> ZTimes(w[ord[j]], zs[ord[j]][m])])]

ZHasNaN(z) == \E m \in DOMAIN z : z[m].inf = 2

\* ZINTER: keys in order; an absent key makes the result empty at once, a key of another type
\* before it is an error
RECURSIVE ZInterScan(_, _)
ZInterScan(C, ks) ==       \* "ok" | "empty" | "err"
    IF ks = <<>> THEN "ok"
    ELSE IF ~Live(C, ks[1].s) THEN "empty"
    ELSE IF ZWrong(C, ks[1].s) THEN "err"
    ELSE ZInterScan(C, Tail(ks))

ZInterOf(C, p) ==
    LET zs == [i \in 1..Len(p.keys) |-> ZOf(C, p.keys[i].s)]
        ms == IF Len(p.keys) = 0 THEN {} ELSE {m \in DOMAIN zs[1] : \A i \in DOMAIN zs : m \in DOMAIN zs[i]}
    IN ZCombine(zs, p.w, p.agg, ms)

ZUnionOf(C, p) ==
    LET zs == [i \in 1..Len(p.keys) |-> ZOf(C, p.keys[i].s)]
        ms == UNION {DOMAIN zs[i] : i \in DOMAIN zs}
    IN ZCombine(zs, p.w, p.agg, ms)

XZInter(C, a) ==
    IF Len(a) < 2 \/ KW(a[2]) \in ZAlgMods THEN Fail(C)
    ELSE LET p == ZAlgParse(Tail(a)) IN
         IF p.skip THEN Skip(C) ELSE IF p.err THEN Fail(C)
         ELSE LET sc == ZInterScan(C, p.keys) IN
              IF sc = "err" THEN Fail(C)
              ELSE IF sc = "empty" THEN Res(C.S, RArr(<<>>))
              ELSE LET z == ZInterOf(C, p) IN
                   IF ZHasNaN(z) THEN Skip(C) ELSE Res(C.S, ZBagReply(z, p.ws))

\* The destination may be one of the sources.  The implementation deletes every argument equal to
\* the destination name before it parses the operands (a source equal to the destination is lost,
\* and the weights then no longer line up): deviation ZStoreDropsDest.
ZStoreToks(C, a) ==
    LET all == SubSeq(a, 3, Len(a))
        Other(t) == IF IsBytesT(a[2]) THEN TokBytes(t) # a[2].b          \* same bytes on the wire (a weight can be hit too)
                    ELSE ~(IsSym(t) /\ t.s = a[2].s)
    IN IF Dev(C, "ZStoreDropsDest") THEN SelectSeq(all, Other) ELSE all

\* at least one key must come before the first option word
XZInterStore(C, a) ==
    IF Len(a) < 3 \/ KW(a[2]) \in ZAlgMods \/ KW(a[3]) \in ZAlgMods THEN Fail(C)
    ELSE LET p == ZAlgParse(ZStoreToks(C, a)) IN
         IF p.skip THEN Skip(C) ELSE IF p.err THEN Fail(C)
         ELSE LET sc == ZInterScan(C, p.keys) IN
              IF sc = "err" THEN Fail(C)
              ELSE IF sc = "empty" THEN Res(Write(C, a[2].s, VZSet(ZEmpty)), RInt(0))
              ELSE LET z == ZInterOf(C, p) IN
                   IF ZHasNaN(z) THEN Skip(C) ELSE Res(Write(C, a[2].s, VZSet(z)), RInt(ZCardOf(z)))

XZUnion(C, a) ==
    IF Len(a) < 2 \/ KW(a[2]) \in ZAlgMods THEN Fail(C)
    ELSE LET p == ZAlgParse(Tail(a)) IN
         IF p.skip THEN Skip(C) ELSE IF p.err THEN Fail(C)
         ELSE IF \E i \in DOMAIN p.keys : ZWrong(C, p.keys[i].s) THEN Fail(C)
         ELSE LET z == ZUnionOf(C, p) IN
              IF ZHasNaN(z) THEN Skip(C) ELSE Res(C.S, ZBagReply(z, p.ws))

\* as-code: ZUNIONSTORE accepts an empty key list (the destination becomes the empty sorted set)
XZUnionStore(C, a) ==
    IF Len(a) < 3 \/ KW(a[2]) \in ZAlgMods THEN Fail(C)
    ELSE LET p == ZAlgParse(ZStoreToks(C, a)) IN
         IF p.skip THEN Skip(C) ELSE IF p.err THEN Fail(C)
         ELSE IF \E i \in DOMAIN p.keys : ZWrong(C, p.keys[i].s) THEN Fail(C)
         ELSE LET z == ZUnionOf(C, p) IN
              IF ZHasNaN(z) THEN Skip(C) ELSE Res(Write(C, a[2].s, VZSet(z)), RInt(ZCardOf(z)))

----------------------------------------------------------------------------
ExecZSet(C, a, g) ==
    LET op == a[1].s IN
    CASE op = "ZADD"             -> XZAdd(C, a)
      [] op = "ZCARD"            -> XZCard(C, a)
      [] op = "ZCOUNT"           -> XZCount(C, a)
      [] op = "ZDIFF"            -> XZDiff(C, a)
      [] op = "ZDIFFSTORE"       -> XZDiffStore(C, a)
      [] op = "ZINCRBY"          -> XZIncrBy(C, a)
      [] op = "ZINTER"           -> XZInter(C, a)
      [] op = "ZINTERSTORE"      -> XZInterStore(C, a)
      [] op = "ZLEXCOUNT"        -> XZLexCount(C, a)
      [] op = "ZMPOP"            -> XZMPop(C, a)
      [] op = "ZMSCORE"          -> XZMScore(C, a)
      [] op = "ZPOPMAX"          -> XZPop(C, a, TRUE)
      [] op = "ZPOPMIN"          -> XZPop(C, a, FALSE)
      [] op = "ZRANDMEMBER"      -> XZRandMember(C, a, g)
      [] op = "ZRANGE"           -> XZRange(C, a)
      [] op = "ZRANGESTORE"      -> XZRangeStore(C, a)
      [] op = "ZRANK"            -> XZRank(C, a, FALSE)
      [] op = "ZREVRANK"         -> XZRank(C, a, TRUE)
      [] op = "ZREM"             -> XZRem(C, a)
      [] op = "ZREMRANGEBYLEX"   -> XZRemRangeByLex(C, a)
      [] op = "ZREMRANGEBYRANK"  -> XZRemRangeByRank(C, a)
      [] op = "ZREMRANGEBYSCORE" -> XZRemRangeByScore(C, a)
      [] op = "ZSCORE"           -> XZScore(C, a)
      [] op = "ZUNION"           -> XZUnion(C, a)
      [] op = "ZUNIONSTORE"      -> XZUnionStore(C, a)

ZSetDevs(a) ==
    LET op == a[1].s IN
    CASE op = "ZADD"                            -> {"ZAddCount"}
      [] op \in {"ZRANGE", "ZRANGESTORE"}       -> {"ZRangeLimit", "ZLexSubstr"}
      [] op \in {"ZLEXCOUNT", "ZREMRANGEBYLEX"} -> {"ZLexSubstr"}
      [] op = "ZMPOP"                           -> {"ZMPopSkipsWrongType"}
      [] op \in {"ZINTERSTORE", "ZUNIONSTORE"}  -> {"ZStoreDropsDest"}
      [] OTHER                                  -> {}

=============================================================================
