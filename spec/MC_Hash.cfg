SPECIFICATION Spec
CONSTANTS
  Cmds <- HMCCmds
  Inits <- HMCInits
  DBs <- HMCDBs
  TickSizes <- HMCTicks
  MaxSteps = 3
  T0 <- HMCT0
VIEW View
INVARIANTS HLawReaders HLawWrongType
PROPERTIES ErrNoChange Frame HReadOnlyPure HLawHSet HLawHSetNX HLawHDel HLawIncr
CHECK_DEADLOCK FALSE
