SPECIFICATION Spec
CONSTANTS
  Pairs <- CCPairs
  Inits <- CCInits
  Now <- CCT0
INVARIANTS SoloIsExec AtomicPairs Export
CHECK_DEADLOCK FALSE
