------------------------------- MODULE Store -------------------------------
(***************************************************************************)
(* The abstract keyspace and the vocabulary shared by all command modules. *)
(*                                                                         *)
(* A store S is a function from <<db, key>> pairs to entries               *)
(*     [v |-> value, d |-> deadline]                                       *)
(* db and key are strings; the deadline is an absolute instant in ms       *)
(* relative to the trace epoch, or NoD.  A value is one of                 *)
(*     [k |-> "str",  b |-> bytes]            Go string                    *)
(*     [k |-> "int",  n |-> integer]          Go int                       *)
(*     [k |-> "flt",  q |-> quarters, inf]    Go float64 (q/4, or +-inf)   *)
(*     [k |-> "list", l |-> Seq(bytes)]       []string                     *)
(*     [k |-> "hash", h |-> [bytes -> scalar]] map[string]interface{}      *)
(*     [k |-> "set",  s |-> SUBSET bytes]     *set.Set                     *)
(*     [k |-> "zset", z |-> [bytes -> score]] *sorted_set.SortedSet        *)
(* i.e. exactly the dynamic types the implementation stores, because TYPE  *)
(* exposes them and handlers branch on them.                               *)
(*                                                                         *)
(* An entry whose deadline has passed is *absent* for every observer       *)
(* (Live is the only test any command uses); whether the implementation    *)
(* has physically removed it yet is not part of the abstract state: two    *)
(* stores are compared through Norm.                                       *)
(***************************************************************************)
EXTENDS Bytes

NoD == -1

Ent(v, d) == [v |-> v, d |-> d]

VStr(b)  == [k |-> "str", b |-> b]
VInt(n)  == [k |-> "int", n |-> n]
VFlt(q)  == [k |-> "flt", q |-> q, inf |-> 0]
VInf(sg) == [k |-> "flt", q |-> 0, inf |-> sg]
VList(l) == [k |-> "list", l |-> l]
VHash(h) == [k |-> "hash", h |-> h]
VSet(s)  == [k |-> "set", s |-> s]
VZSet(z) == [k |-> "zset", z |-> z]

IsScalar(v) == v.k \in {"str", "int", "flt"}

EmptyStore == [x \in {} |-> Ent(VStr(<<>>), NoD)]

Has(S, db, k) == <<db, k>> \in DOMAIN S

\* ExpireAt.Before(now) is strict: a key is still served at the very instant of its deadline
LiveEnt(e, now) == e.d = NoD \/ e.d >= now
LiveS(S, now, db, k) == Has(S, db, k) /\ LiveEnt(S[<<db, k>>], now)

Put(S, db, k, e) == [x \in (DOMAIN S) \cup {<<db, k>>} |-> IF x = <<db, k>> THEN e ELSE S[x]]
Del(S, db, k)    == [x \in (DOMAIN S) \ {<<db, k>>} |-> S[x]]

\* setValues: a live key keeps its deadline, anything else is born without one
SetVal(S, now, db, k, v) ==
    Put(S, db, k, Ent(v, IF LiveS(S, now, db, k) THEN S[<<db, k>>].d ELSE NoD))

SetD(S, db, k, d) == Put(S, db, k, Ent(S[<<db, k>>].v, d))

\* what an observer can see
Norm(S, now) == [x \in {y \in DOMAIN S : LiveEnt(S[y], now)} |-> S[x]]

KeysOf(S, db) == {x[2] : x \in {y \in DOMAIN S : y[1] = db}}

DropDb(S, db) == [x \in {y \in DOMAIN S : y[1] # db} |-> S[x]]

(***************************************************************************)
(* Typing of a written string (internal.AdaptType).  The reference keeps   *)
(* the bytes: a canonical integer or float literal is stored as a number   *)
(* (TYPE says so, and reading it back prints the same bytes), everything   *)
(* else is a string.  The implementation also parses non-canonical         *)
(* literals ("007", "+5", "2.0", ".5") and so reads them back changed:     *)
(* deviation AdaptCanon.                                                   *)
(***************************************************************************)
Typed(b, D) ==
    IF IsCanonInt(b) THEN VInt(CanonIntVal(b))
    ELSE IF IsCanonFloat(b) THEN VFlt(LooseNum(b).q)
    ELSE IF "AdaptCanon" \in D /\ IsLooseNum(b) /\ LooseNum(b).ok
         THEN IF LooseNum(b).isint THEN VInt(LooseNum(b).n) ELSE VFlt(LooseNum(b).q)
    ELSE VStr(b)

\* a numeric-looking string the bounded-integer / quarter-unit model cannot follow (e.g. "0.1",
\* or more than 7 characters of digits): the step that meets one is skipped, never judged
NumericChars(b) == b # <<>> /\ \A i \in DOMAIN b : IsDigit(b[i]) \/ b[i] \in {cPlus, cMinus, cDot}
Unmodelled(b) == IsNumShape(b) /\ (~IsLooseNum(b) \/ ~LooseNum(b).ok)

\* a stored value the model can reason about (the harness marks floats that are not multiples
\* of 1/4 and integers beyond 10^8; hash fields are checked recursively)
RECURSIVE Modellable(_)
Modellable(v) ==
    /\ v.k \in {"str", "int", "flt", "list", "hash", "set", "zset"}
    /\ ~("nonquarter" \in DOMAIN v) /\ ~("big" \in DOMAIN v)
    /\ (v.k = "hash" => \A f \in DOMAIN v.h : Modellable(v.h[f]))
    /\ (v.k = "zset" => \A m \in DOMAIN v.z : ~("nonquarter" \in DOMAIN v.z[m]))

InfBytes(sg) == IF sg > 0 THEN <<43, 73, 110, 102>> ELSE <<45, 73, 110, 102>>   \* "+Inf" / "-Inf"

\* fmt.Sprintf("%v", value) for the scalar kinds
Render(v) == CASE v.k = "str" -> v.b
               [] v.k = "int" -> Dec(v.n)
               [] v.k = "flt" -> IF v.inf # 0 THEN InfBytes(v.inf) ELSE FmtQ(v.q)

TypeName(v) == CASE v.k = "str" -> "string" [] v.k = "int" -> "integer" [] v.k = "flt" -> "float"
                 [] v.k = "list" -> "list" [] v.k = "hash" -> "hash" [] v.k = "set" -> "set"
                 [] v.k = "zset" -> "zset"

(***************************************************************************)
(* Abstract replies.                                                       *)
(***************************************************************************)
ROk      == [t |-> "ok"]
RNil     == [t |-> "nil"]
RErr     == [t |-> "err"]
RInt(n)  == [t |-> "int", n |-> n]
RStr(b)  == [t |-> "str", b |-> b]       \* bulk or simple string carrying exactly these bytes
RArr(a)  == [t |-> "arr", a |-> a]       \* ordered array
RBag(a)  == [t |-> "bag", a |-> a]       \* array whose order is unspecified
RPairBag(a) == [t |-> "pairbag", a |-> a] \* flat array of pairs, pairs in unspecified order
RPanic   == [t |-> "panic"]

=============================================================================
