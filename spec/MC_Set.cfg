SPECIFICATION Spec
CONSTANTS
  Cmds <- MCCmds
  Inits <- MCInits
  DBs <- MCDBs
  TickSizes <- MCTicks
  MaxSteps = 3
  T0 <- MCT0
VIEW View
INVARIANTS STypeOK QueriesAgree Algebra Algebra3
PROPERTIES ErrNoChange Frame SReadOnlyPure AddRemLaw StoreLaw StoreFailsLikePlain MoveLaw WrongTypeFails
CHECK_DEADLOCK FALSE
