------------------------------- MODULE MC_Acl -------------------------------
(***************************************************************************)
(* Bounded model of the ACL user table (Acl.tla): every sequence of up to  *)
(* MaxSteps SETUSER / DELUSER edits with rule lists of up to two tokens    *)
(* from a 22-token alphabet, and every authentication / authorization      *)
(* question about the resulting tables.                                    *)
(***************************************************************************)
EXTENDS Acl, TLC

CONSTANT MaxSteps

VARIABLES users, steps
vars == <<users, steps>>

T(k) == [k |-> k]
TV(k, v) == [k |-> k, v |-> v]

Toks == {T("on"), T("off"), T("nopass"), T("resetpass"), TV("pw", "p1"), TV("hash", "p2"), TV("rmpw", "p1"),
         TV("cat+", "read"), TV("cat-", "write"), T("allcategories"), T("nocommands"), TV("cmd+", "get"), TV("cmd-", "set"),
         T("allcommands"), TV("key", "a:*"), TV("rkey", "*"), TV("wkey", "b:*"), T("allkeys"), T("nokeys"),
         TV("ch+", "n:*"), TV("ch-", "m:1"), T("resetchannels")}

TokSeqs == {<<t>> : t \in Toks} \cup {<<t1, t2>> : t1 \in Toks, t2 \in Toks}

Names == {"u1", "default"}

Default0 == Normalise([NewUser("default") EXCEPT !.pw = {[t |-> "plain", v |-> "root"]}])

Init == users = [n \in {"default"} |-> Default0] /\ steps = 0

Next == /\ steps < MaxSteps /\ steps' = steps + 1
        /\ \/ \E n \in Names, ts \in TokSeqs : users' = SetUser(users, n, ts)
           \/ \E ns \in SUBSET Names : users' = DelUser(users, ns)

Spec == Init /\ [][Next]_vars

\* C11: the default user cannot be deleted
DefaultUndeletable == "default" \in DOMAIN users

\* C11: ACL SAVE then ACL LOAD / a restart reproduces the same users and rules: the stored table is
\* always in the normal form that loading produces
RoundTrip == \A n \in DOMAIN users : Normalise(users[n]) = users[n]

\* C11: authentication follows the stored credentials
AuthIff == \A n \in Names \cup {"ghost"}, p \in {"p1", "p2", "root", "wrong"} :
              AuthOK(users, n, p) <=>
                 (n \in DOMAIN users /\ users[n].on /\
                  (users[n].nopass \/ \E c \in users[n].pw : c.v = p))

Probes == {[name |-> "get", cats |-> {"read", "fast"}, args |-> <<"a:1">>],
           [name |-> "mget", cats |-> {"read", "fast"}, args |-> <<"a:1", "b:1">>],
           [name |-> "set", cats |-> {"write", "slow"}, args |-> <<"b:2">>],
           [name |-> "rename", cats |-> {"write", "fast"}, args |-> <<"a:1", "b:1">>],
           [name |-> "publish", cats |-> {"pubsub", "fast"}, args |-> <<"m:1">>],
           [name |-> "ping", cats |-> {"fast"}, args |-> <<>>]}

\* C06: nothing runs for an unauthenticated, disabled or deleted user except the handshake commands;
\*      a user without key access touches no key; a multi-key command needs every key allowed
Gate == \A n \in Names \cup {"ghost"}, a \in BOOLEAN, cmd \in Probes :
           Authorized(users, [user |-> n, authed |-> a], cmd) =>
              \/ cmd.name \in Exempt
              \/ /\ a /\ n \in DOMAIN users /\ users[n].on
                 /\ (cmd.name \in {"get", "mget"} => \A k \in {cmd.args[i] : i \in 1..Len(cmd.args)} :
                                                        \E p \in users[n].rk : Match(p, k))
                 /\ (cmd.name \in {"set", "rename"} => \A k \in {cmd.args[i] : i \in 1..Len(cmd.args)} :
                                                          \E p \in users[n].wk : Match(p, k))
                 /\ (cmd.name \in {"get", "mget", "set", "rename"} => ~users[n].nokeys)

=============================================================================
