----------------------------- MODULE Trace_Evict -----------------------------
(***************************************************************************)
(* C08: the max-memory policy.  Histories of writes, reads, expiry edits,  *)
(* deletes and flushes on a real server with a memory limit, under each of *)
(* the seven policies.  After each command the harness waits for the       *)
(* asynchronous cache-update goroutines (counted through instrumentation   *)
(* points) and records the evictions that happened - each with the memory  *)
(* figure before it and the contents of the cache it was taken from at     *)
(* that very moment - and the dataset, memory figure, volatile-key index   *)
(* and caches afterwards.                                                  *)
(*                                                                         *)
(* Every command is judged by Exec (the dataset must be what the command   *)
(* yields, minus exactly the evicted keys) and every eviction by:          *)
(*   OnlyWhenOver    the figure before it was at or above the limit        *)
(*   FromCandidates  volatile-* only evict keys that have an expiry, and   *)
(*                   nothing is evicted under noeviction                   *)
(*   InOrder         LRU: the least recently used entry of the cache; LFU: *)
(*                   an entry with the smallest access count; and the      *)
(*                   cache holds every key the policy may evict            *)
(*   GoneCompletely  an evicted key is in no cache, not in the volatile    *)
(*                   index and not in the dataset afterwards               *)
(* and under noeviction a command that stores a value is refused while the *)
(* figure is at or above the limit.                                        *)
(*                                                                         *)
(* "Least frequently used" is anchored in the history, not in the cache's  *)
(* own bookkeeping: after every command the driver asks the server         *)
(* (OBJECTFREQ) for the access count of every key, and the variable frq    *)
(* carries the counts from step to step (FreqOK): a key no command names   *)
(* keeps its count, a key that is read gains at least one, a key enters    *)
(* the cache only through a command that names it and starts at one access,*)
(* and the counts the victim was compared with at the moment of an         *)
(* eviction are these counts (Anchored).  "Least recently used" likewise:  *)
(* OBJECTIDLETIME on every key gives the time of its last access (an       *)
(* interval of wall-clock milliseconds, as wide as the call took), carried *)
(* in lst (IdleOK): untouched keys keep it, a key that is read gets a      *)
(* stamp not older than the command that read it.                          *)
(***************************************************************************)
EXTENDS Proj, Json, IOUtils, TLC

CONSTANT Deviations

Trace == ndJsonDeserialize(IOEnv.TRACE)

VARIABLES l, st, pmem, dev, frq, lst
vars == <<l, st, pmem, dev, frq, lst>>

Ev == Trace[l]
HasDev(n) == n \in Deviations

StoringOps == {"SET", "MSET", "APPEND", "RPUSH", "LPUSH", "INCR", "SETRANGE", "HSET", "SADD", "ZADD"}

Init == l = 1 /\ st = EmptyStore /\ pmem = 0 /\ dev = [n \in Deviations |-> 0] /\ frq = <<>> /\ lst = <<>>

TReset == /\ l <= Len(Trace) /\ Ev.ev = "reset"
          /\ st' = ProjStore(Ev.st) /\ pmem' = Ev.mem
          /\ l' = l + 1 /\ frq' = <<>> /\ lst' = <<>> /\ UNCHANGED dev

Ctx(e) == [S |-> st, now |-> e.now, db |-> e.db, D |-> Deviations]

\* what the command itself yields (noeviction: storing commands are refused at or above the limit)
Outcome(e) ==
    IF e.policy = "noeviction" /\ pmem >= e.max /\ e.cmd[1].s \in StoringOps
    THEN Fail(Ctx(e))
    ELSE Exec(Ctx(e), e.cmd, e.r)

Minus(S, gone) == [x \in {y \in DOMAIN S : ~(y \in gone)} |-> S[x]]

\* one eviction, judged against the store S it was taken from
Volatile(pol) == pol \in {"volatile-lru", "volatile-lfu", "volatile-random"}
Cand(ev) == {c \in {ev.cands[i] : i \in DOMAIN ev.cands} : TRUE}
VictimMeta(ev) == {c \in Cand(ev) : c.key = ev.key}

EvictOK(e, ev, S, strict) ==
    LET x == <<ev.db, ev.key>> IN
    /\ e.policy # "noeviction"
    /\ ev.membefore >= e.max                                               \* OnlyWhenOver
    /\ x \in DOMAIN S                                                      \* a key that is there
    /\ (Volatile(e.policy) => S[x].d # NoD)                                \* FromCandidates
    /\ CASE e.policy \in {"allkeys-lru", "volatile-lru"} ->
              /\ VictimMeta(ev) # {}
              /\ IF strict THEN \E v \in VictimMeta(ev) : \A c \in Cand(ev) : v.a <= c.a     \* least recently used
                 ELSE \E v \in VictimMeta(ev) : \A c \in Cand(ev) : v.a >= c.a               \* the code: most recently used
         [] e.policy \in {"allkeys-lfu", "volatile-lfu"} ->
              /\ VictimMeta(ev) # {}
              /\ \E v \in VictimMeta(ev) : \A c \in Cand(ev) : v.a <= c.a                     \* least frequently used
         [] OTHER -> TRUE

\* "in the policy's order" is an order over ALL keys the policy may evict: the cache the victim is picked from
\* must hold every one of them.  Judged for the keys that were there before the command and that the command
\* does not name (those are in flux: the cache learns about them after the command).
CmdKeys(e) == {<<e.db, e.cmd[i].s>> : i \in {j \in 2..Len(e.cmd) : IsSym(e.cmd[j])}}
CandKeys(ev) == {<<ev.db, c.key>> : c \in Cand(ev)}
CompleteOK(e, ev, S) ==
    e.policy \in {"allkeys-lru", "volatile-lru", "allkeys-lfu", "volatile-lfu"} =>
        \A x \in (DOMAIN st) \cap (DOMAIN S) :
            (x[1] = ev.db /\ ~(x \in CmdKeys(e)) /\ (Volatile(e.policy) => (st[x].d # NoD /\ S[x].d # NoD)))
                => x \in CandKeys(ev)

\* LFU: the counts the victim was compared with are the counts of the history so far (keys the command itself
\* names are in flux while it runs)
Lfu(pol) == pol \in {"allkeys-lfu", "volatile-lfu"}
Anchored(e, ev) ==
    Lfu(e.policy) =>
        \A c \in Cand(ev) : LET x == <<ev.db, c.key>> IN (x \in DOMAIN frq /\ ~(x \in CmdKeys(e))) => c.a = frq[x]

\* the access counts reported after the command (OBJECTFREQ on every key that is there; n = -1: the command refused)
MaxTouch == 4           \* no handler looks a key up more often than this per occurrence in its command
FreqOf(e) ==
    LET xs == {e.freq[i] : i \in DOMAIN e.freq}
        ys == {f \in xs : f.n >= 0}
    IN [x \in {<<f.db, f.key>> : f \in ys} |-> (CHOOSE f \in ys : f.db = x[1] /\ f.key = x[2]).n]
FreqOK(e, after) ==
    IF ~Lfu(e.policy) THEN \A i \in DOMAIN e.freq : e.freq[i].n = -1           \* no LFU policy, no counts
    ELSE LET F == FreqOf(e)
             named == CmdKeys(e)
             Re(x) == x \in DOMAIN st /\ st[x].d # NoD /\ st[x].d <= e.now        \* expired before the command: a write re-creates it
             Kept(x) == x \in DOMAIN F /\ x \in DOMAIN frq
         IN /\ \A i \in DOMAIN e.freq : e.freq[i].n >= -1
            \* the command reports exactly what the cache holds, and the cache holds only keys that are there
            /\ DOMAIN F = {<<e.lfu[i].db, e.lfu[i].key>> : i \in DOMAIN e.lfu}
            /\ \A x \in DOMAIN F : x \in DOMAIN after
            /\ \A x \in DOMAIN F :
                  IF x \in DOMAIN frq
                  THEN IF x \in named
                       THEN \/ (frq[x] <= F[x] /\ F[x] <= frq[x] + MaxTouch)
                            \/ (Re(x) /\ F[x] \in 1..MaxTouch)
                       ELSE F[x] = frq[x]                                          \* not named: not accessed
                  ELSE x \in named /\ F[x] \in 1..MaxTouch                         \* enters through a command that names it
            \* an access is counted
            /\ (e.cmd[1].s \in {"GET", "MGET", "TOUCH"} \/ (e.policy = "allkeys-lfu" /\ e.cmd[1].s \in StoringOps /\ e.r.t # "err")) =>
                  \A x \in named : (Kept(x) /\ ~Re(x)) => F[x] >= frq[x] + 1

\* the last-access times reported after the command (OBJECTIDLETIME on every key that is there; lo = -1: refused)
Lru(pol) == pol \in {"allkeys-lru", "volatile-lru"}
IdleOf(e) ==
    LET xs == {e.idle[i] : i \in DOMAIN e.idle}
        ys == {f \in xs : f.lo >= 0}
    IN [x \in {<<f.db, f.key>> : f \in ys} |-> LET f == CHOOSE g \in ys : g.db = x[1] /\ g.key = x[2] IN [lo |-> f.lo, hi |-> f.hi]]
Meets(a, b) == a.lo <= b.hi /\ b.lo <= a.hi
IdleOK(e, after) ==
    IF ~Lru(e.policy) THEN \A i \in DOMAIN e.idle : e.idle[i].lo = -1 /\ e.idle[i].hi = -1
    ELSE LET T == IdleOf(e)
             named == CmdKeys(e)
             Re(x) == x \in DOMAIN st /\ st[x].d # NoD /\ st[x].d <= e.now
         IN /\ \A i \in DOMAIN e.idle : e.idle[i].lo >= -1 /\ e.idle[i].lo <= e.idle[i].hi
            /\ DOMAIN T = {<<e.lru[i].db, e.lru[i].key>> : i \in DOMAIN e.lru}
            /\ \A x \in DOMAIN T : x \in DOMAIN after
            /\ \A x \in DOMAIN T :
                  IF x \in DOMAIN lst
                  THEN IF x \in named THEN T[x].hi >= lst[x].lo                      \* never older than before
                       ELSE Meets(T[x], lst[x])                                       \* not named: not accessed
                  ELSE x \in named /\ T[x].hi >= e.t0                                \* enters through a command that names it, now
            \* an access refreshes the stamp
            /\ (e.cmd[1].s \in {"GET", "MGET", "TOUCH"} \/ (e.policy = "allkeys-lru" /\ e.cmd[1].s \in StoringOps /\ e.r.t # "err")) =>
                  \A x \in named : (x \in DOMAIN T /\ x \in DOMAIN lst /\ ~Re(x)) => T[x].hi >= e.t0
AnchoredLru(e, ev) ==
    Lru(e.policy) =>
        \A c \in Cand(ev) : LET x == <<ev.db, c.key>> IN
            (x \in DOMAIN lst /\ ~(x \in CmdKeys(e))) => (lst[x].lo <= c.a /\ c.a <= lst[x].hi)

\* the evictions of one step happen one after the other: each one sees the figure the previous one left behind
\* (m = that figure, -1 before the first), so none of them removes a key that was no longer needed
RECURSIVE EvictFoldM(_, _, _, _, _)
EvictFoldM(e, evs, S, strict, m) ==
    IF evs = <<>> THEN TRUE
    ELSE LET ev == Head(evs)   x == <<ev.db, ev.key>> IN
         /\ EvictOK(e, ev, S, strict) /\ CompleteOK(e, ev, S) /\ Anchored(e, ev) /\ AnchoredLru(e, ev)
         /\ (m >= 0 => ev.membefore = m)
         /\ EvictFoldM(e, Tail(evs), Minus(S, {x}), strict, ev.membefore - EntryMem(S, x))
EvictFold(e, evs, S, strict) == EvictFoldM(e, evs, S, strict, -1)

Gone(e) == {<<e.evicts[i].db, e.evicts[i].key>> : i \in DOMAIN e.evicts}

InList(xs, x) == \E i \in DOMAIN xs : xs[i].db = x[1] /\ xs[i].key = x[2]

TCmd == /\ l <= Len(Trace) /\ Ev.ev = "cmd"
        /\ LET e == Ev
               o == Outcome(e)
               after == ProjStore(e.st)
           IN /\ e.quiet /\ ~(e.r.t \in {"panic", "hang"})                 \* the server keeps running
              /\ o.rel \in {"eq", "skip"}
              /\ (o.rel = "eq" =>
                    /\ ReplyEq(o.r, e.r)
                    /\ Norm(Minus(o.S, Gone(e)), e.now) = Norm(after, e.now))   \* survivors unchanged, victims gone
              /\ (e.policy = "noeviction" => e.evicts = <<>>)
              /\ LET strictOK == EvictFold(e, e.evicts, o.S, TRUE)
                     codeOK   == EvictFold(e, e.evicts, o.S, FALSE)
                 IN /\ (strictOK \/ (HasDev("LruEvictsNewest") /\ codeOK))
                    /\ dev' = [n \in Deviations |-> IF n = "LruEvictsNewest" /\ ~strictOK THEN dev[n] + 1 ELSE dev[n]]
              \* GoneCompletely
              /\ \A x \in Gone(e) : ~(x \in DOMAIN after) /\ ~InList(e.vol, x) /\ ~InList(e.lru, x) /\ ~InList(e.lfu, x)
              \* "when": once a storing command has completed (and the cache updates it started have run), usage is
              \* back under the limit - unless the policy has nothing left that it may evict
              /\ (e.policy # "noeviction" /\ e.cmd[1].s \in StoringOps /\ e.r.t # "err") =>
                    (e.mem < e.max \/ {x \in DOMAIN after : Volatile(e.policy) => after[x].d # NoD} = {})
              \* "who": the volatile-key index, and under volatile-* policies the cache the victims come from, hold only
              \* keys that are there and carry a deadline
              /\ \A i \in DOMAIN e.vol : LET x == <<e.vol[i].db, e.vol[i].key>> IN x \in DOMAIN after /\ after[x].d # NoD
              /\ Volatile(e.policy) =>
                    /\ \A i \in DOMAIN e.lru : LET x == <<e.lru[i].db, e.lru[i].key>> IN x \in DOMAIN after /\ after[x].d # NoD
                    /\ \A i \in DOMAIN e.lfu : LET x == <<e.lfu[i].db, e.lfu[i].key>> IN x \in DOMAIN after /\ after[x].d # NoD
              \* the figure is the accounted size of what is left
              /\ e.mem = MemOf(after)
              /\ FreqOK(e, after)
              /\ frq' = FreqOf(e)
              /\ IdleOK(e, after)
              /\ lst' = IdleOf(e)
              /\ st' = after /\ pmem' = e.mem
        /\ l' = l + 1

DiagLine == IF "DIAG" \in DOMAIN IOEnv THEN atoi(IOEnv.DIAG) ELSE 0
TStuck == /\ l <= Len(Trace) /\ l = DiagLine /\ Ev.ev = "cmd"
          /\ PrintT(<<"MISMATCH-LINE", l>>)
          /\ PrintT(<<"MISMATCH-CMD", Ev.cmd, "policy", Ev.policy, "limit", Ev.max, "figure before", pmem, "figure after", Ev.mem>>)
          /\ PrintT(<<"MISMATCH-NOTE", "evictions", Ev.evicts>>)
          /\ PrintT(<<"MISMATCH-MODEL-REPLY", Outcome(Ev).r>>)
          /\ PrintT(<<"MISMATCH-LOGGED-REPLY", Ev.r>>)
          /\ PrintT(<<"MISMATCH-MODEL-STATE", Norm(Minus(Outcome(Ev).S, Gone(Ev)), Ev.now)>>)
          /\ PrintT(<<"MISMATCH-LOGGED-STATE", Norm(ProjStore(Ev.st), Ev.now)>>)
          /\ PrintT(<<"MISMATCH-MEM", "MemOf(dataset after)", MemOf(ProjStore(Ev.st))>>)
          /\ PrintT(<<"MISMATCH-NOTE", "access counts before", frq, "reported after", Ev.freq, "LFU cache", Ev.lfu>>)
          /\ PrintT(<<"MISMATCH-NOTE", "last accesses before", lst, "reported after", Ev.idle, "LRU cache", Ev.lru, "command started at", Ev.t0>>)
          /\ FALSE /\ UNCHANGED vars

Next == TReset \/ TCmd \/ TStuck
Spec == Init /\ [][Next]_vars
Report == (l = Len(Trace) + 1) => PrintT(<<"SUMMARY", Len(Trace), dev, 0>>)
TraceAccepted == TLCGet("stats").diameter - 1 = Len(Trace)
=============================================================================
