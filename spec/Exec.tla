-------------------------------- MODULE Exec --------------------------------
(***************************************************************************)
(* Exec(C, a, g): the single definition of what a command means.           *)
(* C = [S, now, db, D], a = token sequence, g = the reply that was         *)
(* observed (only consulted by commands whose outcome involves a random    *)
(* choice - SPOP, SRANDMEMBER, HRANDFIELD, ZRANDMEMBER, RANDOMKEY: the     *)
(* choice the implementation made is read off g, checked to be a legal     *)
(* one, and the rest of the outcome is a function of it).                  *)
(* Result: [S, r, rel].                                                    *)
(* rel = "eq"    the reply must equal r and the next store must equal S    *)
(*       "skip"  the step is outside the model; nothing is claimed         *)
(*       "panic" the implementation deviation kills the process            *)
(*       other   relational: judged against the logged reply (ExecND)      *)
(***************************************************************************)
EXTENDS CmdGeneric, CmdString, CmdHash, CmdList, CmdSet, CmdZSet, Mem

Modelled == {"SET", "MSET", "GET", "MGET", "DEL", "PERSIST", "EXPIRETIME", "PEXPIRETIME", "TTL", "PTTL",
             "EXPIRE", "PEXPIRE", "EXPIREAT", "PEXPIREAT", "INCR", "DECR", "INCRBY", "DECRBY",
             "INCRBYFLOAT", "RENAME", "FLUSHDB", "FLUSHALL", "SWAPDB", "RANDOMKEY", "TOUCH", "GETDEL", "GETEX", "TYPE",
             "APPEND", "SETRANGE", "STRLEN", "GETRANGE", "SUBSTR"}

\* a command naming a key whose current value is outside the model is not judged
TouchesUnmodelled(C, a) ==
    \E i \in 2..Len(a) : IsSym(a[i]) /\ Has(C.S, C.db, a[i].s) /\ ~Modellable(ValOf(C, a[i].s))

Exec(C, a, g) ==
    LET op == a[1].s IN
    CASE TouchesUnmodelled(C, a) -> Skip(C)
      [] op = "SET"         -> XSet(C, a)
      [] op = "MSET"        -> XMSet(C, a)
      [] op = "GET"         -> XGet(C, a)
      [] op = "MGET"        -> XMGet(C, a)
      [] op = "DEL"         -> XDel(C, a)
      [] op = "PERSIST"     -> XPersist(C, a)
      [] op = "EXPIRETIME"  -> XExpireTime(C, a, FALSE)
      [] op = "PEXPIRETIME" -> XExpireTime(C, a, TRUE)
      [] op = "TTL"         -> XTtl(C, a, FALSE)
      [] op = "PTTL"        -> XTtl(C, a, TRUE)
      [] op = "EXPIRE"      -> XExpire(C, a, "EX")
      [] op = "PEXPIRE"     -> XExpire(C, a, "PX")
      [] op = "EXPIREAT"    -> XExpire(C, a, "EXAT")
      [] op = "PEXPIREAT"   -> XExpire(C, a, "PXAT")
      [] op = "INCR"        -> XIncr(C, a, 1)
      [] op = "DECR"        -> XIncr(C, a, -1)
      [] op = "INCRBY"      -> XIncrBy(C, a, 1)
      [] op = "DECRBY"      -> XIncrBy(C, a, -1)
      [] op = "INCRBYFLOAT" -> XIncrByFloat(C, a)
      [] op = "RENAME"      -> XRename(C, a)
      [] op = "FLUSHDB"     -> XFlush(C, a, FALSE)
      [] op = "FLUSHALL"    -> XFlush(C, a, TRUE)
      [] op = "SWAPDB"      -> XSwapDb(C, a)
      [] op = "RANDOMKEY"   -> XRandomKey(C, a, g)
      [] op = "TOUCH"       -> XTouch(C, a)
      [] op = "GETDEL"      -> XGetDel(C, a)
      [] op = "GETEX"       -> XGetEx(C, a)
      [] op = "TYPE"        -> XType(C, a)
      [] op = "APPEND"      -> XAppend(C, a)
      [] op = "SETRANGE"    -> XSetRange(C, a)
      [] op = "STRLEN"      -> XStrLen(C, a)
      [] op \in {"GETRANGE", "SUBSTR"} -> XGetRange(C, a)
      [] op \in HashOps     -> ExecHash(C, a, g)
      [] op \in ListOps     -> ExecList(C, a, g)
      [] op \in SetOps      -> ExecSet(C, a, g)
      [] op \in ZSetOps     -> ExecZSet(C, a, g)
      [] OTHER              -> Skip(C)

\* deviations that can influence the outcome of a command (keeps the search small)
RelevantDevs(a) ==
    LET op == a[1].s IN
    CASE op \in {"SET", "MSET", "APPEND"} -> {"AdaptCanon"}
      [] op = "SWAPDB" -> {"SwapDbConnsOnly"}
      [] op \in HashOps -> HashDevs(a)
      [] op \in ListOps -> ListDevs(a)
      [] op \in SetOps  -> SetDevs(a)
      [] op \in ZSetOps -> ZSetDevs(a)
      [] OTHER -> {}

(***************************************************************************)
(* Reply matching: the logged reply is the harness's parse of the bytes    *)
(* the server produced ([t |-> "simple"|"bulk"|"int"|"nil"|"err"|"arr"|    *)
(* "malformed"|"panic"...]).  Error texts are not compared; a string reply *)
(* may be a simple or a bulk string as long as it carries the same bytes.  *)
(***************************************************************************)
\* RArr: ordered.  RBag: same elements in any order.  RPairBag: flat array of (x, y) pairs, the
\* pairs in any order (HGETALL, ... WITHSCORES of unordered results).
RECURSIVE ReplyEq(_, _)
ReplyEq(m, g) ==
    CASE m.t = "ok"    -> g.t = "simple" /\ g.b = <<79, 75>>
      [] m.t = "nil"   -> g.t = "nil"
      [] m.t = "err"   -> g.t = "err"
      [] m.t = "int"   -> g.t = "int" /\ g.n = m.n
      [] m.t = "str"   -> g.t \in {"simple", "bulk"} /\ g.b = m.b
      [] m.t = "arr"   -> g.t = "arr" /\ Len(g.a) = Len(m.a) /\ \A i \in 1..Len(m.a) : ReplyEq(m.a[i], g.a[i])
      [] m.t = "bag"   -> /\ g.t = "arr" /\ Len(g.a) = Len(m.a)
                          /\ \A i \in 1..Len(m.a) :
                                Cardinality({j \in 1..Len(m.a) : m.a[j] = m.a[i]})
                                  = Cardinality({j \in 1..Len(g.a) : ReplyEq(m.a[i], g.a[j])})
      [] m.t = "pairbag" ->
                          /\ g.t = "arr" /\ Len(g.a) = Len(m.a) /\ Len(m.a) % 2 = 0
                          /\ LET n == Len(m.a) \div 2 IN
                             \A i \in 1..n :
                                Cardinality({j \in 1..n : m.a[2*j-1] = m.a[2*i-1] /\ m.a[2*j] = m.a[2*i]})
                                  = Cardinality({j \in 1..n : ReplyEq(m.a[2*i-1], g.a[2*j-1]) /\ ReplyEq(m.a[2*i], g.a[2*j])})
      [] m.t = "panic" -> g.t = "panic"
      [] OTHER         -> FALSE

=============================================================================
