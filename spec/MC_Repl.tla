------------------------------ MODULE MC_Repl ------------------------------
(***************************************************************************)
(* Bounded instance of Repl with a small abstract algebra of writes:       *)
(*   set   overwrite (idempotent)          incr  non-idempotent             *)
(*   rel   relative expiry: the deadline is clock + d                       *)
(*   rand  random pop: the member removed is a choice                       *)
(* Design = "ideal": the leader resolves the clock and the choice before   *)
(* it appends, so every entry is Stable.  Design = "code": the raw command *)
(* is logged and every node resolves it on its own (what SugarDB does      *)
(* today: open findings ReplApplyClock, ReplRandomPop) - AgreementStrict   *)
(* is violated, Agreement (restricted to stable entries) still holds.      *)
(* LocalWrites = TRUE adds the fault "a follower executes a client write   *)
(* on its own dataset": OnlyByLog is violated.                             *)
(***************************************************************************)
EXTENDS Integers, Sequences, FiniteSets, SequencesExt, TLC

CONSTANTS Design, LocalWrites, MaxId, MaxEnv, Dbs

Node == {"n1", "n2", "n3"}
NoNode == "none"
Keys == {"k"}
Kinds == {"set", "incr", "rel", "rand"}
Picks == {1, 2}

EmptyData == [x \in Dbs \X Keys |-> <<>>]

ApplyCmd(d, e, now, choice) ==
    IF e.del THEN [d EXCEPT ![<<e.db, e.cmd>>] = <<>>]
    ELSE LET x == <<e.db, e.cmd.key>> IN
         CASE e.cmd.kind = "set"  -> [d EXCEPT ![x] = <<-1>>]
           [] e.cmd.kind = "incr" -> [d EXCEPT ![x] = Append(@, -2)]
           [] e.cmd.kind = "rel"  -> [d EXCEPT ![x] = <<-3, IF Design = "ideal" THEN e.cmd.at ELSE now>>]
           [] e.cmd.kind = "rand" -> [d EXCEPT ![x] = Append(@, IF Design = "ideal" THEN e.cmd.pick ELSE choice)]

Stable(e) == Design = "ideal" \/ e.del \/ e.cmd.kind \in {"set", "incr"}

INSTANCE Repl

VARIABLES R, ever, env      \* env: number of environment steps (clock, membership, leadership) taken
vars == <<R, ever, env>>

Init == R = [InitR("n1", [n \in Node |-> n = "n2"]) EXCEPT !.members = {"n1", "n2"}] /\ ever = {"n1", "n2"} /\ env = 0

Resolve(kind, key, n, pick) ==
    IF Design = "ideal" THEN [kind |-> kind, key |-> key, at |-> R.clock[n], pick |-> pick]
    ELSE [kind |-> kind, key |-> key, at |-> 0, pick |-> 0]

DoSubmit == \E n \in R.members, db \in Dbs, kind \in Kinds, key \in Keys, pick \in Picks :
               /\ R.nid <= MaxId
               /\ R' = Submit(R, n, db, Resolve(kind, key, n, pick)) /\ UNCHANGED <<ever, env>>
DoDeliver == \E e \in R.pend : CanDeliver(R, e) /\ R' = Deliver(R, e) /\ UNCHANGED <<ever, env>>
DoApply == \E n \in Node, ch \in Picks : CanApply(R, n) /\ R' = ApplyOne(R, n, ch) /\ UNCHANGED <<ever, env>>
DoAck == \E i \in {Len(R.log)} \ {0} : CanAck(R, i) /\ ~R.log[i].del /\ R' = Ack(R, i) /\ UNCHANGED <<ever, env>>
Spend == env < MaxEnv /\ env' = env + 1
DoTick == \E n \in R.members : Spend /\ R' = Tick(R, n, 1) /\ UNCHANGED ever
DoExpire == \E db \in Dbs, k \in Keys : R.leader # NoNode /\ R.nid <= MaxId /\ R' = Expire(R, db, k) /\ UNCHANGED <<ever, env>>
DoTransfer == \E m \in Node : CanTransfer(R, m) /\ Spend /\ R' = Transfer(R, m) /\ UNCHANGED ever
DoElect == \E m \in R.members : R.leader = NoNode /\ R' = Transfer(R, m) /\ UNCHANGED <<ever, env>>
DoJoin == \E n \in Node \ ever : R.leader # NoNode /\ Spend /\ R' = Join(R, n) /\ ever' = ever \cup {n}
DoStop == \E n \in R.members : Cardinality(R.members) > 1 /\ Spend /\ R' = Stop(R, n) /\ UNCHANGED ever
DoInstall == \E n, s \in R.members : R.applied[n] < R.applied[s] /\ Spend /\ R' = Install(R, n, s) /\ UNCHANGED ever

\* the fault a conformance check must catch: a non-leader executes the write itself
DoLocalWrite == /\ LocalWrites
                /\ \E n \in R.members, key \in Keys :
                      /\ n # R.leader
                      /\ R' = [R EXCEPT !.data[n] = ApplyCmd(@, [id |-> 0, db |-> 0, del |-> FALSE,
                                                               cmd |-> [kind |-> "set", key |-> key, at |-> 0, pick |-> 0]], 0, 1)]
                /\ UNCHANGED <<ever, env>>

Next == DoSubmit \/ DoDeliver \/ DoApply \/ DoAck \/ DoTick \/ DoExpire \/ DoTransfer \/ DoElect
        \/ DoJoin \/ DoStop \/ DoInstall \/ DoLocalWrite

Spec == Init /\ [][Next]_vars

InvTypeOK == TypeOK(R)
InvIsReplay == IsReplay(R)
InvAgreement == Agreement(R)
InvAgreementStrict == AgreementStrict(R)
InvReadYourWrites == ReadYourWrites(R)
InvHanded == Handed(R)
PropOnlyByLog == [][OnlyByLog(R, R')]_vars
PropAppendOnly == [][AppendOnly(R, R')]_vars

\* once replication quiesces every node holds the same dataset
Quiescent == R.pend = {} /\ \A n \in R.members : R.applied[n] = Len(R.log)
InvConverged == (Design = "ideal" /\ Quiescent) => \A a, b \in R.members : R.data[a] = R.data[b]
=============================================================================
