-------------------------------- MODULE Mem --------------------------------
(***************************************************************************)
(* The accounted size of a dataset: the function the server's memory-usage *)
(* figure is supposed to equal (C19).  Transcribed from KeyData.GetMem     *)
(* (internal/types.go), Set.GetMem and SortedSet.GetMem; the machine       *)
(* constants are those of a 64-bit build: time.Time 24, string header 16,  *)
(* int/float64/pointer/map header 8, interface 16, MemberObject 32.        *)
(***************************************************************************)
EXTENDS Store

RECURSIVE SumSeq(_, _)
SumSeq(f(_), s) == IF s = <<>> THEN 0 ELSE f(Head(s)) + SumSeq(f, Tail(s))

RECURSIVE SumSet(_, _)
SumSet(f(_), s) == IF s = {} THEN 0 ELSE LET x == CHOOSE x \in s : TRUE IN f(x) + SumSet(f, s \ {x})

ScalarMem(v) == CASE v.k = "str" -> 16 + Len(v.b)
                  [] v.k \in {"int", "int64", "flt"} -> 8
                  [] OTHER -> 0

ValMem(v) ==
    CASE v.k \in {"str", "int", "int64", "flt"} -> ScalarMem(v)
      [] v.k = "list" -> LET e(x) == 16 + Len(x) IN SumSeq(e, v.l)
      [] v.k = "hash" -> LET e(f) == 16 + Len(f) + ScalarMem(v.h[f]) IN 8 + SumSet(e, DOMAIN v.h)
      [] v.k = "set"  -> LET e(m) == 16 + Len(m) + 16 IN 16 + SumSet(e, v.s)
      [] v.k = "zset" -> LET e(m) == 16 + Len(m) + 32 + 16 + Len(m) IN 8 + SumSet(e, DOMAIN v.z)
      [] OTHER -> 0

\* x = <<db, key>>; the key is a TLA+ string, Len gives its byte length for ASCII keys
EntryMem(S, x) == 24 + ValMem(S[x].v) + 16 + Len(x[2])

MemOf(S) == LET e(x) == EntryMem(S, x) IN SumSet(e, DOMAIN S)

=============================================================================
