SPECIFICATION Spec
CONSTANTS
  MaxCmds = 3
  MaxRewrites = 2
  MaxCrashes = 1
  Strategy = "always"
  Atomic = TRUE
INVARIANTS TypeOK ImageOK MemIsPrefix
PROPERTIES RecoverExact
CHECK_DEADLOCK FALSE
