"""Checks built on the sequential pipeline:
   real server --(driver)--> ndjson trace --(TLC, Trace_Sugar)--> accepted / rejected
   plus a bounded TLC run of the reference machine (MC_* configs)."""
import json, os, shutil, time
from concurrent.futures import ThreadPoolExecutor

from . import common as c


def split_trace(path, parts, outdir, split_any=False):
    """Split an ndjson trace at reset events into about `parts` files. Returns [(file, first_line_no)]."""
    with open(path) as f:
        lines = f.readlines()
    if split_any:
        # events are independent of each other: cut anywhere
        n = max(1, (len(lines) + parts - 1) // parts)
        out = []
        for k, a in enumerate(range(0, len(lines), n)):
            p = os.path.join(outdir, "chunk%03d.ndjson" % k)
            with open(p, "w") as f:
                f.writelines(lines[a:a + n])
            out.append((p, a, len(lines[a:a + n])))
        return out, lines
    starts = [i for i, l in enumerate(lines) if l.startswith('{"ev":"reset"') or '"ev":"reset"' in l[:200]]
    if not starts or starts[0] != 0:
        raise c.Infra("trace %s does not start with a reset event" % path)
    target = max(1, len(lines) // parts)
    chunks, cur = [], 0
    for s in starts[1:] + [len(lines)]:
        if s - cur >= target or s == len(lines):
            if s > cur:
                chunks.append((cur, s))
                cur = s
    out = []
    for n, (a, b) in enumerate(chunks):
        p = os.path.join(outdir, "chunk%03d.ndjson" % n)
        with open(p, "w") as f:
            f.writelines(lines[a:b])
        out.append((p, a, b - a))
    return out, lines


def write_cfg(path, spec_consts, invariants=(), properties=(), post=None, view=None, spec="Spec"):
    with open(path, "w") as f:
        f.write("SPECIFICATION %s\n" % spec)
        if spec_consts:
            f.write("CONSTANTS\n")
            for k, v in spec_consts.items():
                f.write("  %s\n" % (("%s = %s" % (k, v)) if not str(v).startswith("<-") else ("%s %s" % (k, v))))
        if view:
            f.write("VIEW %s\n" % view)
        if invariants:
            f.write("INVARIANTS " + " ".join(invariants) + "\n")
        if properties:
            f.write("PROPERTIES " + " ".join(properties) + "\n")
        if post:
            f.write("POSTCONDITION %s\n" % post)
        f.write("CHECK_DEADLOCK FALSE\n")


def validate_trace(trace_spec, trace, deviations, workdir, parts=8, heap="3g", consts=None, no_checkmem=False,
                   no_deviations=False, split_any=False):
    """Validate one trace file against a trace spec. Returns dict with accepted, fail_line, deviations, skips."""
    chunks, lines = split_trace(trace, parts, workdir, split_any=split_any)
    cfg = os.path.join(workdir, "trace.cfg")
    k = {} if no_deviations else {"Deviations": c.tla_set(deviations)}
    if not no_checkmem:
        k["CheckMem"] = "FALSE"
    if consts:
        k.update(consts)
    write_cfg(cfg, k, invariants=["Report"], post="TraceAccepted")

    def one(ch):
        path, first, n = ch
        r = c.tlc(trace_spec + ".tla", cfg, workdir, env={"TRACE": path}, workers=1, heap=heap, timeout=3600)
        return ch, r

    results = []
    with ThreadPoolExecutor(max_workers=min(len(chunks), 12)) as ex:
        for ch, r in ex.map(one, chunks):
            results.append((ch, r))
    out = {"accepted": True, "events": len(lines), "generated": 0, "distinct": 0, "deviations": {}, "skipped": 0,
           "fail": None, "examples": {}}
    for (path, first, n), r in results:
        out["generated"] += r.generated
        out["distinct"] += r.distinct
        if r.eval_error and not r.postcondition_false:
            raise c.Infra("TLC evaluation error on %s:\n%s" % (path, r.out[-3000:]))
        for d in r.printed("DEVIATION"):
            # << "DEVIATION", line, {names}, cmd >>
            names = d.split("{", 1)[1].split("}", 1)[0].replace('"', "").split(",")
            for nm in [x.strip() for x in names if x.strip()]:
                out["examples"].setdefault(nm, d[:400])
        if r.ok:
            sm = r.printed("SUMMARY")
            if not sm:
                raise c.Infra("TLC accepted %s but printed no SUMMARY:\n%s" % (path, r.out[-2000:]))
            body = sm[-1]
            inner = body.split("[", 1)[1].split("]", 1)[0] if "[" in body else ""
            for kv in inner.split(","):
                if "|->" in kv:
                    nm, cnt = kv.split("|->")
                    if int(cnt) > 0:
                        out["deviations"][nm.strip()] = out["deviations"].get(nm.strip(), 0) + int(cnt)
            out["skipped"] += int(body.rsplit(",", 1)[1].replace(">>", "").strip())
            continue
        if not r.postcondition_false:
            raise c.Infra("TLC failed on %s without a verdict:\n%s" % (path, r.out[-3000:]))
        # rejected: the diameter is the number of the first line nothing explains (within the chunk)
        line_in_chunk = r.depth
        if not r.printed("MISMATCH-LINE"):
            # specs that print diagnostics only on request: second pass aimed at the rejected line
            r2 = c.tlc(trace_spec + ".tla", cfg, workdir, env={"TRACE": path, "DIAG": str(line_in_chunk)}, workers=1,
                       heap=heap, timeout=3600)
            r.out += r2.out
        if out["accepted"] or first + line_in_chunk < out["fail"]["line"]:
            out["accepted"] = False
            out["fail"] = {"line": first + line_in_chunk, "chunk": path, "line_in_chunk": line_in_chunk,
                           "diag": [x[:1500] for t in ("MISMATCH-CMD", "MISMATCH-MODEL-REPLY", "MISMATCH-LOGGED-REPLY",
                                                       "MISMATCH-MODEL-STATE", "MISMATCH-LOGGED-STATE", "MISMATCH-MEM",
                                                       "MISMATCH-IMAGE", "MISMATCH-RESTORED", "MISMATCH-MODEL-FILES",
                                                       "MISMATCH-FAITHFUL-MODEL", "MISMATCH-EXPECTED-PREFIXES",
                                                       "MISMATCH-FOP", "MISMATCH-AGAIN", "MISMATCH-NOTE")
                                    for x in r.printed(t)]}
    out["lines"] = lines
    return out


def extract_program(lines, fail_line):
    """The lines of the program containing 1-based line `fail_line`, up to and including it."""
    i = fail_line - 1
    start = i
    while start > 0 and '"ev":"reset"' not in lines[start][:300]:
        start -= 1
    return lines[start:i + 1]


def selftest(trace_spec, lines, deviations, workdir, consts=None):
    """Binding demonstration: a corrupted reply and a corrupted state must both be rejected."""
    # take the first program that has at least one int reply and one non-empty state
    prog, progs = [], []
    for l in lines[:4000]:
        if '"ev":"reset"' in l[:300] and prog:
            progs.append(prog)
            prog = []
        prog.append(l)
    if prog:
        progs.append(prog)
    res = {"reply_corruption_rejected": None, "state_corruption_rejected": None, "uncorrupted_accepted": None}
    for prog in progs:
        evs = [json.loads(x) for x in prog]
        ri = next((i for i, e in enumerate(evs) if e["ev"] == "cmd" and e["r"].get("t") == "int"), None)
        si = next((i for i, e in enumerate(evs) if e["ev"] == "cmd" and e["r"].get("t") != "panic" and any(
            en["v"].get("k") == "str" for en in e.get("st", []))), None)
        if ri is None or si is None:
            continue
        d = os.path.join(workdir, "selftest")
        os.makedirs(d, exist_ok=True)

        def run(evlist, name):
            p = os.path.join(d, name + ".ndjson")
            with open(p, "w") as f:
                for e in evlist:
                    f.write(json.dumps(e, separators=(",", ":")) + "\n")
            sub = os.path.join(d, name)
            os.makedirs(sub, exist_ok=True)
            r = validate_trace(trace_spec, p, deviations, sub, parts=1, consts=consts)
            return r["accepted"]

        res["uncorrupted_accepted"] = run(evs, "plain")
        bad = json.loads(json.dumps(evs))
        bad[ri]["r"]["n"] += 1
        res["reply_corruption_rejected"] = not run(bad, "badreply")
        bad = json.loads(json.dumps(evs))
        for en in bad[si]["st"]:
            if en["v"].get("k") == "str":
                en["v"]["b"] = en["v"]["b"] + [33]
                break
        res["state_corruption_rejected"] = not run(bad, "badstate")
        break
    return res


def model_check(module, consts, invariants, properties, workdir, workers=8, heap="6g", view="View", timeout=3000):
    cfg = os.path.join(workdir, module + ".cfg")
    write_cfg(cfg, consts, invariants=invariants, properties=properties, view=view)
    r = c.tlc(module + ".tla", cfg, workdir, workers=workers, heap=heap, timeout=timeout)
    if not r.ok:
        raise c.Infra("reference model check %s did not pass (the model, not the code, is at fault):\n%s"
                      % (module, r.out[-4000:]))
    return r
