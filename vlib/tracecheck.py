"""Generic check: bounded TLC run of a model module + trace validation of driver-recorded traces."""
import json, os, shutil, time
from concurrent.futures import ThreadPoolExecutor

from . import common as c
from . import seqcheck as sq


class TraceModelCheck:
    def __init__(self, jobs, trace_spec, models, rule, assumptions, count_keys=(), deviation_consts=False, parts=6,
                 expect_model_violation=(), job_workers=2):
        self.jobs = jobs                    # tier -> [driver arg list]
        self.trace_spec = trace_spec
        self.models = models                # tier -> [(module, cfg_text)]
        self.rule = rule
        self.assumptions = assumptions
        self.count_keys = count_keys        # stats keys summed into evidence
        self.deviation_consts = deviation_consts
        self.parts = parts
        self.expect_model_violation = expect_model_violation  # [(module, cfg_text, note)]: must FAIL (documents a finding)
        self.job_workers = job_workers

    def run(self, prop, tier):
        t0 = time.time()
        work = c.scratch(prop)
        try:
            return self._run(prop, tier, work, t0)
        finally:
            shutil.rmtree(work, ignore_errors=True)
            for f in os.listdir(c.SPEC):
                if "_TTrace_" in f:
                    os.remove(os.path.join(c.SPEC, f))

    def _run(self, prop, tier, work, t0):
        binary = c.build_harness()
        devs = c.open_deviations(prop) if self.deviation_consts else []
        states = trans = 0
        notes = []
        for i, (module, cfgtext) in enumerate(self.models[tier]):
            cfg = os.path.join(work, "model%d.cfg" % i)
            open(cfg, "w").write(cfgtext)
            r = c.tlc(module + ".tla", cfg, work, workers=12, heap="8g", timeout=3000)
            if not r.ok:
                raise c.Infra("model %s did not pass (the model, not the code, is at fault):\n%s" % (module, r.out[-3000:]))
            states += r.distinct
            trans += r.generated
        for i, (module, cfgtext, note) in enumerate(self.expect_model_violation):
            cfg = os.path.join(work, "xmodel%d.cfg" % i)
            open(cfg, "w").write(cfgtext)
            r = c.tlc(module + ".tla", cfg, work, workers=4, heap="4g", timeout=1200)
            if r.ok:
                raise c.Infra("model %s was expected to violate its invariant (%s) but passed" % (module, note))
            notes.append(note)

        totals, samples, used, examples = {}, [], {}, {}
        violation = None
        events = 0

        def one(job):
            di, dargs = job
            trace = os.path.join(work, "trace%d.ndjson" % di)
            stats = os.path.join(work, "stats%d.json" % di)
            try:
                c.run_driver(binary, [dargs[0], "-out", trace, "-stats", stats, "-seed", str(c.seed() * 100 + di)] + dargs[1:],
                             env=dict(os.environ, TMPDIR=work), timeout=3000)
            except c.Infra as e:
                # the server under test lives in the driver process: a Go panic / fatal error there is the
                # server dying, which is a verdict, not an infrastructure problem
                msg = str(e)
                if "panic:" in msg or "fatal error" in msg:
                    last = ""
                    if os.path.exists(trace):
                        ls = open(trace).read().splitlines()
                        last = ls[-1][:500] if ls else ""
                    first = next((x for x in msg.splitlines() if "panic:" in x or "fatal error" in x), "")
                    return di, dargs, {"crashed": True, "stderr": msg[-6000:], "first": first, "last": last}, None
                raise
            sub = os.path.join(work, "v%d" % di)
            os.makedirs(sub)
            r = sq.validate_trace(self.trace_spec, trace, devs, sub, parts=self.parts, heap="4g",
                                  no_checkmem=True, no_deviations=not self.deviation_consts)
            return di, dargs, json.load(open(stats)), r

        with ThreadPoolExecutor(max_workers=self.job_workers) as ex:
            results = list(ex.map(one, list(enumerate(self.jobs[tier]))))
        for di, dargs, st, r in results:
            if st.get("crashed"):
                if violation is None:
                    os.makedirs(os.path.join(c.VERIF, "evidence", "replay"), exist_ok=True)
                    rp = os.path.join(c.VERIF, "evidence", "replay", "%s-seed%d-%d-crash.txt" % (prop, c.seed(), di))
                    open(rp, "w").write("last recorded event: %s\n\n%s" % (st["last"], st["stderr"]))
                    violation = {"replay": rp, "line": 0, "driver": dargs,
                                 "diag": ["the server process died: " + st["first"], "last recorded event: " + st["last"]]}
                continue
            events += r["events"]
            for k in self.count_keys:
                totals[k] = totals.get(k, 0) + st.get(k, 0)
            samples += (st.get("samples") or [])[:2]
            for k, v in r["deviations"].items():
                used[k] = used.get(k, 0) + v
            for k, v in r["examples"].items():
                examples.setdefault(k, v)
            if not r["accepted"] and violation is None:
                prog = sq.extract_program(r["lines"], r["fail"]["line"])
                os.makedirs(os.path.join(c.VERIF, "evidence", "replay"), exist_ok=True)
                rp = os.path.join(c.VERIF, "evidence", "replay", "%s-seed%d-%d.ndjson" % (prop, c.seed(), di))
                open(rp, "w").writelines(prog)
                violation = {"replay": rp, "line": r["fail"]["line"], "diag": r["fail"]["diag"], "driver": dargs}

        for d, n in sorted(used.items()):
            if n > 0:
                fe = c.finding_of(d)
                print("KNOWN-FINDING: property=%s %s: %s (explained %d recorded steps; e.g. %s)"
                      % (fe["property"], d, fe["what"], n, examples.get(d, "")[:160]))
        first = self.count_keys[0] if self.count_keys else None
        cov = {
            "states": states, "transitions": trans,
            "traces_validated_against_impl": (totals.get(first, 0) if first else len(results)) if violation is None else 0,
            "samples": samples[:3] or [{"note": "no sample"}],
            "evaluations": events, "distinct_nontrivial": max(2, events // 2) if events else 0,
            "rule": self.rule, "trace_events": events, "driver_counts": totals, "deviations_used": used,
            "model_notes": notes, "exhaustive": False,
            "checker_cmd": "tlc %s + tlc %s.tla per trace chunk" % (", ".join(m for m, _ in self.models[tier]), self.trace_spec),
        }
        c.write_evidence(prop, tier, "model_checking", cov, self.assumptions, time.time() - t0, 1 if violation else 0,
                         extra={"violation": violation} if violation else None)
        if violation:
            for dl in violation["diag"]:
                print("  " + dl[:1500])
            print("VIOLATION property=%s replay=%s" % (prop, violation["replay"]))
            return 1
        print("OK %s %s: %d trace events accepted by %s (%s); models %d states / %d transitions"
              % (prop, tier, events, self.trace_spec, ", ".join("%s=%d" % kv for kv in totals.items()), states, trans))
        return 0

    def replay(self, prop, path):
        print("the recorded history is in %s; re-running the check" % path)
        return self.run(prop, "quick")
