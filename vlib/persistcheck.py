"""C02 / C09 (and the snapshot properties): crash-image enumeration on the real server, judged by
spec/Trace_Persist.tla; plus the bounded TLC run of the file-operation model spec/Persist.tla."""
import json, os, shutil, time
from concurrent.futures import ThreadPoolExecutor

from . import common as c
from . import seqcheck as sq


def run_persist_model(workdir, strategy, atomic, bounds):
    cfg = os.path.join(workdir, "persist-%s-%s.cfg" % (strategy, atomic))
    with open(cfg, "w") as f:
        f.write("SPECIFICATION Spec\nCONSTANTS\n  MaxCmds = %d\n  MaxRewrites = %d\n  MaxCrashes = %d\n"
                "  Strategy = \"%s\"\n  Atomic = %s\nINVARIANTS TypeOK ImageOK MemIsPrefix\nPROPERTIES RecoverExact\n"
                "CHECK_DEADLOCK FALSE\n" % (bounds[0], bounds[1], bounds[2], strategy, atomic))
    return c.tlc("Persist.tla", cfg, workdir, workers=4, heap="4g", timeout=1800)


def run_snap_model(workdir, state_first, bounds):
    cfg = os.path.join(workdir, "snapfiles-%s.cfg" % state_first)
    with open(cfg, "w") as f:
        f.write("SPECIFICATION Spec\nCONSTANTS\n  MaxVersion = %d\n  MaxSnaps = %d\n  StateFirst = %s\n"
                "INVARIANTS TypeOK SnapAtomic LastSaveOK\nCHECK_DEADLOCK FALSE\n" % (bounds[0], bounds[1], state_first))
    return c.tlc("SnapFiles.tla", cfg, workdir, workers=2, heap="2g", timeout=600)


class PersistCheck:
    def __init__(self, jobs, bounds, own_findings, assumptions, trace_spec="Trace_Persist", model="persist"):
        self.model = model
        self.jobs = jobs                # tier -> list of driver arg lists
        self.bounds = bounds            # tier -> (MaxCmds, MaxRewrites, MaxCrashes)
        self.own = own_findings
        self.assumptions = assumptions
        self.trace_spec = trace_spec

    def run(self, prop, tier):
        t0 = time.time()
        work = c.scratch(prop)
        try:
            return self._run(prop, tier, work, t0)
        finally:
            shutil.rmtree(work, ignore_errors=True)
            for f in os.listdir(c.SPEC):
                if "_TTrace_" in f:
                    os.remove(os.path.join(c.SPEC, f))

    def _run(self, prop, tier, work, t0):
        binary = c.build_harness()
        devs = c.open_deviations(prop)
        # 1. the file-operation model: the reference design keeps the invariant, the defective step order does not
        states = trans = 0
        predicted = []
        if self.model == "persist":
            for strategy in ("always", "everysec", "no"):
                r = run_persist_model(work, strategy, "TRUE", self.bounds[tier])
                if not r.ok:
                    raise c.Infra("Persist.tla (reference design, %s) did not pass:\n%s" % (strategy, r.out[-3000:]))
                states += r.distinct
                trans += r.generated
            r = run_persist_model(work, "always", "FALSE", self.bounds[tier])
            if r.ok:
                raise c.Infra("Persist.tla with the code's non-atomic rewrite unexpectedly satisfies ImageOK")
            predicted.append("Persist.tla (Atomic = FALSE): ImageOK violated, as observed on the real files (RewriteNotAtomic)")
        else:
            r = run_snap_model(work, "TRUE", self.bounds[tier])
            if not r.ok:
                raise c.Infra("SnapFiles.tla (state file first) did not pass:\n%s" % r.out[-3000:])
            states += r.distinct
            trans += r.generated
            r = run_snap_model(work, "FALSE", self.bounds[tier])
            if r.ok:
                raise c.Infra("SnapFiles.tla with the original operation order unexpectedly satisfies SnapAtomic")
            predicted.append("SnapFiles.tla (StateFirst = FALSE, the order before the repair): SnapAtomic violated")

        total = {"workloads": 0, "commands": 0, "images": 0, "again": 0, "interleaved": 0, "saves": 0, "skipped": 0, "generated": 0}
        used, examples, samples = {}, {}, []
        violation = None

        def one(job):
            di, dargs = job
            trace = os.path.join(work, "ptrace%d.ndjson" % di)
            stats = os.path.join(work, "pstats%d.json" % di)
            try:
                c.run_driver(binary, ["persist", "-out", trace, "-stats", stats, "-seed", str(c.seed() * 100 + di)] + dargs,
                             env=dict(os.environ, TMPDIR=work), crash_ok=True)
            except c.ServerCrash as e:
                v = c.crash_violation(prop, str(di), e, trace)
                v["driver"] = dargs
                return di, dargs, {"crashed": v}, None
            sub = os.path.join(work, "pv%d" % di)
            os.makedirs(sub)
            r = sq.validate_trace(self.trace_spec, trace, devs, sub, parts=4, heap="4g", no_checkmem=True)
            return di, dargs, json.load(open(stats)), r

        with ThreadPoolExecutor(max_workers=3) as ex:
            results = list(ex.map(one, list(enumerate(self.jobs[tier]))))
        for di, dargs, st, r in results:
            if st.get("crashed"):
                violation = violation or st["crashed"]
                continue
            for k in ("workloads", "commands", "images", "again", "interleaved", "saves"):
                total[k] += st.get(k, 0)
            total["skipped"] += r["skipped"]
            total["generated"] += r["generated"]
            samples += st.get("samples", [])[:1]
            for k, v in r["deviations"].items():
                used[k] = used.get(k, 0) + v
            for k, v in r["examples"].items():
                examples.setdefault(k, v)
            if not r["accepted"] and violation is None:
                prog = sq.extract_program(r["lines"], r["fail"]["line"])
                # keep the whole run (the images come after the commands)
                run_id = json.loads(r["lines"][r["fail"]["line"] - 1]).get("run")
                prog = [l for l in r["lines"] if json.loads(l).get("run") == run_id and json.loads(l)["ev"] in ("reset", "cmd", "rewrite", "save")]
                prog.append(r["lines"][r["fail"]["line"] - 1])
                os.makedirs(os.path.join(c.VERIF, "evidence", "replay"), exist_ok=True)
                rp = os.path.join(c.VERIF, "evidence", "replay", "%s-seed%d-%d.ndjson" % (prop, c.seed(), di))
                with open(rp, "w") as f:
                    f.writelines(prog)
                violation = {"replay": rp, "line": r["fail"]["line"], "diag": r["fail"]["diag"], "driver": dargs}

        for d, n in sorted(used.items()):
            fe = c.finding_of(d)
            print("KNOWN-FINDING: property=%s %s: %s (explained %d recorded steps/images; e.g. %s)"
                  % (fe["property"], d, fe["what"], n, examples.get(d, "")[:160]))

        cov = {
            "states": states, "transitions": trans,
            "traces_validated_against_impl": total["workloads"] if violation is None else 0,
            "samples": samples[:3] or [{"note": "no sample"}],
            "evaluations": total["images"] + total["again"], "distinct_nontrivial": total["images"],
            "rule": "one evaluation = one data-directory image (taken at an instrumented file operation of the AOF writer / "
                    "rewrite, or derived from it by cutting the log at a byte offset after the last sync) restored by a fresh real "
                    "server, or one durable-again continuation (write, stop, restore); images are distinct by content hash, "
                    "crash point and acknowledged count",
            "workloads": total["workloads"], "commands": total["commands"], "crash_images_restored": total["images"],
            "durable_again_continuations": total["again"], "save_attempts": total["saves"], "writes_interleaved_into_rewrite": total["interleaved"],
            "steps_outside_model_skipped": total["skipped"], "deviations_used": used,
            "model_predictions": predicted, "exhaustive": False,
            "checker_cmd": "tlc %s (reference design must pass; defective step order expected to violate its invariant) + tlc %s.tla per trace chunk" % ("Persist.tla" if self.model == "persist" else "SnapFiles.tla", self.trace_spec),
        }
        c.write_evidence(prop, tier, "model_checking", cov, self.assumptions, time.time() - t0, 1 if violation else 0,
                         extra={"violation": violation} if violation else None)
        if violation:
            for dl in violation["diag"]:
                print("  " + dl)
            print("VIOLATION property=%s replay=%s" % (prop, violation["replay"]))
            return 1
        print("OK %s %s: %d workloads, %d commands, %d crash images and %d durable-again continuations judged by %s; "
              "file-operation model %d states / %d transitions" % (prop, tier, total["workloads"], total["commands"], total["images"],
                                                           total["again"], self.trace_spec, states, trans))
        return 0

    def replay(self, prop, path):
        print("replay of persistence counterexamples: re-run the check with the same VERIF_SEED; the recorded run is in %s" % path)
        return self.run(prop, "quick")
