"""Which machinery decides which property."""
import json, os, shutil, time

from . import common as c
from . import seqcheck as sq
from .persistcheck import PersistCheck
from .conccheck import ConcCheck
from .tracecheck import TraceModelCheck
from .wirecheck import WireCheck

TRUSTED = [
    "TLC 1.8.0 (tla2tools) and the CommunityModules Json/IOUtils modules",
    "harness observation function: strict RESP parser (harness/cmd/vdrive/resp.go), state projection and token rendering (abs.go)",
    "verif-tagged hooks in /repo (VerifDump, VerifClock): they only read state / replace the clock",
    "Go toolchain",
]


class SeqCheck:
    """Trace validation of sequential command programs + bounded TLC run of the reference machine."""

    def __init__(self, drivers, mc, level_text, assumptions, trace_spec="Trace_Sugar", extra_consts=None):
        self.drivers = drivers          # tier -> list of driver argument lists (without -out/-stats/-seed)
        self.mc = mc                    # dict(module, consts(tier), invariants, properties)
        self.trace_spec = trace_spec
        self.assumptions = assumptions
        self.level_text = level_text
        self.extra_consts = extra_consts or {}

    def run(self, prop, tier):
        t0 = time.time()
        work = c.scratch(prop)
        try:
            return self._run(prop, tier, work, t0)
        finally:
            shutil.rmtree(work, ignore_errors=True)

    def _run(self, prop, tier, work, t0):
        binary = c.build_harness()
        devs = c.open_deviations(prop)

        # 1. the reference machine satisfies the property (bounded, exhaustive)
        mc = self.mc
        mcr = sq.model_check(mc["module"], mc["consts"](tier), mc["invariants"], mc["properties"], work)

        # 2. the implementation's behaviour is a behaviour of the specification
        total = {"events": 0, "programs": 0, "distinct": 0, "skipped": 0, "generated": 0, "traces": 0}
        used, examples, samples, cmdcount = {}, {}, [], {}
        violation = None
        selftest = None
        for di, dargs in enumerate(self.drivers[tier]):
            trace = os.path.join(work, "trace%d.ndjson" % di)
            stats = os.path.join(work, "stats%d.json" % di)
            try:
                c.run_driver(binary, ["seq", "-out", trace, "-stats", stats, "-seed", str(c.seed() * 1000 + di)] + dargs, crash_ok=True)
            except c.ServerCrash as e:
                violation = c.crash_violation(prop, str(di), e, trace)
                violation["driver"] = dargs
                break
            st = json.load(open(stats))
            sub = os.path.join(work, "v%d" % di)
            os.makedirs(sub)
            r = sq.validate_trace(self.trace_spec, trace, devs, sub, parts=12, consts=self.extra_consts)
            total["events"] += st["events"]
            total["programs"] += st["programs"]
            total["distinct"] += st["distinct_nontrivial"]
            total["skipped"] += r["skipped"]
            total["generated"] += r["generated"]
            total["traces"] += st["programs"]
            for k, v in st.get("commands", {}).items():
                cmdcount[k] = cmdcount.get(k, 0) + v
            samples += st.get("samples", [])[:1]
            for k, v in r["deviations"].items():
                used[k] = used.get(k, 0) + v
            for k, v in r["examples"].items():
                examples.setdefault(k, v)
            if selftest is None:
                selftest = sq.selftest(self.trace_spec, r["lines"], devs, sub, consts=self.extra_consts)
            if not r["accepted"] and violation is None:
                prog = sq.extract_program(r["lines"], r["fail"]["line"])
                os.makedirs(os.path.join(c.VERIF, "evidence", "replay"), exist_ok=True)
                rp = os.path.join(c.VERIF, "evidence", "replay", "%s-seed%d-%d.ndjson" % (prop, c.seed(), di))
                with open(rp, "w") as f:
                    f.writelines(prog)
                violation = {"replay": rp, "line": r["fail"]["line"], "diag": r["fail"]["diag"],
                             "driver": dargs}
                break

        if selftest is None or not (selftest.get("uncorrupted_accepted") and selftest.get("reply_corruption_rejected")
                                    and selftest.get("state_corruption_rejected")):
            if violation is None:
                raise c.Infra("binding self-test failed: %r" % (selftest,))

        for d, n in sorted(used.items()):
            fe = c.finding_of(d)
            print("KNOWN-FINDING: property=%s %s: %s (explained %d recorded steps; e.g. %s)"
                  % (fe["property"], d, fe["what"], n, examples.get(d, "")[:200]))

        cov = {
            "states": mcr.distinct, "transitions": mcr.generated,
            "traces_validated_against_impl": total["traces"] if violation is None else 0,
            "samples": samples[:2] or [{"note": "no sample"}],
            "evaluations": total["events"], "distinct_nontrivial": total["distinct"],
            "rule": "programs are generated by the Go driver (seeded random over the property's command alphabet, "
                    "value pools with numeric-looking/empty/binary strings, presets of every value type, clock ticks); "
                    "a program is non-trivial when at least one command returned something other than an error or nil; "
                    "distinct by hash of the whole program",
            "trace_events": total["events"], "trace_states_checked": total["generated"],
            "steps_outside_model_skipped": total["skipped"], "commands": cmdcount,
            "deviations_used": used, "selftest": selftest,
            "mc_module": mc["module"], "mc_depth": mcr.depth, "exhaustive": False,
            "checker_cmd": "tlc %s.tla (bounded reference machine) + tlc %s.tla per recorded trace chunk" % (mc["module"], self.trace_spec),
        }
        c.write_evidence(prop, tier, "model_checking", cov, self.assumptions + TRUSTED, time.time() - t0,
                         1 if violation else 0, extra={"violation": violation} if violation else None)
        if violation:
            for dl in violation["diag"]:
                print("  " + dl)
            print("VIOLATION property=%s replay=%s" % (prop, violation["replay"]))
            return 1
        print("OK %s %s: %d programs / %d events accepted by %s, %d skipped as outside the model; "
              "reference machine %d states / %d transitions"
              % (prop, tier, total["programs"], total["events"], self.trace_spec, total["skipped"], mcr.distinct, mcr.generated))
        return 0

    def replay(self, prop, path):
        work = c.scratch(prop + "-replay")
        try:
            binary = c.build_harness()
            trace = os.path.join(work, "replay-trace.ndjson")
            c.run_driver(binary, ["replay", "-in", path, "-out", trace])
            r = sq.validate_trace(self.trace_spec, trace, c.open_deviations(prop), work, parts=1, consts=self.extra_consts)
            if r["accepted"]:
                print("replay accepted: the recorded program no longer violates %s" % prop)
                return 0
            for dl in r["fail"]["diag"]:
                print("  " + dl)
            print("VIOLATION property=%s replay=%s" % (prop, path))
            return 1
        finally:
            shutil.rmtree(work, ignore_errors=True)


class Composite:
    """Several checks decide one property together; the evidence files are merged."""

    def __init__(self, parts):
        self.parts = parts

    def run(self, prop, tier):
        t0 = time.time()
        rcs, evs = [], []
        path = os.path.join(c.VERIF, "evidence", prop + ".json")
        for part in self.parts:
            rc = part.run(prop, tier)
            if rc == 2:
                return 2
            rcs.append(rc)
            evs.append(json.load(open(path)))
            if rc == 1:
                break
        cov = {}
        for ev in evs:
            for k, v in ev["coverage"].items():
                if k in cov and type(cov[k]) is not type(v):
                    k = k + "_" + ev["coverage"].get("mc_module", "part%d" % len(cov))
                if isinstance(v, bool):
                    cov[k] = cov.get(k, False) or v
                elif isinstance(v, (int, float)):
                    cov[k] = cov.get(k, 0) + v
                elif isinstance(v, list):
                    cov[k] = cov.get(k, []) + v
                elif isinstance(v, dict):
                    d = dict(cov.get(k, {}))
                    for kk, vv in v.items():
                        d[kk] = (d.get(kk, 0) + vv) if isinstance(vv, (int, float)) and not isinstance(vv, bool) else vv
                    cov[k] = d
                elif isinstance(v, str):
                    cov[k] = (cov[k] + " ; " + v) if k in cov and cov[k] != v else v
        cov["samples"] = cov.get("samples", [])[:3]
        cov["exhaustive"] = False
        assumptions = []
        for ev in evs:
            for a in ev.get("assumptions", []):
                if a not in assumptions:
                    assumptions.append(a)
        viol = [ev.get("violation") for ev in evs if ev.get("violation")]
        c.write_evidence(prop, tier, "model_checking", cov, assumptions, time.time() - t0, sum(ev.get("violations", 0) for ev in evs),
                         extra={"violation": viol[0]} if viol else None)
        return 1 if any(r == 1 for r in rcs) else 0

    def replay(self, prop, path):
        return self.parts[0].replay(prop, path)


def mc_consts(prefix, max_quick, max_thorough):
    def consts(tier):
        return {"Cmds": "<- %sCmds" % prefix, "Inits": "<- %sInits" % prefix, "DBs": "<- %sDBs" % prefix,
                "TickSizes": "<- %sTicks" % prefix,
                "MaxSteps": str(max_quick if tier == "quick" else max_thorough), "T0": "<- %sT0" % prefix}
    return consts


def mc_store(max_quick, max_thorough):
    return mc_consts("MC", max_quick, max_thorough)


KV_ASSUME = [
    "values: integers of at most 7 digits and floats that are multiples of 1/4 (TLC has 32-bit integers, no reals); "
    "steps that meet other numerals are counted as skipped, never judged",
    "exponent/inf/nan/hex numerals are never generated",
    "error texts are not compared; a string reply may be a simple or a bulk string if it carries the same bytes",
]

PERSIST_ASSUME = TRUSTED + [
    "a crash is modelled by copying the data directory while the acting goroutine is parked at an instrumented file "
    "operation (process death) and by cutting the copy of the log at byte offsets after the last sync (power loss); "
    "reordering of metadata operations by the file system is not modelled",
    "workload values avoid numerals in the checkpoint (JSON) paths except where the open finding PersistJSONTypes is exercised",
]

MC_PS_CFG = ("SPECIFICATION Spec\nCONSTANTS\n  Conns <- MCConns\n  Entries <- MCEntries\n  Chans <- MCChans\n  Matches <- MCMatches\n"
             "  MaxPub = %d\n  MaxOps = %d\n  Reference = %s\nINVARIANTS ExactlyOnceInOrder SameMessages NeverAhead\nCHECK_DEADLOCK FALSE\n")
MC_REPL_CFG = ("SPECIFICATION Spec\nCONSTANTS\n  Design = \"%s\"\n  LocalWrites = %s\n  MaxId = %d\n  MaxEnv = %d\n  Dbs = %s\n"
               "INVARIANTS %s\nPROPERTIES PropOnlyByLog PropAppendOnly\nCHECK_DEADLOCK FALSE\n")
REPL_INV_ALL = "InvTypeOK InvIsReplay InvAgreement InvAgreementStrict InvReadYourWrites InvHanded InvConverged"
REPL_INV_CODE = "InvTypeOK InvIsReplay InvAgreement InvReadYourWrites InvHanded"
EV_POLICIES = ["noeviction", "allkeys-lru", "allkeys-lfu", "volatile-lru", "volatile-lfu", "allkeys-random", "volatile-random"]
MC_EV_CFG = ("SPECIFICATION Spec\nCONSTANTS\n  Keys = {\"a\", \"b\", \"c\"}\n  Sizes = {1, 2}\n  Max = 4\n  Policy = \"%s\"\n  MaxSteps = %d\n"
             "INVARIANT GoneCompletely\nPROPERTIES OnlyWhenOver FromCandidates InOrder StopWhenUnder NoEvictionRefuses\nCHECK_DEADLOCK FALSE\n")
MC_ACL_CFG = "SPECIFICATION Spec\nCONSTANT MaxSteps = %d\nINVARIANTS DefaultUndeletable RoundTrip AuthIff Gate\nCHECK_DEADLOCK FALSE\n"
ACL_RULE = ("one event = one step of a random history on a real server that requires authentication: ACL SETUSER/DELUSER/SAVE/LOAD "
            "edits by an administrator, AUTH / HELLO AUTH attempts and probe commands (31 command shapes, single- and multi-key, "
            "allowed/forbidden key mixes, channels) on three connections served by the real connection handler, restarts from the "
            "saved JSON/YAML file; each is judged by Trace_Acl.tla against Acl.tla")
ACL_ASSUME = TRUSTED + [
    "glob matching itself (gobwas/glob) is trusted: keys, channels and patterns come from a fixed universe whose match relation is tabulated in Acl.tla",
    "the categories of a command are taken from the server's own command table; the positions of keys in a command come from the "
    "independent table KeySpec in Acl.tla (written from the documented syntax) for the 31 probe commands",
    "a reply is classified as 'denied' by its error text (authorisation / authentication / disabled)",
]

CHECKS = {
    "C01": SeqCheck(
        drivers={"quick": [["-family", "kv", "-n", "700", "-len", "40"]],
                 "thorough": [["-family", "kv", "-n", "6000", "-len", "60"]]},
        mc={"module": "MC_Store", "consts": mc_store(2, 3),
            "invariants": ["TypeOK"], "properties": ["ErrNoChange", "ByteExact", "Frame"]},
        level_text="", assumptions=KV_ASSUME),
    "C04": SeqCheck(
        drivers={"quick": [["-family", "expiry", "-n", "560", "-len", "40"], ["-family", "kv-extra", "-n", "140", "-len", "40"]],
                 "thorough": [["-family", "expiry", "-n", "5000", "-len", "60"], ["-family", "kv", "-n", "1500", "-len", "60"],
                              ["-family", "kv-extra", "-n", "1500", "-len", "60"]]},
        mc={"module": "MC_Store", "consts": mc_store(2, 3),
            "invariants": ["TypeOK", "Unobservable", "TtlAgrees"],
            "properties": ["TickKeepsStore", "FreshDeadline", "Frame"]},
        level_text="", assumptions=KV_ASSUME + [
            "the server runs under the virtual clock of the verif build; the background sampler is invoked by the driver "
            "(VerifRunSampler = one call of evictKeysWithExpiredTTL), its ticker goroutine is not started (noeviction)"]),
    "C13": SeqCheck(
        drivers={"quick": [["-family", "kv-canon", "-n", "140", "-len", "40"], ["-family", "kv-extra", "-n", "60", "-len", "40"]] +
                          [["-family", f, "-n", "200", "-len", "40"] for f in ("set", "zset", "hash", "list")],
                 "thorough": [["-family", "kv-canon", "-n", "2000", "-len", "60"], ["-family", "kv-extra", "-n", "1000", "-len", "60"]] +
                             [["-family", f, "-n", "3000", "-len", "60"] for f in ("set", "zset", "hash", "list")]},
        mc={"module": "MC_Store", "consts": mc_store(2, 3),
            "invariants": ["TypeOK"], "properties": ["ReadOnlyPure", "ErrNoChange", "Frame"]},
        level_text="", assumptions=KV_ASSUME),
    "C14": SeqCheck(
        drivers={"quick": [["-family", "hash", "-n", "600", "-len", "40"]],
                 "thorough": [["-family", "hash", "-n", "5000", "-len", "60"]]},
        mc={"module": "MC_Hash", "consts": mc_consts("HMC", 2, 3),
            "invariants": ["HLawReaders", "HLawWrongType"],
            "properties": ["ErrNoChange", "Frame", "HReadOnlyPure", "HLawHSet", "HLawHSetNX", "HLawHDel", "HLawIncr"]},
        level_text="", assumptions=KV_ASSUME),
    "C15": SeqCheck(
        drivers={"quick": [["-family", "list", "-n", "600", "-len", "40"]],
                 "thorough": [["-family", "list", "-n", "5000", "-len", "60"]]},
        mc={"module": "MC_List", "consts": mc_consts("MC", 2, 3),
            "invariants": ["TypeOK", "ReadsAgree", "MoveBack"],
            "properties": ["ErrNoChange", "Frame", "ReadOnlyPure", "LReadOnlyPure", "LWrongType", "LFrame", "RangeLaw",
                           "PushLaw", "PopLaw", "PopCountLaw", "SetLaw", "TrimLaw", "RemLaw", "MoveLaw", "NoGhostKeys"]},
        level_text="", assumptions=KV_ASSUME),
    "C16": SeqCheck(
        drivers={"quick": [["-family", "set", "-n", "600", "-len", "40"]],
                 "thorough": [["-family", "set", "-n", "5000", "-len", "60"]]},
        mc={"module": "MC_Set", "consts": mc_consts("MC", 2, 3),
            "invariants": ["STypeOK", "QueriesAgree", "Algebra", "Algebra3"],
            "properties": ["ErrNoChange", "Frame", "SReadOnlyPure", "AddRemLaw", "StoreLaw", "StoreFailsLikePlain",
                           "MoveLaw", "WrongTypeFails"]},
        level_text="", assumptions=KV_ASSUME),
    "C17": SeqCheck(
        drivers={"quick": [["-family", "zset", "-n", "600", "-len", "40"]],
                 "thorough": [["-family", "zset", "-n", "5000", "-len", "60"]]},
        mc={"module": "MC_ZSet", "consts": mc_consts("MZ", 2, 3),
            "invariants": ["ZTypeOK", "Unobservable", "LawRangeIsTheOrder", "LawRank", "LawCount", "LawRevLimit", "LawAlgebra"],
            "properties": ["ErrNoChange", "Frame", "ZReadOnlyPure", "ZWrongTypeFails", "TickKeepsStore", "LawZAddGrowth",
                           "LawZAddSets", "LawPop", "LawIncr", "LawStore"]},
        level_text="", assumptions=KV_ASSUME),
    "C02": PersistCheck(
        jobs={"quick": [["-mode", "aof", "-sync", "always", "-n", "14", "-len", "12"],
                        ["-mode", "aof", "-sync", "no", "-n", "8", "-len", "10"],
                        ["-mode", "aof", "-sync", "everysec", "-n", "6", "-len", "10"]],
              "thorough": [["-mode", "aof", "-sync", "always", "-n", "120", "-len", "14", "-cuts", "all"],
                           ["-mode", "aof", "-sync", "no", "-n", "60", "-len", "12", "-cuts", "all"],
                           ["-mode", "aof", "-sync", "everysec", "-n", "40", "-len", "12"]]},
        bounds={"quick": (3, 1, 1), "thorough": (4, 2, 2)}, own_findings=["AofReplayClock"],
        assumptions=PERSIST_ASSUME),
    "C05": ConcCheck(assumptions=TRUSTED + [
        "interleavings are enumerated at the granularity of keyspace calls (the implementation's critical sections); the "
        "atomicity of each call is checked separately by parking a client inside it",
        "handler shapes modelled step by step: GET, MGET, SET (plain, NX, PXAT), MSET, INCR, APPEND, DEL, GETDEL, RENAME, RPUSH",
        "the race detector is only used on workloads in which the model has no shared mutable access (clients on disjoint keys)"]),
    "C06": Composite([TraceModelCheck(
        jobs={"quick": [["acl", "-n", "120", "-len", "80"]], "thorough": [["acl", "-n", "1500", "-len", "100"]]},
        trace_spec="Trace_Acl",
        models={"quick": [("MC_Acl", MC_ACL_CFG % 2)], "thorough": [("MC_Acl", MC_ACL_CFG % 3)]},
        rule=ACL_RULE, assumptions=ACL_ASSUME, count_keys=("histories", "try", "try_ran", "try_denied", "try_closed", "setuser", "auth")),
        # with a password required every command passes through authorization before its handler runs: the
        # handler must still see the command as the client sent it (Exec judges every reply and the dataset)
        TraceModelCheck(
            jobs={"quick": [["conns", "-auth", "-n", "40", "-len", "40"]], "thorough": [["conns", "-auth", "-n", "500", "-len", "60"]]},
            trace_spec="Trace_Conns", models={"quick": [], "thorough": []},
            rule="one event = one generic/string command, SELECT, flush or reconnect on one of three authenticated connections of a server that "
                 "requires a password; judged by Exec in the database the connection selected",
            assumptions=TRUSTED, count_keys=("histories", "commands", "select", "newconn", "data"), deviation_consts=True),
    ]),
    "C11": TraceModelCheck(
        jobs={"quick": [["acl", "-n", "120", "-len", "80"]], "thorough": [["acl", "-n", "1500", "-len", "100"]]},
        trace_spec="Trace_Acl",
        models={"quick": [("MC_Acl", MC_ACL_CFG % 2)], "thorough": [("MC_Acl", MC_ACL_CFG % 3)]},
        rule=ACL_RULE, assumptions=ACL_ASSUME, count_keys=("histories", "auth", "setuser", "deluser", "save", "load", "restart", "try")),
    "C12": WireCheck(assumptions=TRUSTED + [
        "byte streams are enumerated at the granularity of frames and cut points (TLC), with the byte offset of an interior cut varied by "
        "seed; arbitrary random bytes outside well-formed frames are not generated",
        "connections are served by the real connection handler over net.Pipe (deterministic segmentation); TLS and real TCP are not used",
        "subscribe-family commands, QUIT and MODULE LOAD/UNLOAD are not part of the command-table sweep"]),
    "C18": TraceModelCheck(
        jobs={"quick": [["pubsub", "-n", "60", "-len", "40"]], "thorough": [["pubsub", "-n", "600", "-len", "60"]]},
        trace_spec="Trace_PubSub",
        models={"quick": [("MC_PubSub", MC_PS_CFG % (2, 3, "TRUE"))], "thorough": [("MC_PubSub", MC_PS_CFG % (3, 4, "TRUE"))]},
        expect_model_violation=[("MC_PubSub", MC_PS_CFG % (2, 3, "FALSE"),
                                 "PubSub.tla with Reference = FALSE (recipients read at dequeue time, one goroutine per write) violates "
                                 "ExactlyOnceInOrder, as the open findings PubSubOrder record")],
        rule="one event = one step of a random history of (P)SUBSCRIBE/(P)UNSUBSCRIBE/PUBLISH (single messages and bursts of 2-4)/"
             "PUBSUB CHANNELS|NUMSUB|NUMPAT on three subscriber connections and one publisher of a real server; after each publish the "
             "driver waits until the enqueue/dequeue/delivered points it counts have balanced; one burst per run is forced to complete "
             "last-first through the ps.deliver point",
        assumptions=TRUSTED + ["gobwas/glob is trusted: channel names and patterns come from a fixed universe whose match relation is "
                               "tabulated in Trace_PubSub.tla", "the embedded-API subscriber is not exercised"],
        count_keys=("histories", "pub", "messages", "sub", "unsub", "query", "forced_reverse_bursts", "drain_waited"), deviation_consts=True),
    "C07": TraceModelCheck(
        jobs={"quick": [["repl", "-n", "7", "-len", "22"], ["repl", "-n", "7", "-len", "22", "-skew"]],
              "thorough": [["repl", "-n", "14", "-len", "30"] + (["-skew"] if i % 2 else []) for i in range(12)]},
        trace_spec="Trace_Repl",
        models={"quick": [("MC_Repl", MC_REPL_CFG % ("ideal", "FALSE", 2, 2, "{0}", REPL_INV_ALL)),
                          ("MC_Repl", MC_REPL_CFG % ("code", "FALSE", 2, 2, "{0}", REPL_INV_CODE))],
                "thorough": [("MC_Repl", MC_REPL_CFG % ("ideal", "FALSE", 2, 2, "{0, 1}", REPL_INV_ALL)),
                             ("MC_Repl", MC_REPL_CFG % ("code", "FALSE", 2, 2, "{0, 1}", REPL_INV_CODE)),
                             ("MC_Repl", MC_REPL_CFG % ("ideal", "FALSE", 3, 1, "{0}", REPL_INV_ALL))]},
        expect_model_violation=[
            ("MC_Repl", MC_REPL_CFG % ("code", "FALSE", 2, 2, "{0}", "InvAgreementStrict"),
             "Repl.tla with Design = \"code\" (the raw command is logged; every node resolves relative expiries and random pops on "
             "its own) violates AgreementStrict, as the open findings ReplApplyClock and ReplRandomPop record"),
            ("MC_Repl", MC_REPL_CFG % ("ideal", "TRUE", 2, 1, "{0}", "InvIsReplay"),
             "Repl.tla with LocalWrites = TRUE (a follower executes a client write on its own dataset) violates IsReplay / OnlyByLog")],
        rule="one event = one client command (or sampler run, join, leadership transfer, node stop, snapshot install) on a real raft "
             "cluster of 3-4 in-process nodes on loopback: the entry node (leader, refusing follower, forwarding follower), the role the "
             "code gave the command, the reply, every node's clock, the number of log entries every node's state machine applied and "
             "every node's dataset in every database once replication quiesced; judged by Trace_Repl.tla composing the step operators "
             "of Repl.tla with Exec as the command semantics",
        assumptions=TRUSTED + ["hashicorp/raft and hashicorp/memberlist are trusted (log matching, commitment, election, gossip delivery): "
                               "the model takes the single committed log they provide as given",
                               "nodes run in one process on loopback with the in-memory raft stores; process restarts from a boltdb log are "
                               "not exercised (the raft instance cannot be closed through the public API)",
                               "quiescence is detected through the fsm.apply/fsm.applied, gossip.forward and raft.enqueue.delete points"],
        count_keys=("programs", "events", "role_leader", "role_forward", "role_reject", "role_local", "samples_run", "bursts", "join", "transfer",
                    "stop", "restore"),
        deviation_consts=True, parts=4, job_workers=4),
    "C08": TraceModelCheck(
        jobs={"quick": [["evict", "-n", "10", "-len", "30"]], "thorough": [["evict", "-n", "80", "-len", "40"]]},
        trace_spec="Trace_Evict",
        models={"quick": [("Evict", MC_EV_CFG % (pol, 4)) for pol in EV_POLICIES],
                "thorough": [("Evict", MC_EV_CFG % (pol, 6)) for pol in EV_POLICIES]},
        rule="one event = one command of a random access history (SET with and without expiry, GET, MGET, TOUCH, EXPIRE, PERSIST, DEL, "
             "APPEND, RPUSH, FLUSHDB; a third of the histories over two databases) on a real server with a memory limit of 195-400 bytes "
             "under each of the seven policies; accesses are spaced 3 ms apart (recency stamps are wall-clock milliseconds); after each "
             "command the driver waits for the asynchronous cache-update goroutines and records the evictions with the cache contents at "
             "the moment of each, and then asks the server for the access count (OBJECTFREQ) and the last access (OBJECTIDLETIME) of "
             "every key of every database: the spec carries both from step to step (frq, lst) and judges them against the history "
             "(FreqOK, IdleOK: unnamed keys unchanged, reads counted / refreshed, entry only through a naming command) and the "
             "candidates of every eviction against them (Anchored, AnchoredLru)",
        assumptions=TRUSTED + ["recency stamps of the LRU/LFU caches use the wall clock directly; the driver spaces accesses by 3 ms; the last "
                               "access derived from OBJECTIDLETIME is an interval as wide as the call took, and every rule about it is "
                               "phrased so that a wider interval can only weaken it, never raise an alarm",
                               "value types in the histories are strings and one-element lists; databases 0 and 1",
                               "how many lookups one command makes per key is not fixed by the model (1 to 4 per occurrence)"],
        count_keys=("histories", "commands", "evictions", "dead"), deviation_consts=True),
    "C09": PersistCheck(
        jobs={"quick": [["-mode", "rewrite", "-sync", "always", "-n", "12", "-len", "12", "-inter"],
                        ["-mode", "rewrite", "-sync", "no", "-n", "8", "-len", "12", "-inter"]],
              "thorough": [["-mode", "rewrite", "-sync", "always", "-n", "100", "-len", "14", "-inter", "-cuts", "all"],
                           ["-mode", "rewrite", "-sync", "no", "-n", "60", "-len", "14", "-inter"],
                           ["-mode", "rewrite", "-sync", "everysec", "-n", "30", "-len", "12", "-inter"]]},
        bounds={"quick": (3, 2, 1), "thorough": (4, 2, 2)}, own_findings=["RewriteNotAtomic", "PersistJSONTypes"],
        assumptions=PERSIST_ASSUME),
    "C03": PersistCheck(
        jobs={"quick": [["-mode", "snap", "-n", "40", "-len", "12"]],
              "thorough": [["-mode", "snap", "-n", "400", "-len", "16"]]},
        bounds={"quick": (4, 3), "thorough": (6, 4)}, own_findings=["PersistJSONTypes"],
        assumptions=PERSIST_ASSUME, model="snap"),
    "C10": PersistCheck(
        jobs={"quick": [["-mode", "snap", "-n", "40", "-len", "12"]],
              "thorough": [["-mode", "snap", "-n", "400", "-len", "16"]]},
        bounds={"quick": (4, 3), "thorough": (6, 4)}, own_findings=[],
        assumptions=PERSIST_ASSUME, model="snap"),
    "C19": Composite([SeqCheck(
        drivers={"quick": [["-family", f, "-n", "60", "-len", "40"] for f in ("kv", "hash", "list", "set", "zset", "expiry", "multidb")],
                 "thorough": [["-family", f, "-n", "1200", "-len", "60"] for f in ("kv", "hash", "list", "set", "zset", "expiry", "multidb")]},
        mc={"module": "MC_Store", "consts": mc_store(2, 3), "invariants": ["TypeOK", "MemZeroEmpty", "MemAdditive"],
            "properties": ["MemFrame"]},
        level_text="", assumptions=KV_ASSUME + [
            "machine constants of the size function (time.Time 24, string header 16, word 8, interface 16, MemberObject 32) are "
            "those of a 64-bit build"],
        extra_consts={"CheckMem": "TRUE"}),
        # the figure under a memory limit: refused writes (noeviction) and evictions must leave it equal to the
        # accounted size of what is stored (Trace_Evict: e.mem = MemOf(dataset) after every step)
        TraceModelCheck(
            jobs={"quick": [["evict", "-n", "8", "-len", "30", "-policies", "noeviction,allkeys-lfu,volatile-lfu,allkeys-random,volatile-random"]],
                  "thorough": [["evict", "-n", "100", "-len", "40", "-policies", "noeviction,allkeys-lfu,volatile-lfu,allkeys-random,volatile-random"]]},
            trace_spec="Trace_Evict", models={"quick": [], "thorough": []},
            rule="one event = one command on a real server with a memory limit (policies noeviction, LFU and random); after every command "
                 "the reported figure must equal MemOf of the recorded dataset, whether the write was stored, refused or made room by evicting",
            assumptions=TRUSTED, count_keys=("histories", "commands", "evictions", "dead"), deviation_consts=True),
    ]),
    "C20": Composite([
        SeqCheck(
            drivers={"quick": [["-family", "multidb", "-n", "450", "-len", "40"], ["-family", "multidb-swap", "-n", "150", "-len", "40"]],
                     "thorough": [["-family", "multidb", "-n", "4000", "-len", "60"], ["-family", "multidb-swap", "-n", "1500", "-len", "60"]]},
            mc={"module": "MC_Store", "consts": mc_store(2, 3),
                "invariants": ["TypeOK"], "properties": ["Isolation", "FlushAllEmpties", "FlushDbOnlyOwn"]},
            level_text="", assumptions=KV_ASSUME),
        # SELECT is per connection, SWAPDB is for everybody: three connections served by the real handler
        TraceModelCheck(
            jobs={"quick": [["conns", "-n", "60", "-len", "40"]], "thorough": [["conns", "-n", "800", "-len", "60"]]},
            trace_spec="Trace_Conns", models={"quick": [], "thorough": []},
            rule="one event = one command (SELECT, SWAPDB, a generic/string command, FLUSHDB/FLUSHALL) or a reconnect on one of three "
                 "connections served by the real connection handler; the whole dataset of every database is recorded after each; "
                 "Trace_Conns.tla keeps the database each connection selected and judges every command by Exec in that database",
            assumptions=TRUSTED, count_keys=("histories", "commands", "select", "swap", "newconn", "data"), deviation_consts=True),
        # placement must survive the append-only log, its rewrite and snapshots: databases 0, 1 and 10
        PersistCheck(
            jobs={"quick": [["-mode", "aof", "-sync", "always", "-n", "8", "-len", "12", "-cuts", "none"],
                            ["-mode", "rewrite", "-sync", "always", "-n", "10", "-len", "12", "-cuts", "none"]],
                  "thorough": [["-mode", "aof", "-sync", "always", "-n", "60", "-len", "14", "-cuts", "none"],
                               ["-mode", "rewrite", "-sync", "always", "-n", "60", "-len", "14", "-cuts", "none", "-inter"]]},
            bounds={"quick": (3, 1, 1), "thorough": (3, 2, 1)}, own_findings=[], assumptions=PERSIST_ASSUME),
        PersistCheck(
            jobs={"quick": [["-mode", "snap", "-n", "15", "-len", "12"]],
                  "thorough": [["-mode", "snap", "-n", "100", "-len", "14"]]},
            bounds={"quick": (4, 3), "thorough": (5, 3)}, own_findings=[], assumptions=PERSIST_ASSUME, model="snap"),
    ]),
}


def _seq_meta(what_mc, what_trace, ref, extra_note=""):
    return {
        "level": "TLC checks %s on every state/transition of the bounded reference machine, and every reply and the full "
                 "dataset after every step of thousands of generated programs executed on the real server must be a "
                 "behaviour of that machine (%s).  A change of the code that breaks the property makes a recorded step "
                 "unexplainable (VIOLATION); unit tests assert single replies on fixed presets." % (what_mc, what_trace),
        "design_ref": ref,
        "note": "Trusted: TLC, the harness's strict RESP parser/state projection, the verif hooks (virtual clock, state dump). "
                "Bounds: integers <= 7 digits, floats multiples of 1/4, no exponent/inf/nan numerals (such steps are counted "
                "as skipped, never judged); error texts not compared. Open findings are modelled as named deviations "
                "(known_findings.json). " + extra_note,
        "technique": "TLA+ reference machine model-checked with TLC + trace validation of recorded executions against it",
    }


ENGINES = [
    {"name": "seq-trace", "path": "/verif/vlib/seqcheck.py",
     "serves_properties": ["C01", "C04", "C13", "C14", "C15", "C16", "C17", "C19", "C20"],
     "kind_free_text": "Go driver records command traces from the real server; TLC validates them against spec/Trace_Sugar.tla "
                       "(Exec + open deviations) and model-checks the bounded reference machines spec/MC_*.tla"},
]

ENGINES.append(
    {"name": "persist-images", "path": "/verif/vlib/persistcheck.py", "serves_properties": ["C02", "C03", "C09", "C10"],
     "kind_free_text": "Go driver runs write workloads on a real server with a data directory, images the directory at every "
                       "instrumented file operation and at byte cuts of the log, restores a fresh real server from each; TLC "
                       "validates the trace against spec/Trace_Persist.tla and model-checks spec/Persist.tla"})

ENGINES.append(
    {"name": "conc-replay", "path": "/verif/vlib/conccheck.py", "serves_properties": ["C05"],
     "kind_free_text": "TLC exports every interleaving of spec/Conc.tla; a Go replayer forces each on the real handlers through "
                       "blocking hooks at the keyspace critical sections; exclusion probes and a stress driver complete it"})

ENGINES.append(
    {"name": "trace-model", "path": "/verif/vlib/tracecheck.py", "serves_properties": ["C06", "C11", "C12", "C18", "C08", "C07", "C20", "C19"],
     "kind_free_text": "a Go driver records histories from the real server (connections served by the real handler over net.Pipe, "
                       "eviction, FSM); TLC validates them against the property's trace spec and model-checks its bounded model"})

ENGINES.append(
    {"name": "wire-replay", "path": "/verif/vlib/wirecheck.py", "serves_properties": ["C12"],
     "kind_free_text": "TLC exports frame-sequence x segmentation behaviours of spec/Wire.tla; a Go replayer writes them to a connection "
                       "served by the real handler; command-table sweep and byte round trips; Trace_Wire.tla judges the trace"})

NOT_CLAIMED = {}

META = {
    "C01": _seq_meta("ErrNoChange, ByteExact and Frame (MC_Store: 2 keys, 9 awkward values, 5 presets, 2 dbs, clock)",
                     "Trace_Sugar.tla over random generic/string programs with presets of every value type",
                     "DESIGN.md §5 C01", "int64 overflow of counters is not covered."),
    "C04": _seq_meta("Unobservable (every command behaves as if an expired key were absent), TtlAgrees, TickKeepsStore, "
                     "FreshDeadline and Frame",
                     "Trace_Sugar.tla over expiry-heavy programs: all deadline commands and options, clock ticks around the "
                     "deadlines, runs of the background sampler (TraceSample: only keys of that database whose deadline has "
                     "passed may disappear), RANDOMKEY and TOUCH over keys that are past their deadline but still stored",
                     "DESIGN.md §12.2 C04",
                     "The sampler is invoked by the driver (one evictKeysWithExpiredTTL call), its ticker is not running; "
                     "eviction policies other than noeviction are exercised under C08."),
    "C13": _seq_meta("ReadOnlyPure, ErrNoChange and Frame",
                     "Trace_Sugar.tla: the full dataset is compared after every command, so a read-classified or failing "
                     "command that changes anything, or a STORE result that shares structure with a source and is changed "
                     "by a later write, is rejected",
                     "DESIGN.md §5 C13"),
    "C14": _seq_meta("the hash laws (HLawReaders, HLawWrongType, HLawHSet, HLawHSetNX, HLawHDel, HLawIncr), ErrNoChange, "
                     "Frame, HReadOnlyPure (MC_Hash)",
                     "Trace_Sugar.tla with spec/CmdHash.tla over random programs of the 14 hash commands on presets of every type; "
                     "HRANDFIELD is judged relationally (legal selection read off the reply)",
                     "DESIGN.md §5 C14"),
    "C15": _seq_meta("the list laws (ReadsAgree, RangeLaw, PushLaw, PopLaw, PopCountLaw, SetLaw, TrimLaw, RemLaw, MoveLaw, "
                     "MoveBack, NoGhostKeys), ErrNoChange, Frame, LReadOnlyPure, LWrongType (MC_List)",
                     "Trace_Sugar.tla with spec/CmdList.tla over random programs of the 13 list commands, indices/counts "
                     "negative, zero, = length and beyond",
                     "DESIGN.md §5 C15"),
    "C16": _seq_meta("the set laws (QueriesAgree, Algebra, Algebra3, AddRemLaw, StoreLaw, StoreFailsLikePlain, MoveLaw, "
                     "WrongTypeFails), ErrNoChange, Frame, SReadOnlyPure (MC_Set)",
                     "Trace_Sugar.tla with spec/CmdSet.tla over random programs of the 16 set commands; SPOP/SRANDMEMBER judged "
                     "relationally",
                     "DESIGN.md §5 C16"),
    "C17": _seq_meta("the sorted-set laws (LawRangeIsTheOrder, LawRank, LawCount, LawRevLimit, LawAlgebra, LawZAddGrowth, "
                     "LawZAddSets, LawPop, LawIncr, LawStore), ErrNoChange, Frame, ZReadOnlyPure, ZWrongTypeFails, Unobservable (MC_ZSet)",
                     "Trace_Sugar.tla with spec/CmdZSet.tla over random programs of the 25 sorted-set commands (flags, bounds, "
                     "LIMIT, weights, aggregates, 1-3 operands); ZRANDMEMBER judged relationally",
                     "DESIGN.md §5 C17",
                     "Scores are multiples of 1/4 or +-inf; steps producing other scores, NaN or negative zero are skipped."),
    "C02": {
        "level": "TLC checks ImageOK (what a restore would produce from the files is, at every instant, the state after a prefix "
                 "of the executed writes containing every acknowledged one; power loss: every surviving log length from the last "
                 "sync on), MemIsPrefix and RecoverExact on every state of spec/Persist.tla (writer / rewrite / crash / recover at "
                 "file-operation granularity, 3 sync strategies).  Bound to the code two ways: the order of the instrumented file "
                 "operations of real workloads must be a run of that step structure, and a fresh real server restored from the "
                 "data-directory image taken at EVERY such operation - plus every byte-offset cut of the unsynced log tail - must "
                 "serve exactly what the model's restore function yields for those files (conformance) and a legal prefix state "
                 "(the property), including continuing to write and restarting again (durable again).  The quantifier is over "
                 "crash points, which only enumeration of the real file states decides; the test suite only stops cleanly.",
        "design_ref": "DESIGN.md §5 C02",
        "note": "Trusted: TLC, harness RESP parser/projection, verif hooks (points only observe/park). A crash = copy of the data "
                "directory while the acting goroutine is parked (process death) or that copy with the log cut after the last sync "
                "(power loss); file-system metadata reordering is not modelled. Open findings AofReplayClock, PersistJSONTypes.",
        "technique": "TLA+ file-operation model checked with TLC + crash-image enumeration on the real server validated against the spec",
        "engine": "persist-images",
    },
    "C05": {
        "level": "TLC enumerates every interleaving of the keyspace steps of every pair of 15 handler shapes from 4 initial stores "
                 "(spec/Conc.tla: handler programs of atomic keyspace primitives, Exec as serial oracle) and checks SoloIsExec (a "
                 "handler run alone means what Exec says) and AtomicPairs (single-step commands are linearizable).  Every enumerated "
                 "behaviour is forced on the real handlers by parking the two clients at the ks.*.enter gates and releasing them in "
                 "the behaviour's order; replies, final dataset and the number of steps each handler takes must equal the model's "
                 "prediction for that schedule.  Mutual-exclusion probes park a client inside each critical section and check "
                 "that writers (and, for writing sections, readers) wait and that everything completes; free-running clients on "
                 "disjoint keys with SAVE/REWRITEAOF/sampler actors must each see a sequential history (Trace_Sugar), without "
                 "crash, hang or (thorough) race report.",
        "design_ref": "DESIGN.md §5 C05",
        "note": "Trusted: TLC, harness, gate hooks (they only park goroutines). The non-serialisable behaviours are the open finding "
                "LostUpdate: each is predicted by the model for its schedule and reproduced deterministically. Concurrent in-place "
                "mutation of one set/sorted set by two clients (Go fatal error) is not exercised by the stress driver.",
        "technique": "TLA+ interleaving model checked with TLC + replay of every TLC behaviour on the real handlers through scheduler gates",
        "engine": "conc-replay",
    },
    "C06": {
        "level": "TLC checks Gate (nothing runs for an unauthenticated, disabled or deleted user except the handshake commands; "
                 "every key of a multi-key command must be allowed; nokeys) together with the user-table invariants on every table "
                 "reachable by 2 (quick) / 3 (thorough) SETUSER/DELUSER edits from a 22-token alphabet (MC_Acl).  Bound to the "
                 "code by trace validation (Trace_Acl.tla): in random histories of rule edits, authentications and probe commands "
                 "on three connections, a probe must run exactly when Authorized (written from the property, with key positions "
                 "from an independent table) holds for the model's user table, and a probe that does not run must leave data, "
                 "connection info and the ACL table unchanged (digest before = after); the user table the server reports after "
                 "every edit must equal the model's.",
        "design_ref": "DESIGN.md §5 C06",
        "note": "Trusted: TLC, harness, gobwas/glob, the verif projections of the user and command tables. Only the 31 probe command "
                "shapes are judged (not every registered command); categories come from the server's own table.",
        "technique": "TLA+ ACL model checked with TLC + trace validation of recorded authorization histories",
        "engine": "trace-model",
    },
    "C11": {
        "level": "TLC checks AuthIff, DefaultUndeletable and RoundTrip (the stored table is always in the normal form loading "
                 "produces, so SAVE + LOAD/restart reproduces the same rules) on MC_Acl.  Trace validation (Trace_Acl.tla) over "
                 "random histories: AUTH (1 and 2 arguments) and HELLO AUTH succeed exactly when AuthOK holds for the model's "
                 "table (plaintext and SHA-256 entries, nopass, disabled, unknown user), a failed attempt leaves ACL WHOAMI and "
                 "privileges unchanged, a new connection is the default user, connections of deleted users are terminated, and "
                 "the table after every SETUSER / DELUSER / SAVE / LOAD MERGE|REPLACE / restart (JSON, YAML) equals the model's.",
        "design_ref": "DESIGN.md §5 C11",
        "note": "As C06. Passwords are two abstract values plus the configured one; SHA-256 is computed by the harness.",
        "technique": "TLA+ ACL model checked with TLC + trace validation of recorded authentication / user-lifecycle histories",
        "engine": "trace-model",
    },
    "C12": {
        "level": "TLC checks OneReplyEach (every complete frame is answered exactly once, in order) on every state of spec/Wire.tla for "
                 "every sequence of <= 3 frames of four kinds (incl. one of exactly 8192 bytes) and EVERY subset of cut points and read "
                 "size, and shows the original read loop (decode the first value of each read) violates it.  Every (frames, cuts) "
                 "behaviour TLC enumerates is replayed over a connection served by the real handler - the segmentation is forced, not "
                 "hoped for - and the replies must be exactly those of the reference loop (Trace_Wire.tla).  In addition every "
                 "registered command is sent with 0..5 arguments of 13 classes and must yield exactly one well-formed reply (strict "
                 "RESP parser) with the server still answering another connection, and values with CR, LF, NUL, empty and > 8 KiB "
                 "are written and read back byte for byte through 11 command pairs.",
        "design_ref": "DESIGN.md §5 C12",
        "note": "Trusted: TLC, the harness's strict RESP parser, net.Pipe. Not claimed: robustness against arbitrary random bytes, "
                "RESP3-specific reply shapes, equality of every typed embedded-API method with the wire reply (both run the same "
                "handlers).",
        "technique": "TLA+ read-loop model checked with TLC + replay of every TLC-enumerated segmentation on the real connection handler",
        "engine": "wire-replay",
    },
    "C18": {
        "level": "TLC checks ExactlyOnceInOrder (at quiescence every connection has received, through each entry, exactly the messages "
                 "published while it was subscribed, in publish order) on every interleaving of subscribe / unsubscribe / publish / "
                 "dequeue / deliver steps of spec/PubSub.tla in its reference form, and shows the implementation-shaped form "
                 "(recipients read at dequeue time, one goroutine per write) violates it.  Trace validation (Trace_PubSub.tla) of "
                 "real histories: confirmations (one per name, kind, name, count), what every connection received after each "
                 "publish or burst (exactly once per matching entry, nobody else, order), and PUBSUB CHANNELS / NUMSUB / NUMPAT "
                 "against the model's subscription table.",
        "design_ref": "DESIGN.md §5 C18",
        "note": "Trusted: TLC, harness, glob library, the quiescence counter fed by the verif points. Open findings PubSubOrder "
                "(deterministic witness forced through the ps.deliver point) and PubSubCount.",
        "technique": "TLA+ pub/sub model checked with TLC + trace validation of recorded subscription/delivery histories",
        "engine": "trace-model",
    },
    "C07": {
        "level": "TLC checks, on every interleaving of client writes at the leader / a forwarding follower / a refusing follower, gossip "
                 "delivery, per-node apply, acknowledgement, clock ticks, expiry deletions, leadership transfer, join, stop and snapshot "
                 "install of spec/Repl.tla (3 nodes, small abstract write algebra): IsReplay (a node's dataset is the replay of the log "
                 "prefix it applied), Agreement / AgreementStrict / Converged (equal prefix - equal dataset in every database), "
                 "ReadYourWrites (an acknowledged write is applied on the acknowledging leader), Handed (a forwarded write is in flight "
                 "or logged, never twice), OnlyByLog (a dataset changes only by applying the next log entry: no node executes a client "
                 "write on its own) and AppendOnly; and shows that the implementation-shaped design (raw command logged, each node "
                 "resolves clock and randomness) violates AgreementStrict.  Trace validation (Trace_Repl.tla) of histories recorded from "
                 "real 3-4 node raft clusters: the role the code gave each command equals Repl!Role, every node applied exactly the "
                 "entries the model appended, every node's dataset equals ApplyOne (= Exec under that node's clock and choice) of its "
                 "previous dataset, the leader's reply is the model's, reads on any node see the replicated state, and after every "
                 "event all nodes hold identical datasets in every database except on keys explained by the open findings.",
        "design_ref": "DESIGN.md §5 C07",
        "note": "Trusted: TLC, harness, hashicorp/raft and memberlist, quiescence detection through verif points. Open findings "
                "ReplRandomPop, ReplApplyClock, PersistJSONTypes (raft snapshot restore, incl. process death on list values). "
                "Restart of a node from its on-disk raft log and crash of the leader mid-write are not exercised.",
        "technique": "TLA+ replication model checked with TLC + trace validation of histories recorded from real in-process raft clusters",
        "engine": "trace-model",
    },
    "C08": {
        "level": "TLC checks OnlyWhenOver, FromCandidates, InOrder, StopWhenUnder, NoEvictionRefuses and GoneCompletely on every state "
                 "of spec/Evict.tla for each of the seven policies (3 keys, 2 sizes, 4-6 steps).  Trace validation (Trace_Evict.tla): "
                 "in random access histories on a real server with a memory limit, every command is judged by Exec and every "
                 "eviction - recorded at the instrumentation point together with the memory figure before it and the contents of the "
                 "cache it was popped from at that moment - must satisfy the same clauses: figure at/above the limit, victim present "
                 "(and volatile under volatile-*), least-recently/least-frequently used entry of that cache, nothing under "
                 "noeviction (where storing commands must be refused at/above the limit); the cache a victim is picked from holds "
                 "every key the policy may evict; consecutive evictions of one step each see the figure the previous one left "
                 "(keys in one or two databases); afterwards the victim is in no cache, not in the volatile index and not in the "
                 "dataset, every surviving key is unchanged, the volatile index and the volatile caches hold only keys with a "
                 "deadline, usage is back under the limit after a storing command unless nothing evictable is left, the figure "
                 "equals MemOf of what is left, and the server is still answering.  \"Least frequently / recently used\" is "
                 "anchored in the history: after every command the driver asks the server for the access count (OBJECTFREQ) and "
                 "the last access (OBJECTIDLETIME) of every key of every database, the spec carries both from step to step and "
                 "requires that keys no command names keep them, that a read gains a count / a fresh stamp, that a key enters a "
                 "cache only through a command naming it, that the caches hold only keys that are there, and that the counts "
                 "and stamps a victim was compared with at the moment of its eviction are these.",
        "design_ref": "DESIGN.md §12.2 C08",
        "note": "Trusted: TLC, harness, verif points (they pass the cache object to the recorder at evict.pre). Open finding "
                "LruEvictsNewest (order pinned by Test_CacheLRU).",
        "technique": "TLA+ eviction model checked with TLC + trace validation of recorded evictions against it",
        "engine": "trace-model",
    },
    "C09": {
        "level": "Same machinery as C02 with REWRITEAOF in the workloads (repeatedly, on empty logs, with a second client's write "
                 "executed inside the rewrite window through a parking hook): an image is taken at every file operation of "
                 "CreatePreamble / Truncate and of the concurrent writer, restored by a fresh real server and compared with the "
                 "model's restore of those files and with the set of legal prefixes that contain everything acknowledged before "
                 "the rewrite began.  Persist.tla's reference design (atomic swap carrying over records logged since the copy) "
                 "satisfies ImageOK; the code's step structure (Atomic = FALSE) violates it in TLC exactly in the windows where the "
                 "real images do (open finding RewriteNotAtomic).",
        "design_ref": "DESIGN.md §5 C09",
        "note": "As C02. Values that do not survive the JSON preamble are exercised under the open finding PersistJSONTypes; torn "
                "preamble writes (partial JSON) are not enumerated.",
        "technique": "TLA+ file-operation model checked with TLC + crash-image enumeration on the real server validated against the spec",
        "engine": "persist-images",
    },
    "C03": {
        "level": "TLC checks SnapAtomic and LastSaveOK on every state of spec/SnapFiles.tla (the snapshot writer at file-operation "
                 "granularity).  Bound to the code by trace validation (Trace_Persist.tla): random write/SAVE/tick histories over "
                 "three databases and all value types on a real server; after every instrumented file operation of TakeSnapshot "
                 "and after every command the data directory is imaged and a fresh real server with snapshot restore must serve "
                 "exactly Checkpoint(dataset at a completed SAVE) minus keys expired since, with LASTSAVE equal to that SAVE's "
                 "time; every SAVE reply/LASTSAVE is checked, and 'nothing new' is only accepted when the dataset equals the "
                 "last snapshot's.",
        "design_ref": "DESIGN.md §5 C03",
        "note": "Trusted as C02. Type fidelity through the JSON state file is the open finding PersistJSONTypes (the exact check is "
                "made on strings/hashes of strings; typed data must match the model's lossy Checkpoint). The automatic "
                "threshold/interval trigger is exercised only through the repaired comparison (fix: commit), not by a timed driver; "
                "snapshots concurrent with writers are covered under C05.",
        "technique": "TLA+ file-operation model checked with TLC + snapshot-image enumeration on the real server validated against the spec",
        "engine": "persist-images",
    },
    "C10": {
        "level": "Same machinery as C03, judged for crash atomicity: at EVERY file operation of TakeSnapshot (directory create, "
                 "temporary state file create/write/sync/rename, temporary manifest create/write/sync/rename) with 0..n earlier "
                 "snapshots, the image restored by a fresh real server must be the complete new or the complete previous snapshot "
                 "with the matching LASTSAVE; the order of those operations must follow the step program of SnapFiles.tla; an "
                 "attempt that finds nothing new must leave LASTSAVE and the files untouched.  TLC shows the original operation "
                 "order (StateFirst = FALSE) violates SnapAtomic - the defect this check found and a fix: commit repaired.",
        "design_ref": "DESIGN.md §5 C10",
        "note": "Trusted as C02. Partial writes of the state/manifest files are not separately enumerated because both are written "
                "under temporary names and only renamed when complete (the rename is the commit point that is imaged).",
        "technique": "TLA+ file-operation model checked with TLC + snapshot-image enumeration on the real server validated against the spec",
        "engine": "persist-images",
    },
    "C19": _seq_meta("MemZeroEmpty, MemAdditive and MemFrame (the size function MemOf of spec/Mem.tla is zero on the empty dataset, "
                     "a sum over entries, and moves only by the entries a command changes)",
                     "Trace_Sugar.tla with CheckMem = TRUE over programs of all seven command families: after EVERY step the reported "
                     "figure must have moved by exactly the change of MemOf over the entries that step changed (overwrites, deletes, "
                     "lazy expiry, sampler runs, flushes, renames), and every freshly loaded dataset must report exactly MemOf of it; "
                     "Trace_Evict.tla over histories under a memory limit (noeviction, LFU and random policies): after every stored, "
                     "refused or evicting write the figure equals MemOf of the recorded dataset",
                     "DESIGN.md §12.2 C19",
                     "Open finding MemInPlace covers in-place set/sorted-set edits."),
    "C20": _seq_meta("Isolation, FlushAllEmpties, FlushDbOnlyOwn",
                     "Trace_Sugar.tla over programs that switch the embedded caller between databases 0, 1 and 10 (SelectDB, SWAPDB) "
                     "with the state of all databases compared after every step; Trace_Conns.tla over histories of SELECT / SWAPDB / "
                     "data commands / flushes / reconnects on three connections served by the real handler (the model keeps the "
                     "database every connection selected); Trace_Persist.tla over AOF, rewrite and snapshot images of workloads in "
                     "databases 0, 1 and 10",
                     "DESIGN.md §12.2 C20",
                     "Open finding SwapDbConnsOnly: SWAPDB renumbers connections instead of exchanging the databases."),
}
