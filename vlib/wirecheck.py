"""C12: TLC enumerates frame sequences x segmentations from Wire.tla, the replayer sends each over a
connection served by the real handler; plus command-table sweep and byte-fidelity round trips."""
import json, os, re, shutil, subprocess, time

from . import common as c
from . import seqcheck as sq

CFG = ("SPECIFICATION Spec\nCONSTANTS\n  Kinds <- MCKinds\n  Size <- MCSize\n  MaxFrames = %d\n  ChunkSize = 4\n  Framed = %s\n"
       "INVARIANTS OneReplyEach PrefixOnly %s\nCHECK_DEADLOCK FALSE\n")


class WireCheck:
    def __init__(self, assumptions):
        self.assumptions = assumptions

    def run(self, prop, tier):
        t0 = time.time()
        work = c.scratch(prop)
        try:
            return self._run(prop, tier, work, t0)
        finally:
            shutil.rmtree(work, ignore_errors=True)
            for f in os.listdir(c.SPEC):
                if "_TTrace_" in f:
                    os.remove(os.path.join(c.SPEC, f))

    def _run(self, prop, tier, work, t0):
        binary = c.build_harness()
        cfg = os.path.join(work, "wire.cfg")
        open(cfg, "w").write(CFG % (3, "TRUE", "Export"))
        r = c.tlc("MC_Wire.tla", cfg, work, workers=12, heap="6g", timeout=3000)
        if not r.ok:
            raise c.Infra("Wire.tla (reference read loop) did not pass:\n" + r.out[-3000:])
        xcfg = os.path.join(work, "wirex.cfg")
        open(xcfg, "w").write(CFG % (2, "FALSE", ""))
        rx = c.tlc("MC_Wire.tla", xcfg, work, workers=4, heap="2g", timeout=600)
        if rx.ok:
            raise c.Infra("Wire.tla with the original read loop unexpectedly satisfies OneReplyEach")
        seen = set()
        beh = os.path.join(work, "wbeh.ndjson")
        with open(beh, "w") as f:
            for m in re.finditer(r'^<<"BEH", "(.*)">>$', r.out, re.M):
                s = m.group(1).encode().decode("unicode_escape")
                if s not in seen:
                    seen.add(s)
                    f.write(s + "\n")
        trace = os.path.join(work, "wire.ndjson")
        stats = os.path.join(work, "wire.json")
        args = ["wire", "-out", trace, "-stats", stats, "-seed", str(c.seed()), "-beh", beh, "-sweep", "-bytes"]
        if tier == "quick":
            args += ["-max", "3000"]
        p = subprocess.run([binary] + args, capture_output=True, text=True, timeout=3000, env=dict(os.environ, TMPDIR=work))
        violation = None
        st = {}
        if p.returncode != 0:
            # the server lives in the driver process: a handler panic that is not contained kills it
            os.makedirs(os.path.join(c.VERIF, "evidence", "replay"), exist_ok=True)
            rp = os.path.join(c.VERIF, "evidence", "replay", "%s-seed%d-crash.txt" % (prop, c.seed()))
            last = ""
            if os.path.exists(trace):
                lines = open(trace).read().splitlines()
                last = lines[-1][:400] if lines else ""
            open(rp, "w").write("last recorded event: %s\n\n%s" % (last, p.stderr[-20000:]))
            first = next((l for l in p.stderr.splitlines() if "panic:" in l or "fatal error" in l), "")
            violation = {"replay": rp, "diag": ["the server process died while serving a client (exit %d): %s" % (p.returncode, first),
                                                "last recorded event: " + last]}
        else:
            st = json.load(open(stats))
            sub = os.path.join(work, "v")
            os.makedirs(sub)
            vr = sq.validate_trace("Trace_Wire", trace, [], sub, parts=6, no_checkmem=True, no_deviations=True, split_any=True)
            if not vr["accepted"]:
                os.makedirs(os.path.join(c.VERIF, "evidence", "replay"), exist_ok=True)
                rp = os.path.join(c.VERIF, "evidence", "replay", "%s-seed%d.ndjson" % (prop, c.seed()))
                open(rp, "w").write(vr["lines"][vr["fail"]["line"] - 1])
                violation = {"replay": rp, "diag": vr["fail"]["diag"]}
        cov = {
            "states": r.distinct, "transitions": r.generated,
            "traces_validated_against_impl": st.get("streams", 0) if violation is None else 0,
            "samples": st.get("samples", [])[:2] or [{"note": "no sample"}],
            "evaluations": st.get("streams", 0) + st.get("sweep", 0) + st.get("bytes", 0),
            "distinct_nontrivial": st.get("streams", 0) + st.get("sweep", 0),
            "rule": "one evaluation = one (frame sequence, segmentation) behaviour enumerated by TLC from Wire.tla (<= 3 frames of "
                    "kinds PING / ECHO / unknown command / ECHO of exactly 8192 bytes, every subset of cut points) replayed over a "
                    "connection served by the real handler, or one registered command with 0..5 arguments of 13 classes (3 variants "
                    "each), or one value round trip; distinct by construction",
            "segmentation_behaviours_enumerated": len(seen), "streams_replayed": st.get("streams", 0),
            "command_sweep": st.get("sweep", 0), "byte_round_trips": st.get("bytes", 0),
            "model_notes": ["Wire.tla with Framed = FALSE (the read loop before the repair) violates OneReplyEach"],
            "exhaustive": tier == "thorough",
            "checker_cmd": "tlc MC_Wire.tla (OneReplyEach, behaviour export) + vdrive wire + tlc Trace_Wire.tla",
        }
        c.write_evidence(prop, tier, "model_checking", cov, self.assumptions, time.time() - t0, 1 if violation else 0,
                         extra={"violation": violation} if violation else None)
        if violation:
            for dl in violation["diag"]:
                print("  " + str(dl)[:1200])
            print("VIOLATION property=%s replay=%s" % (prop, violation["replay"]))
            return 1
        print("OK %s %s: %d segmentation behaviours from TLC, %d streams replayed, %d command-table probes, %d byte round trips; "
              "Wire.tla %d states / %d transitions" % (prop, tier, len(seen), st.get("streams", 0), st.get("sweep", 0),
                                                       st.get("bytes", 0), r.distinct, r.generated))
        return 0

    def replay(self, prop, path):
        print("the offending event is in %s; re-running the check" % path)
        return self.run(prop, "quick")
