"""C05: TLC enumerates the interleavings of the handler step programs (spec/Conc.tla); every behaviour
is forced onto the real handlers through the keyspace gates and compared with the model's prediction;
mutual-exclusion probes check the atomic steps themselves; free-running clients on disjoint keys with
SAVE / REWRITEAOF / sampler actors are validated against the sequential specification."""
import json, os, re, shutil, subprocess, time

from . import common as c
from . import seqcheck as sq


class ConcCheck:
    def __init__(self, assumptions):
        self.assumptions = assumptions

    def run(self, prop, tier):
        t0 = time.time()
        work = c.scratch(prop)
        try:
            return self._run(prop, tier, work, t0)
        finally:
            shutil.rmtree(work, ignore_errors=True)

    def _run(self, prop, tier, work, t0):
        binary = c.build_harness()
        devs = c.open_deviations(prop)
        violation = None
        notes = []

        # 1. TLC: all interleavings of all handler pairs; SoloIsExec and AtomicPairs must hold
        cfg = os.path.join(work, "conc.cfg")
        with open(cfg, "w") as f:
            f.write("SPECIFICATION Spec\nCONSTANTS\n  Pairs <- %s\n  Inits <- CCInits\n  Now <- CCT0\n"
                    "INVARIANTS SoloIsExec AtomicPairs Export\nCHECK_DEADLOCK FALSE\n"
                    % ("CCPairsQuick" if tier == "quick" else "CCPairs"))
        r = c.tlc("MC_Conc.tla", cfg, work, workers=12, heap="6g", timeout=3000)
        if not r.ok:
            raise c.Infra("Conc.tla did not pass (model problem):\n" + r.out[-3000:])
        beh = os.path.join(work, "beh.ndjson")
        n = 0
        with open(beh, "w") as f:
            for m in re.finditer(r'^<<"BEH", "(.*)">>$', r.out, re.M):
                f.write(m.group(1).encode().decode("unicode_escape") + "\n")
                n += 1
        if n == 0:
            raise c.Infra("TLC exported no behaviours")

        # 2. replay on the real handlers
        res = os.path.join(work, "conc_res.ndjson")
        stats = os.path.join(work, "conc_stats.json")
        args = ["conc", "-beh", beh, "-out", res, "-stats", stats, "-seed", str(c.seed())]
        if tier == "quick":
            args += ["-max", "4000"]
        c.run_driver(binary, args, timeout=3000)
        st = json.load(open(stats))
        if st.get("infra", 0) > 0:
            raise c.Infra("replayer could not set up %d behaviours" % st["infra"])
        if st.get("mismatch", 0) > 0:
            bad = [json.loads(l) for l in open(res) if '"verdict":"mismatch"' in l][:1]
            os.makedirs(os.path.join(c.VERIF, "evidence", "replay"), exist_ok=True)
            rp = os.path.join(c.VERIF, "evidence", "replay", "%s-seed%d-beh.json" % (prop, c.seed()))
            json.dump(bad[0], open(rp, "w"), indent=1)
            violation = {"replay": rp, "diag": [bad[0].get("why", ""), json.dumps(bad[0].get("cmds"))[:600],
                                                "schedule %s" % bad[0].get("sched")]}

        # 3. mutual exclusion of the atomic steps
        excl_ok = None
        if violation is None:
            et = os.path.join(work, "excl.ndjson")
            c.run_driver(binary, ["excl", "-out", et], timeout=600)
            ecfg = os.path.join(work, "excl.cfg")
            sq.write_cfg(ecfg, {}, invariants=["Report"], post="TraceAccepted")
            er = c.tlc("Trace_Conc.tla", ecfg, work, env={"TRACE": et}, workers=1, heap="1g", timeout=600)
            excl_ok = er.ok
            if not er.ok:
                if not er.postcondition_false:
                    raise c.Infra("Trace_Conc failed without verdict:\n" + er.out[-2000:])
                os.makedirs(os.path.join(c.VERIF, "evidence", "replay"), exist_ok=True)
                rp = os.path.join(c.VERIF, "evidence", "replay", "%s-seed%d-excl.ndjson" % (prop, c.seed()))
                shutil.copyfile(et, rp)
                violation = {"replay": rp, "diag": [x[:800] for x in er.printed("MISMATCH-NOTE")] or
                             ["a critical section was not probed (hook missing?)"]}

        # 4. free-running clients + actors
        stress = {"events": 0, "clients": 0}
        if violation is None:
            race = tier == "thorough"
            sbin = c.build_harness(race=True) if race else binary
            clients, ops = (8, 1500) if race else (5, 250)
            prefix = os.path.join(work, "stress")
            sstats = os.path.join(work, "stress.json")
            p = subprocess.run([sbin, "stress", "-out", prefix, "-stats", sstats, "-seed", str(c.seed()),
                                "-clients", str(clients), "-ops", str(ops)], capture_output=True, text=True, timeout=3000,
                               env=dict(os.environ, TMPDIR=work))
            if p.returncode != 0:
                os.makedirs(os.path.join(c.VERIF, "evidence", "replay"), exist_ok=True)
                rp = os.path.join(c.VERIF, "evidence", "replay", "%s-seed%d-stress.txt" % (prop, c.seed()))
                open(rp, "w").write(p.stderr[-20000:])
                why = "hang" if p.returncode == 3 else ("data race reported" if "DATA RACE" in p.stderr else "process died")
                first = next((l for l in p.stderr.splitlines() if "fatal error" in l or "panic:" in l or "DATA RACE" in l), "")
                violation = {"replay": rp, "diag": ["free-running stress: %s (exit %d) %s" % (why, p.returncode, first)]}
            else:
                stress = json.load(open(sstats))
                for ci in range(clients):
                    tr = "%s.c%d.ndjson" % (prefix, ci)
                    sub = os.path.join(work, "sv%d" % ci)
                    os.makedirs(sub)
                    vr = sq.validate_trace("Trace_Sugar", tr, devs, sub, parts=1)
                    if not vr["accepted"]:
                        os.makedirs(os.path.join(c.VERIF, "evidence", "replay"), exist_ok=True)
                        rp = os.path.join(c.VERIF, "evidence", "replay", "%s-seed%d-stress-c%d.ndjson" % (prop, c.seed(), ci))
                        open(rp, "w").writelines(sq.extract_program(vr["lines"], vr["fail"]["line"]))
                        violation = {"replay": rp, "diag": ["a client working on its own keys saw a non-sequential result"] + vr["fail"]["diag"]}
                        break

        if st.get("nonserial_reproduced", 0) > 0:
            fe = c.finding_of("LostUpdate")
            print("KNOWN-FINDING: property=%s LostUpdate: %s (%d of the %d replayed interleavings are non-serialisable, each "
                  "predicted by Conc.tla for that schedule and reproduced on the real handlers)"
                  % (fe["property"], fe["what"], st["nonserial_reproduced"], st["replayed"]))

        cov = {
            "states": r.distinct, "transitions": r.generated,
            "traces_validated_against_impl": st.get("match", 0) + (stress.get("clients", 0) if violation is None else 0),
            "samples": st.get("samples", [])[:2] or [{"note": "no non-serial sample"}],
            "evaluations": st.get("replayed", 0) + 18 + stress.get("events", 0),
            "distinct_nontrivial": st.get("match", 0),
            "rule": "one evaluation = one interleaving of the keyspace steps of a pair of commands (enumerated exhaustively by TLC "
                    "from Conc.tla for every pair of 15 handler shapes and 4 initial stores, %s replayed) forced on the real handlers "
                    "through the ks.*.enter gates, or one mutual-exclusion probe, or one command of a free-running client; an "
                    "interleaving is non-trivial when it was replayed to the end and its outcome compared"
                    % ("a seed-chosen sample of 4000" if tier == "quick" else "all"),
            "behaviours_enumerated_by_tlc": n, "behaviours_replayed": st.get("replayed", 0),
            "outcome_equals_model_prediction": st.get("match", 0), "nonserial_reproduced": st.get("nonserial_reproduced", 0),
            "outside_sequential_model": st.get("skip", 0), "exclusion_probes_ok": excl_ok,
            "stress": stress, "exhaustive": tier == "thorough",
            "checker_cmd": "tlc MC_Conc.tla (SoloIsExec, AtomicPairs, behaviour export) + vdrive conc/excl/stress + tlc Trace_Conc.tla / Trace_Sugar.tla",
        }
        c.write_evidence(prop, tier, "model_checking", cov, self.assumptions, time.time() - t0, 1 if violation else 0,
                         extra={"violation": violation} if violation else None)
        if violation:
            for dl in violation["diag"]:
                print("  " + str(dl)[:1200])
            print("VIOLATION property=%s replay=%s" % (prop, violation["replay"]))
            return 1
        print("OK %s %s: %d interleavings enumerated by TLC, %d replayed on the real handlers (%d match the model, %d of them "
              "non-serialisable as predicted), 18 exclusion probes, %d stress events on %d clients"
              % (prop, tier, n, st.get("replayed", 0), st.get("match", 0), st.get("nonserial_reproduced", 0),
                 stress.get("events", 0), stress.get("clients", 0)))
        return 0

    def replay(self, prop, path):
        print("re-run the check (the recorded behaviour is in %s)" % path)
        return self.run(prop, "quick")
