"""Shared plumbing for the checks: build, TLC invocation, evidence, known findings."""
import json, os, re, shutil, subprocess, sys, tempfile, time

VERIF = os.environ.get("VERIF_ROOT", "/verif")
REPO = os.environ.get("REPO_ROOT", "/repo")
SPEC = os.path.join(VERIF, "spec")
BUILD = os.path.join(VERIF, "build")
TLA_CP = "/opt/veriftools/tla/tla2tools.jar:/opt/veriftools/tla/CommunityModules-deps.jar"

GOENV = dict(os.environ, GOFLAGS="-mod=mod", GOPROXY="off", GOSUMDB="off", GOTOOLCHAIN="local")


class Infra(Exception):
    """Infrastructure trouble (build failure, TLC evaluation error, timeout): exit 2, never a verdict."""


def log(*a):
    print(*a, file=sys.stderr, flush=True)


def seed():
    try:
        return int(os.environ.get("VERIF_SEED", "1"))
    except ValueError:
        return 1


def build_harness(race=False):
    """Rebuild the harness (and with it /repo's current working tree) with the verif tag."""
    os.makedirs(BUILD, exist_ok=True)
    shutil.copyfile(os.path.join(REPO, "go.sum"), os.path.join(VERIF, "harness", "go.sum"))
    out = os.path.join(BUILD, "vdrive-race" if race else "vdrive")
    cmd = ["go", "build", "-tags", "verif"] + (["-race"] if race else []) + ["-o", out, "./cmd/vdrive"]
    p = subprocess.run(cmd, cwd=os.path.join(VERIF, "harness"), env=GOENV, capture_output=True, text=True)
    if p.returncode != 0:
        raise Infra("harness build failed:\n" + p.stdout + p.stderr)
    return out


def scratch(prefix):
    base = os.environ.get("TMPDIR", "/tmp")
    return tempfile.mkdtemp(prefix="verif-%s-" % prefix, dir=base)


class ServerCrash(Exception):
    """The server under test (which lives inside the driver process) died: a verdict, not infrastructure."""

    def __init__(self, first, stderr):
        Exception.__init__(self, first)
        self.first = first
        self.stderr = stderr


def crash_violation(prop, tag, e, trace=None):
    os.makedirs(os.path.join(VERIF, "evidence", "replay"), exist_ok=True)
    rp = os.path.join(VERIF, "evidence", "replay", "%s-seed%d-%s-crash.txt" % (prop, seed(), tag))
    last = ""
    if trace and os.path.exists(trace):
        ls = open(trace).read().splitlines()
        last = ls[-1][:500] if ls else ""
    open(rp, "w").write("last recorded event: %s\n\n%s" % (last, e.stderr[-20000:]))
    return {"replay": rp, "line": 0, "diag": ["the server process died: " + e.first, "last recorded event: " + last]}


def run_driver(binary, args, timeout=1800, cwd=None, env=None, crash_ok=False):
    if cwd is None:
        # a server with an empty data directory writes relative to its working directory (SAVE in the ACL and
        # wire sweeps): keep that inside the run's scratch directory
        out = [args[i + 1] for i, a in enumerate(args[:-1]) if a in ("-out", "-in")]
        cwd = os.path.dirname(out[0]) if out and os.path.isdir(os.path.dirname(out[0])) else None
    p = subprocess.run([binary] + args, capture_output=True, text=True, timeout=timeout, cwd=cwd, env=env)
    if p.returncode != 0 and crash_ok:
        first = next((x for x in (p.stderr or "").splitlines() if "panic:" in x or "fatal error" in x), None)
        if first:
            raise ServerCrash(first, p.stderr or "")
    if p.returncode != 0:
        raise Infra("driver %s failed (exit %d):\n%s" % (" ".join(args[:3]), p.returncode, (p.stderr or "")[-4000:]))
    return p


_TLC_STATES = re.compile(r"(\d+) states generated, (\d+) distinct states found")
_TLC_DEPTH = re.compile(r"The depth of the complete state graph search is (\d+)")


class TLCResult:
    def __init__(self, out, rc):
        self.out = out
        self.rc = rc
        m = None
        for m in _TLC_STATES.finditer(out):
            pass
        self.generated = int(m.group(1)) if m else 0
        self.distinct = int(m.group(2)) if m else 0
        m = None
        for m in _TLC_DEPTH.finditer(out):
            pass
        self.depth = int(m.group(1)) if m else 0
        self.ok = "Model checking completed. No error has been found." in out
        self.postcondition_false = "Postcondition" in out and "is false" in out
        self.invariant_violated = re.search(r"Error: (Invariant|Action property|Temporal propert)", out) is not None
        self.eval_error = ("TLC threw an unexpected exception" in out or "Error: Evaluating" in out
                           or "Parsing or semantic analysis failed" in out or "java.lang." in out and not self.ok)

    def printed(self, tag):
        """Text of every tuple printed with PrintT(<<"tag", ...>>)."""
        res = []
        for m in re.finditer(r'<<\s*"%s"' % re.escape(tag), self.out):
            depth, k = 0, m.start()
            while k < len(self.out) - 1:
                two = self.out[k:k + 2]
                if two == "<<":
                    depth += 1
                    k += 2
                    continue
                if two == ">>":
                    depth -= 1
                    k += 2
                    if depth == 0:
                        break
                    continue
                k += 1
            res.append(re.sub(r"\s+", " ", self.out[m.start():k]))
        return res


def tlc(spec, cfg, workdir, env=None, workers=1, heap="3g", timeout=1800, extra=None):
    """Run TLC on spec (module file name in SPEC) with the given cfg file path."""
    meta = tempfile.mkdtemp(prefix="meta-", dir=workdir)
    cmd = ["java", "-XX:+UseParallelGC", "-Xmx" + heap, "-Xss256m", "-cp", TLA_CP, "tlc2.TLC",
           "-workers", str(workers), "-metadir", meta, "-config", cfg] + (extra or []) + [spec]
    e = dict(os.environ)
    if env:
        e.update(env)
    try:
        p = subprocess.run(cmd, cwd=SPEC, env=e, capture_output=True, text=True, timeout=timeout)
    except subprocess.TimeoutExpired:
        raise Infra("TLC timed out after %ds on %s" % (timeout, spec))
    finally:
        shutil.rmtree(meta, ignore_errors=True)
    return TLCResult(p.stdout + p.stderr, p.returncode)


def load_findings():
    with open(os.path.join(VERIF, "known_findings.json")) as f:
        return json.load(f)


def open_deviations(prop):
    """Names of the spec deviations enabled in this property's check (see 'scope' in known_findings.json)."""
    kf = load_findings()
    return sorted({e["deviation"] for e in kf.get("open", [])
                   if e.get("deviation") and (e["property"] == prop or e.get("scope") == "*" or prop in e.get("scope", []))})


def finding_of(deviation):
    for e in load_findings().get("open", []):
        if e.get("deviation") == deviation:
            return e
    return {"property": "?", "what": deviation}


def write_evidence(prop, tier, level, coverage, assumptions, wall, violations, extra=None):
    os.makedirs(os.path.join(VERIF, "evidence"), exist_ok=True)
    ev = {
        "property_id": prop, "tier": tier, "seed": seed(), "level": level,
        "coverage": coverage, "assumptions": assumptions, "wall_s": round(wall, 2), "violations": violations,
    }
    if extra:
        ev.update(extra)
    with open(os.path.join(VERIF, "evidence", prop + ".json"), "w") as f:
        json.dump(ev, f, indent=1)


def tla_set(names):
    return "{" + ", ".join('"%s"' % n for n in names) + "}"
