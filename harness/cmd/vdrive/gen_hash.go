package main

// Command generators for the hash module (placeholder).

func RandomHashPrograms(seed int64, n, length int) []Program {
	return nil
}
