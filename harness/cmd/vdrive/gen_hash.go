package main

// Command generator for the hash module (property C14).
//
// Programs run the 14 hash commands (plus DEL / TYPE / SET, which are already modelled) over
// 2-4 keys, starting from presets that hold hashes with string / integer / float field values
// as well as keys of every other value type, so that every command also meets a wrong-type key.
//
// Restrictions (the model has 32-bit integers and no reals):
//   - field values that look numeric come from kvValues (canonical and non-canonical numerals
//     whose typing the specification models exactly); free-form strings never look numeric;
//   - integer arguments have at most 4 digits, float arguments are multiples of 1/4 without
//     exponent; no "inf"/"nan"/hex/underscore spellings anywhere (a rare +-inf increment is
//     generated as a Q token and is skipped by the model);
//   - the WITHVALUES modifier is only ever sent as a symbol (all upper or all lower case).

import (
	"math/rand"
)

// field names: plain, empty, numeric-looking (fields are never re-typed), binary, case variants
var hFields = []string{"f1", "f2", "f3", "f4", "", "7", "a\r\nb", "\x00", "F1", "f1 "}

func hField(r *rand.Rand) Tok {
	if r.Intn(12) == 0 {
		return B(randFree(r))
	}
	// the first fields are the popular ones so that commands meet existing fields
	if r.Intn(3) > 0 {
		return B(hFields[r.Intn(4)])
	}
	return B(pick(r, hFields))
}

func hKW(r *rand.Rand, s string) Tok {
	if r.Intn(3) == 0 {
		b := []byte(s)
		for i, c := range b {
			if c >= 'A' && c <= 'Z' {
				b[i] = c + 32
			}
		}
		return S(string(b))
	}
	return S(s)
}

var hCounts = []int64{0, 1, -1, 2, -2, 3, -3, 4, 5, -5, 6, 10, -10}
var hIncrs = []int64{0, 1, -1, 2, 5, -7, 10, 100, 1000}
var hQuarters = []int64{1, 2, 6, -3, 4, 0, 10, -11, 8, -4}

func hIntArg(r *rand.Rand, pool []int64) Tok {
	switch r.Intn(14) {
	case 0:
		return B(pick(r, []string{"ten", "", "x1", "1.5", "5.", "1 ", " 1", "--1", "0x10"}))
	case 1:
		return B(pick(r, []string{"+2", "007", "-0", "+0", "-03"})) // strconv.Atoi accepts these
	case 2:
		return Q(pick(r, hQuarters)) // whole quarters are written as integers, others as decimals
	}
	return I(pick(r, pool))
}

func hFloatArg(r *rand.Rand) Tok {
	switch r.Intn(14) {
	case 0:
		return B(pick(r, []string{"pi", "", "1.2.3", "-", ".", "1,5", "abc"}))
	case 1:
		return B(pick(r, []string{".5", "5.", "+1.5", "-.25", "007", "1.50", "+0"})) // never "-0": negative zero is outside the model
	case 2, 3:
		return I(pick(r, hIncrs))
	case 4:
		if r.Intn(4) == 0 {
			return QInf(1 - 2*r.Intn(2))
		}
	}
	return Q(pick(r, hQuarters))
}

// genHash returns one random command.
func genHash(r *rand.Rand, keys []string) []Tok {
	k := func() Tok { return S(pick(r, keys)) }
	pairs := func(c []Tok) []Tok {
		n := 1 + r.Intn(3)
		if r.Intn(6) == 0 {
			n += 2
		}
		for i := 0; i < n; i++ {
			c = append(c, hField(r), randValue(r))
		}
		if r.Intn(5) == 0 && len(c) >= 4 {
			// repeat a field of this very command with another value
			c = append(c, c[2], randValue(r))
		}
		if r.Intn(12) == 0 {
			c = append(c, hField(r)) // field without a value
		}
		return c
	}
	fields := func(c []Tok, max int) []Tok {
		n := 1 + r.Intn(max)
		for i := 0; i < n; i++ {
			c = append(c, hField(r))
		}
		if r.Intn(5) == 0 {
			c = append(c, c[2]) // duplicate
		}
		return c
	}
	switch r.Intn(40) {
	case 0, 1, 2, 3, 4, 5:
		return pairs([]Tok{S("HSET"), k()})
	case 6, 7, 8, 9:
		return pairs([]Tok{S("HSETNX"), k()})
	case 10, 11:
		return fields([]Tok{S("HGET"), k()}, 3)
	case 12, 13:
		return fields([]Tok{S("HMGET"), k()}, 4)
	case 14, 15:
		return fields([]Tok{S("HSTRLEN"), k()}, 3)
	case 16:
		return []Tok{S("HVALS"), k()}
	case 17, 18, 19, 20:
		c := []Tok{S("HRANDFIELD"), k()}
		switch r.Intn(8) {
		case 0:
		case 1, 2, 3:
			c = append(c, hIntArg(r, hCounts))
		case 4, 5, 6:
			c = append(c, hIntArg(r, hCounts), hKW(r, "WITHVALUES"))
		case 7:
			c = append(c, hIntArg(r, hCounts), pick(r, []Tok{B("FLAG"), B(""), B("WITHVALUE"), S("WITHSCORES"), B("1")}))
		}
		return c
	case 21:
		return []Tok{S("HLEN"), k()}
	case 22:
		return []Tok{S("HKEYS"), k()}
	case 23, 24, 25:
		return []Tok{S("HINCRBY"), k(), hField(r), hIntArg(r, hIncrs)}
	case 26, 27, 28:
		return []Tok{S("HINCRBYFLOAT"), k(), hField(r), hFloatArg(r)}
	case 29, 30:
		return []Tok{S("HGETALL"), k()}
	case 31, 32:
		return []Tok{S("HEXISTS"), k(), hField(r)}
	case 33, 34, 35:
		return fields([]Tok{S("HDEL"), k()}, 3)
	case 36:
		switch r.Intn(3) {
		case 0:
			return []Tok{S("DEL"), k()}
		case 1:
			return []Tok{S("TYPE"), k()}
		default:
			return []Tok{S("SET"), k(), randValue(r)}
		}
	case 37:
		// keep keys of other types coming back during a program (HSET replaces them, see deviation
		// HSetWrongType).  These one-element commands belong to the list / set / zset modules; a
		// specification that does not model them skips the step and resynchronises on the logged state.
		switch r.Intn(4) {
		case 0:
			return []Tok{S("RPUSH"), k(), B("f1")}
		case 1:
			return []Tok{S("SADD"), k(), B("f1")}
		case 2:
			return []Tok{S("ZADD"), k(), I(1), B("f1")}
		default:
			return []Tok{S("TYPE"), k()}
		}
	default:
		// wrong arity: too short or too long (fields / values are byte tokens, never symbols)
		names := []string{"HSET", "HSETNX", "HGET", "HMGET", "HSTRLEN", "HVALS", "HRANDFIELD", "HLEN", "HKEYS",
			"HINCRBY", "HINCRBYFLOAT", "HGETALL", "HEXISTS", "HDEL"}
		name := pick(r, names)
		c := []Tok{S(name)}
		if r.Intn(4) == 0 {
			return c // not even a key
		}
		c = append(c, k())
		switch r.Intn(3) {
		case 0:
		case 1:
			c = append(c, hField(r))
		case 2:
			c = append(c, hField(r), I(pick(r, hIncrs)), I(pick(r, hIncrs)), hField(r))
			if name == "HRANDFIELD" {
				c = []Tok{S(name), k(), I(2), S("WITHVALUES"), hField(r)}
			}
		}
		return c
	}
}

// Presets: hashes whose fields hold every scalar kind, an emptied hash, a volatile hash, and
// keys of every other value type under the key names the programs use.
func hashPresets() [][][]Tok {
	return [][][]Tok{
		{},
		{{S("HSET"), S("k1"), B("f1"), B("a"), B("f2"), B("")}},
		{{S("HSET"), S("k1"), B("f1"), B("7"), B("f2"), B("1.5"), B("f3"), B("-3"), B("f4"), B("x\r\ny")}},
		{{S("HSET"), S("k1"), B("f1"), B("a"), B("f2"), B("12"), B("f3"), B("0.25"), B("f4"), B("b"), B(""), B("e"), B("7"), B("seven")},
			{S("HSET"), S("k2"), B("f1"), B("100")}},
		{{S("HSET"), S("k1"), B("f1"), B("a")}, {S("SET"), S("k2"), B("hello")}, {S("SET"), S("k3"), B("41")}},
		{{S("RPUSH"), S("k1"), B("a"), B("b")}, {S("HSET"), S("k2"), B("f1"), B("5"), B("f2"), B("v")}},
		{{S("SADD"), S("k1"), B("m"), B("f1")}, {S("HSET"), S("k2"), B("f1"), B("2.5")}},
		{{S("ZADD"), S("k1"), I(1), B("f1")}, {S("HSET"), S("k2"), B("f2"), B("v")}, {S("SET"), S("k3"), B("1.5")}},
		{{S("SET"), S("k1"), B("41")}, {S("SET"), S("k2"), B("1.5")}, {S("RPUSH"), S("k3"), B("f1")}},
		{{S("HSET"), S("k1"), B("f1"), B("a")}, {S("HDEL"), S("k1"), B("f1")}, {S("SADD"), S("k2"), B("f1")}},
		{{S("HSET"), S("k1"), B("f1"), B("a"), B("f2"), B("5")}, {S("PEXPIRE"), S("k1"), I(1500)},
			{S("HSET"), S("k2"), B("f1"), B("1")}, {S("PEXPIRE"), S("k2"), I(600000)}},
		{{S("SET"), S("k1"), B("v"), S("PX"), I(1000)}, {S("ZADD"), S("k2"), I(2), B("m")}, {S("SADD"), S("k3"), B("x")}},
	}
}

func hashTick(r *rand.Rand) int64 {
	switch r.Intn(16) {
	case 0:
		return 1
	case 1:
		return 499
	case 2:
		return 1001
	default:
		return 0
	}
}

// RandomHashPrograms builds n random programs of the given length.
func RandomHashPrograms(seed int64, n, length int) []Program {
	r := rand.New(rand.NewSource(seed))
	presets := hashPresets()
	var out []Program
	for i := 0; i < n; i++ {
		nk := 2 + r.Intn(3)
		keys := []string{"k1", "k2", "k3", "k4"}[:nk]
		p := Program{Preset: presets[r.Intn(len(presets))]}
		for j := 0; j < length; j++ {
			p.Steps = append(p.Steps, Step{Cmd: genHash(r, keys), Tick: hashTick(r)})
		}
		out = append(out, p)
	}
	return out
}
