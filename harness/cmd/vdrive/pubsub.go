package main

// Pub/Sub driver (C18): histories of (P)SUBSCRIBE / (P)UNSUBSCRIBE / PUBLISH / PUBSUB queries on
// connections served by the real connection handler.  After every publish the driver waits for
// quiescence, which it counts through the instrumentation points (enqueue, dequeue, delivered).

import (
	"flag"
	"fmt"
	"math/rand"
	"sort"
	"strings"
	"sync"
	"time"

	"github.com/echovault/sugardb/sugardb"
)

type psCounter struct {
	mu       sync.Mutex
	queued   int // messages enqueued on an entry and not yet dequeued
	flying   int // delivery goroutines started and not yet finished
	written  int // delivery goroutines finished (one frame each) since the last publish began
	reverse  bool
	parked   []chan struct{} // delivery goroutines held at ps.deliver (reverse mode)
	parkWant int
}

func (p *psCounter) handle(name string, args ...any) {
	switch name {
	case "ps.enqueue":
		p.mu.Lock()
		p.queued++
		p.mu.Unlock()
	case "ps.dequeue":
		p.mu.Lock()
		p.queued--
		if len(args) > 0 {
			if n, ok := args[0].(int); ok {
				p.flying += n
			}
		}
		p.mu.Unlock()
	case "ps.deliver":
		p.mu.Lock()
		if !p.reverse {
			p.mu.Unlock()
			return
		}
		ch := make(chan struct{})
		p.parked = append(p.parked, ch)
		p.mu.Unlock()
		<-ch
	case "ps.delivered":
		p.mu.Lock()
		p.flying--
		p.written++
		p.mu.Unlock()
	}
}

func (p *psCounter) quiet() bool {
	p.mu.Lock()
	defer p.mu.Unlock()
	return p.queued == 0 && p.flying == 0
}

func (p *psCounter) waitQuiet(d time.Duration) bool {
	dl := time.Now().Add(d)
	for time.Now().Before(dl) {
		if p.quiet() {
			return true
		}
		time.Sleep(200 * time.Microsecond)
	}
	return false
}

var psChans = []string{"n1", "n2", "m1"}
var psPats = []string{"n*", "*", "m?"}

func strs(xs []string) []any {
	out := make([]any, len(xs))
	for i, s := range xs {
		out[i] = s
	}
	return out
}

// confOf turns one confirmation frame [kind, name, count] into a record.
func confOf(r Reply) (map[string]any, bool) {
	if (r.T != "arr" && r.T != "push") || len(r.A) != 3 || r.A[2].T != "int" {
		return nil, false
	}
	return map[string]any{"kind": string(r.A[0].B), "name": string(r.A[1].B), "n": r.A[2].N}, true
}

func cmdPubSub(args []string) {
	fs := flag.NewFlagSet("pubsub", flag.ExitOnError)
	out := fs.String("out", "", "trace file")
	statsPath := fs.String("stats", "", "stats file")
	seed := fs.Int64("seed", 1, "seed")
	n := fs.Int("n", 30, "histories")
	length := fs.Int("len", 40, "steps per history")
	_ = fs.Parse(args)
	quiet()
	tr, err := NewTrace(*out)
	if err != nil {
		die(2, "%v", err)
	}
	r := rand.New(rand.NewSource(*seed))
	tot := map[string]int{}
	var samples []any
	for h := 0; h < *n; h++ {
		// the last history of every run forces deliveries of one burst to complete in reverse order
		runPubSubHistory(tr, h, r, *length, h == *n-1, tot, &samples)
	}
	_ = tr.Close()
	if *statsPath != "" {
		m := map[string]any{"histories": *n, "samples": samples, "lines": tr.N}
		for k, v := range tot {
			m[k] = v
		}
		writeJSON(*statsPath, m)
	}
}

func runPubSubHistory(tr *Trace, h int, r *rand.Rand, length int, witness bool, tot map[string]int, samples *[]any) {
	srv, err := NewSrv(SrvOpts{})
	if err != nil {
		die(2, "%v", err)
	}
	ctr := &psCounter{}
	sugardb.VerifSetHandler(ctr.handle)
	defer sugardb.VerifSetHandler(nil)
	tr.Emit(map[string]any{"ev": "reset", "run": h})
	names := []string{"c1", "c2", "c3"}
	conns := map[string]*PipeClient{}
	for _, c := range names {
		conns[c] = Dial(srv.DB)
	}
	pub := Dial(srv.DB)
	// drain collects what the subscribers received.  Every delivery goroutine that has finished has written one
	// frame, and the pipe hands it over synchronously - but the client's reader goroutine may not have parsed it
	// yet (seen once on a loaded machine with a fixed 2 ms wait: the frame was attributed to nobody).  So the
	// driver first waits for as many frames as deliveries have finished (up to 2 s: a frame that was never written
	// is then reported as missing), and then looks once more on every connection for frames nobody announced.
	drain := func(expected int) map[string]any {
		got := map[string][]any{}
		total := 0
		take := func(c string, d time.Duration) bool {
			f, ok := conns[c].Recv(d)
			if !ok {
				return false
			}
			if (f.T == "arr" || f.T == "push") && len(f.A) == 3 {
				got[c] = append(got[c], map[string]any{"kind": string(f.A[0].B), "entry": string(f.A[1].B), "msg": string(f.A[2].B)})
			} else {
				got[c] = append(got[c], map[string]any{"kind": "?" + f.T, "entry": "", "msg": ""})
			}
			total++
			return true
		}
		// one look at every connection (what the driver used to do) ...
		for _, c := range names {
			for take(c, 2*time.Millisecond) {
			}
		}
		// ... and, if frames that were written have not shown up yet, wait for them
		if total < expected {
			tot["drain_waited"]++
			dl := time.Now().Add(2 * time.Second)
			for total < expected && time.Now().Before(dl) {
				for _, c := range names {
					for take(c, 200*time.Microsecond) {
					}
				}
			}
			for _, c := range names {
				for take(c, 2*time.Millisecond) {
				}
			}
		}
		recv := map[string]any{}
		for c, ms := range got {
			recv[c] = ms
		}
		return recv
	}
	msgN := 0
	publish := func(ch string, k int, reverse bool) {
		var msgs []string
		ok := true
		ctr.mu.Lock()
		ctr.reverse = reverse
		ctr.parked = nil
		ctr.written = 0
		ctr.mu.Unlock()
		for i := 0; i < k; i++ {
			msgN++
			m := fmt.Sprintf("m%d", msgN)
			msgs = append(msgs, m)
			if rep := pub.Do("PUBLISH", ch, m); rep.T != "simple" {
				ok = false
			}
		}
		if reverse {
			// wait until every delivery goroutine of the burst is parked, then let them go last-first
			dl := time.Now().Add(2 * time.Second)
			for time.Now().Before(dl) {
				ctr.mu.Lock()
				q, f, p := ctr.queued, ctr.flying, len(ctr.parked)
				ctr.mu.Unlock()
				if q == 0 && p == f {
					break
				}
				time.Sleep(200 * time.Microsecond)
			}
			ctr.mu.Lock()
			parked := ctr.parked
			ctr.parked = nil
			ctr.reverse = false
			ctr.mu.Unlock()
			for i := len(parked) - 1; i >= 0; i-- {
				close(parked[i])
				time.Sleep(2 * time.Millisecond) // the write completes before the next goroutine is released
			}
		}
		quietOK := ctr.waitQuiet(5 * time.Second)
		ctr.mu.Lock()
		written := ctr.written
		ctr.mu.Unlock()
		ev := map[string]any{"ev": "pub", "run": h, "ch": ch, "msgs": strs(msgs), "ok": ok && quietOK, "recv": drain(written), "forced_reverse": reverse}
		tr.Emit(ev)
		tot["pub"]++
		tot["messages"] += k
		if len(*samples) < 2 && len(ev["recv"].(map[string]any)) > 0 {
			*samples = append(*samples, ev)
		}
	}
	for i := 0; i < length; i++ {
		switch x := r.Intn(100); {
		case x < 30: // (P)SUBSCRIBE
			c := pick(r, names)
			pat := r.Intn(3) == 0
			pool := psChans
			cmd := "SUBSCRIBE"
			if pat {
				pool, cmd = psPats, "PSUBSCRIBE"
			}
			k := 1 + r.Intn(2)
			var ns []string
			for j := 0; j < k; j++ {
				ns = append(ns, pick(r, pool))
			}
			if err := conns[c].SendRaw(encodeCmd(append([]string{cmd}, ns...))); err != nil {
				continue
			}
			var confs []any
			for j := 0; j < k; j++ {
				f, ok := conns[c].Recv(2 * time.Second)
				if !ok {
					break
				}
				if cf, ok := confOf(f); ok {
					confs = append(confs, cf)
				} else {
					confs = append(confs, map[string]any{"kind": "?" + f.T, "name": "", "n": 0})
				}
			}
			if confs == nil {
				confs = []any{}
			}
			tr.Emit(map[string]any{"ev": "sub", "run": h, "c": c, "pat": pat, "names": strs(ns), "confs": confs})
			tot["sub"]++
		case x < 45: // (P)UNSUBSCRIBE
			c := pick(r, names)
			pat := r.Intn(3) == 0
			pool := psChans
			cmd := "UNSUBSCRIBE"
			if pat {
				pool, cmd = psPats, "PUNSUBSCRIBE"
			}
			k := r.Intn(3)
			var ns []string
			for j := 0; j < k; j++ {
				ns = append(ns, pick(r, pool))
			}
			rep := conns[c].Do(append([]string{cmd}, ns...)...)
			var confs []any
			if rep.T == "arr" {
				for _, f := range rep.A {
					if cf, ok := confOf(f); ok {
						confs = append(confs, cf)
					} else {
						confs = append(confs, map[string]any{"kind": "?" + f.T, "name": "", "n": 0})
					}
				}
			} else {
				confs = append(confs, map[string]any{"kind": "?" + rep.T, "name": "", "n": 0})
			}
			if confs == nil {
				confs = []any{}
			}
			if ns == nil {
				ns = []string{}
			}
			tr.Emit(map[string]any{"ev": "unsub", "run": h, "c": c, "pat": pat, "names": strs(ns), "confs": confs})
			tot["unsub"]++
		case x < 80: // PUBLISH (single message or burst)
			k := 1
			if r.Intn(3) == 0 {
				k = 2 + r.Intn(3)
			}
			publish(pick(r, append(append([]string{}, psChans...), "zz")), k, false)
		default: // queries
			switch r.Intn(3) {
			case 0:
				arg := pick(r, []string{"", "", "n*", "*", "m?"})
				a := []string{"PUBSUB", "CHANNELS"}
				if arg != "" {
					a = append(a, arg)
				}
				rep := pub.Do(a...)
				var ns []string
				for _, f := range rep.A {
					ns = append(ns, string(f.B))
				}
				sort.Strings(ns)
				tr.Emit(map[string]any{"ev": "query", "run": h, "q": "channels", "arg": arg, "names": strs(ns), "t": rep.T})
			case 1:
				as := []string{pick(r, psChans), pick(r, psPats)}
				rep := pub.Do(append([]string{"PUBSUB", "NUMSUB"}, as...)...)
				var pairs []any
				for _, f := range rep.A {
					if len(f.A) == 2 {
						pairs = append(pairs, map[string]any{"name": string(f.A[0].B), "n": f.A[1].N})
					}
				}
				if pairs == nil {
					pairs = []any{}
				}
				tr.Emit(map[string]any{"ev": "query", "run": h, "q": "numsub", "args": strs(as), "pairs": pairs})
			default:
				rep := pub.Do("PUBSUB", "NUMPAT")
				tr.Emit(map[string]any{"ev": "query", "run": h, "q": "numpat", "n": rep.N, "t": rep.T})
			}
			tot["query"]++
		}
	}
	if witness {
		// deterministic witness of the ordering finding: two subscribers, one burst, deliveries forced last-first
		for _, c := range names {
			if err := conns[c].SendRaw(encodeCmd([]string{"SUBSCRIBE", "n1"})); err == nil {
				f, _ := conns[c].Recv(2 * time.Second)
				cf, ok := confOf(f)
				if !ok {
					cf = map[string]any{"kind": "?", "name": "", "n": 0}
				}
				tr.Emit(map[string]any{"ev": "sub", "run": h, "c": c, "pat": false, "names": strs([]string{"n1"}), "confs": []any{cf}})
			}
		}
		publish("n1", 3, true)
		tot["forced_reverse_bursts"]++
	}
	for _, c := range conns {
		c.Close()
	}
	pub.Close()
	_ = strings.ToUpper
}
