package main

// Wire driver (C12).
//   wire -beh F   replays (frame sequence, segmentation) behaviours enumerated by TLC from Wire.tla
//                 over a connection served by the real handler (net.Pipe: one client Write = one
//                 server Read of at most what was written), and records the replies
//   wire -sweep   every registered command x arity 0..5 x argument classes: exactly one well-formed
//                 reply, the server stays alive for another connection
//   wire -bytes   values containing CR, LF, NUL, the empty string and > 8 KiB through the write/read
//                 commands of every data type, compared byte for byte

import (
	"bufio"
	"bytes"
	"encoding/json"
	"flag"
	"fmt"
	"hash/fnv"
	"os"
	"sort"
	"strings"
	"time"
)

func frameBytes(kind string, idx int) ([]byte, string) {
	switch kind {
	case "ping":
		return encodeCmd([]string{"PING"}), "pong"
	case "echo":
		return encodeCmd([]string{"ECHO", fmt.Sprintf("payload-%d", idx)}), fmt.Sprintf("payload-%d", idx)
	case "bad":
		return encodeCmd([]string{"NOSUCHCMD"}), "err"
	case "big":
		// an ECHO whose frame is exactly 8192 bytes long
		head := len("*2\r\n$4\r\nECHO\r\n$8170\r\n") + 2
		p := strings.Repeat(string(rune('a'+idx%26)), 8192-head)
		b := encodeCmd([]string{"ECHO", p})
		if len(b) != 8192 {
			panic(fmt.Sprintf("big frame is %d bytes", len(b)))
		}
		return b, p
	}
	panic("bad frame kind " + kind)
}

func cutOffset(seed int64, frame, unit, size, flen int) int {
	// interior unit boundary -> a byte offset strictly inside the frame, varied by seed
	h := fnv.New32a()
	fmt.Fprintf(h, "%d/%d/%d", seed, frame, unit)
	lo := (unit - 1) * flen / size
	hi := unit * flen / size
	if lo < 1 {
		lo = 1
	}
	if hi > flen-1 {
		hi = flen - 1
	}
	if hi <= lo {
		return lo
	}
	return lo + int(h.Sum32())%(hi-lo+1)
}

var wireSizes = map[string]int{"ping": 2, "echo": 3, "bad": 2, "big": 4}

func cmdWire(args []string) {
	fs := flag.NewFlagSet("wire", flag.ExitOnError)
	out := fs.String("out", "", "trace file")
	statsPath := fs.String("stats", "", "stats file")
	seed := fs.Int64("seed", 1, "seed")
	behPath := fs.String("beh", "", "behaviours exported by TLC (one JSON per line)")
	max := fs.Int("max", 0, "replay at most this many behaviours")
	sweep := fs.Bool("sweep", false, "command table sweep")
	bytesMode := fs.Bool("bytes", false, "byte fidelity")
	_ = fs.Parse(args)
	quiet()
	tr, err := NewTrace(*out)
	if err != nil {
		die(2, "%v", err)
	}
	tot := map[string]int{}
	var samples []any
	srv, err := NewSrv(SrvOpts{})
	if err != nil {
		die(2, "%v", err)
	}
	probe := Dial(srv.DB)
	alive := func() bool {
		r := probe.Do("PING")
		if r.T == "simple" && string(r.B) == "PONG" {
			return true
		}
		probe.Close()
		probe = Dial(srv.DB)
		r = probe.Do("PING")
		return r.T == "simple" && string(r.B) == "PONG"
	}
	tr.Emit(map[string]any{"ev": "reset", "run": 0})
	flush := func() { _ = tr.w.Flush() }

	if *behPath != "" {
		f, err := os.Open(*behPath)
		if err != nil {
			die(2, "%v", err)
		}
		var behs []map[string]any
		sc := bufio.NewScanner(f)
		sc.Buffer(make([]byte, 1<<20), 1<<26)
		for sc.Scan() {
			var b map[string]any
			if json.Unmarshal(sc.Bytes(), &b) == nil {
				behs = append(behs, b)
			}
		}
		f.Close()
		if *max > 0 && len(behs) > *max {
			k := len(behs) / *max
			var s []map[string]any
			for i := int(*seed) % k; i < len(behs) && len(s) < *max; i += k {
				s = append(s, behs[i])
			}
			behs = s
		}
		for _, b := range behs {
			ev := replayStream(srv, b, *seed)
			ev["alive"] = alive()
			tr.Emit(ev)
			tot["streams"]++
			if len(samples) < 2 && len(ev["writes"].([]any)) > 2 {
				samples = append(samples, ev)
			}
		}
	}
	if *sweep {
		table := srv.DB.VerifCommandTable()
		sort.Slice(table, func(i, j int) bool { return table[i].Name < table[j].Name })
		classes := []string{"k1", "5", "-1", "99999999999", "abc", "", "EX", "0", "k2", "1.5", "*", "LIMIT", "WITHSCORES"}
		skip := map[string]bool{"subscribe": true, "psubscribe": true, "quit": true, "module|load": true, "module|unload": true}
		c := Dial(srv.DB)
		for _, cmd := range table {
			if skip[cmd.Name] {
				continue
			}
			for arity := 0; arity <= 5; arity++ {
				for variant := 0; variant < 3; variant++ {
					words := strings.Split(strings.ToUpper(cmd.Name), "|")
					h := fnv.New32a()
					fmt.Fprintf(h, "%d/%s/%d/%d", *seed, cmd.Name, arity, variant)
					x := int(h.Sum32())
					for a := 0; a < arity; a++ {
						words = append(words, classes[(x+a*7+variant*3)%len(classes)])
						x /= 3
					}
					if err := c.SendRaw(encodeCmd(words)); err != nil {
						c.Close()
						c = Dial(srv.DB)
						_ = c.SendRaw(encodeCmd(words))
					}
					r, ok := c.Recv(3 * time.Second)
					extra := 0
					if ok {
						// nothing more may follow
						if _, more := c.Recv(2 * time.Millisecond); more {
							extra = 1
						}
					}
					ev := map[string]any{"ev": "sweep", "cmd": cmd.Name, "words": strs(words), "t": r.T, "got": ok, "extra": extra, "alive": alive()}
					if r.T == "malformed" {
						ev["why"] = r.Why
					}
					tr.Emit(ev)
					flush()
					tot["sweep"]++
					if r.T == "closed" || !ok {
						c.Close()
						c = Dial(srv.DB)
					}
				}
			}
		}
		// error texts that echo client bytes: names, keys and fields with CR / LF in them.  Each probe is
		// followed by a PING on the same connection, which must be answered by exactly +PONG.
		crlf := "a\r\nb"
		echo := [][]string{
			{crlf}, {"GET" + crlf, "k"}, {"GET\r\n"}, {"SET", crlf}, {"GET", crlf, crlf},
			{"SET", "ek" + crlf, "v"}, {"LPUSH", "ek" + crlf, "x"}, {"HSET", "ek" + crlf, "f", "v"}, {"SADD", "ek" + crlf, "m"},
			{"ZADD", "ek" + crlf, "1", "m"}, {"INCR", "ek" + crlf},
			{"HSET", "eh", "f" + crlf, "notanumber"}, {"HINCRBY", "eh", "f" + crlf, "1"}, {"HINCRBYFLOAT", "eh", "f" + crlf, "1.5"},
			{"HINCRBY", "eh", "f", crlf}, {"INCRBY", "en", crlf}, {"EXPIRE", "ek", crlf}, {"SET", "ek", "v", crlf},
			{"LPUSH", "el", "x"}, {"LINDEX", "el", crlf}, {"LSET", "el", crlf, "y"}, {"ZADD", "ez", crlf, "m"},
			{"ZRANGE", "ez", crlf, "1"}, {"SELECT", crlf}, {"SWAPDB", crlf, "0"}, {"ACL", "SETUSER", "u" + crlf, "+@bogus" + crlf},
			{"ACL", "GETUSER", "u" + crlf}, {"ACL", crlf}, {"AUTH", "u" + crlf, "p"}, {"HELLO", crlf}, {"PUBSUB", crlf},
			{"COMMAND", crlf}, {"MODULE", "LOAD", crlf}, {"RENAME", "nokey" + crlf, "x"}, {"GETRANGE", "ek", crlf, "1"},
			{"SETRANGE", "ek", crlf, "x"}, {"SPOP", "es", crlf}, {"SRANDMEMBER", "es", crlf}, {"SINTERCARD", "es", "LIMIT", crlf},
			{"ZINCRBY", "ez", crlf, "m"}, {"OBJECTFREQ", crlf}, {"TOUCH" + crlf, "k"},
			// replies that carry names the client chose
			{"FLUSHALL"}, {"SET", "ek" + crlf, "v"}, {"RANDOMKEY"}, {"TYPE", "ek" + crlf}, {"GET", "ek" + crlf}, {"MGET", "ek" + crlf},
			{"ACL", "SETUSER", "u" + crlf, "on", "nopass", "~k" + crlf, "&c" + crlf, "+get"}, {"ACL", "USERS"}, {"ACL", "LIST"},
			{"ACL", "GETUSER", "u" + crlf}, {"ACL", "WHOAMI"}, {"ACL", "DELUSER", "u" + crlf},
			{"HSET", "eh2", "f" + crlf, "v" + crlf}, {"HGETALL", "eh2"}, {"HKEYS", "eh2"}, {"HVALS", "eh2"}, {"HRANDFIELD", "eh2", "1", "WITHVALUES"},
			{"SADD", "es2", "m" + crlf}, {"SMEMBERS", "es2"}, {"SRANDMEMBER", "es2"}, {"SPOP", "es2"},
			{"ZADD", "ez2", "1", "m" + crlf}, {"ZRANGE", "ez2", "0", "-1", "WITHSCORES"}, {"ZPOPMIN", "ez2"}, {"ZRANDMEMBER", "ez2", "1", "WITHSCORES"},
			{"RPUSH", "el2", "e" + crlf}, {"LRANGE", "el2", "0", "-1"}, {"LPOP", "el2"},
			{"PUBSUB", "CHANNELS", crlf}, {"PUBSUB", "NUMSUB", "c" + crlf}, {"PUBLISH", "c" + crlf, "m" + crlf},
			// empty results: every listing command over nothing (the empty array is where hand-built replies slip)
			{"FLUSHALL"}, {"COMMAND", "LIST", "FILTERBY", "PATTERN", "zzz-none*"}, {"COMMAND", "LIST", "FILTERBY", "MODULE", "zzz-none"},
			{"COMMAND", "LIST", "FILTERBY", "ACLCAT", "zzz-none"}, {"PUBSUB", "CHANNELS"}, {"PUBSUB", "CHANNELS", "zzz*"}, {"PUBSUB", "NUMSUB"},
			{"MGET", "none1", "none2"}, {"LRANGE", "none", "0", "-1"}, {"SMEMBERS", "none"}, {"SINTER", "none", "none2"}, {"SUNION", "none"},
			{"SDIFF", "none", "none2"}, {"HGETALL", "none"}, {"HKEYS", "none"}, {"HVALS", "none"}, {"HMGET", "none", "f"}, {"HRANDFIELD", "none", "2"},
			{"ZRANGE", "none", "0", "-1"}, {"ZRANGE", "none", "0", "-1", "WITHSCORES"}, {"ZUNION", "1", "none"}, {"ZINTER", "1", "none"},
			{"ZDIFF", "1", "none"}, {"ZMSCORE", "none", "m"}, {"ZRANDMEMBER", "none", "2"}, {"ZPOPMIN", "none"}, {"ZPOPMAX", "none", "2"},
			{"SRANDMEMBER", "none", "2"}, {"SPOP", "none", "2"}, {"SMISMEMBER", "none", "m"}, {"LPOP", "none"}, {"RPOP", "none"},
			{"RPUSH", "el3", "a"}, {"LRANGE", "el3", "5", "9"}, {"SADD", "es3", "a"}, {"SRANDMEMBER", "es3", "0"}, {"SPOP", "es3", "0"},
			{"ZADD", "ez3", "1", "a"}, {"ZRANGE", "ez3", "5", "9"}, {"ZRANGE", "ez3", "(1", "(1", "BYSCORE"}, {"ZRANDMEMBER", "ez3", "0"},
			{"HSET", "eh3", "f", "v"}, {"HRANDFIELD", "eh3", "0"}, {"UNSUBSCRIBE"}, {"PUNSUBSCRIBE"}, {"ACL", "USERS"}, {"ACL", "CAT", "zzz-none"},
		}
		ec := Dial(srv.DB)
		for _, words := range echo {
			if err := ec.SendRaw(encodeCmd(words)); err != nil {
				ec.Close()
				ec = Dial(srv.DB)
				_ = ec.SendRaw(encodeCmd(words))
			}
			r, ok := ec.Recv(3 * time.Second)
			extra := 0
			if ok {
				if _, more := ec.Recv(5 * time.Millisecond); more {
					extra = 1
				}
			}
			// the connection is still in step: PING gets PONG and nothing else
			pong := ec.Do("PING")
			if !(pong.T == "simple" && string(pong.B) == "PONG") {
				extra++
			}
			ev := map[string]any{"ev": "sweep", "cmd": "echo-probe", "words": strs(words), "t": r.T, "got": ok, "extra": extra, "alive": alive()}
			if r.T == "malformed" {
				ev["why"] = r.Why
			}
			tr.Emit(ev)
			flush()
			tot["sweep"]++
			tot["echo_probes"]++
			if r.T == "closed" || !ok || extra > 0 {
				ec.Close()
				ec = Dial(srv.DB)
			}
		}
		ec.Close()
		c.Close()
	}
	if *bytesMode {
		c := Dial(srv.DB)
		big := strings.Repeat("0123456789abcdef", 600) // 9600 bytes
		vals := []string{"", "a", "a\r\nb", "\r\n", "\x00", "a\x00b\x00", "line1\nline2", "tab\there", " lead", "trail ", "x\xffy", "+OK", "-ERR x", ":5", "$3", "*2", big, big + "\r\n" + big}
		type rw struct {
			name  string
			write func(k, v string) []string
			read  func(k string) []string
			pick  func(r Reply) ([]byte, bool)
		}
		bulk := func(r Reply) ([]byte, bool) { return r.B, r.T == "bulk" || r.T == "simple" }
		first := func(r Reply) ([]byte, bool) {
			if r.T != "arr" || len(r.A) < 1 {
				return nil, false
			}
			return r.A[0].B, r.A[0].T == "bulk" || r.A[0].T == "simple"
		}
		second := func(r Reply) ([]byte, bool) {
			if r.T != "arr" || len(r.A) < 2 {
				return nil, false
			}
			return r.A[1].B, true
		}
		paths := []rw{
			{"set/get", func(k, v string) []string { return []string{"SET", k, v} }, func(k string) []string { return []string{"GET", k} }, bulk},
			{"set/mget", func(k, v string) []string { return []string{"SET", k, v} }, func(k string) []string { return []string{"MGET", k} }, first},
			{"set/getrange", func(k, v string) []string { return []string{"SET", k, v} }, func(k string) []string { return []string{"GETRANGE", k, "0", "-1"} }, bulk},
			{"rpush/lrange", func(k, v string) []string { return []string{"RPUSH", k, v} }, func(k string) []string { return []string{"LRANGE", k, "0", "-1"} }, first},
			{"lpush/lindex", func(k, v string) []string { return []string{"LPUSH", k, v} }, func(k string) []string { return []string{"LINDEX", k, "0"} }, bulk},
			{"hset/hget", func(k, v string) []string { return []string{"HSET", k, "f", v} }, func(k string) []string { return []string{"HGET", k, "f"} }, first},
			{"hset/hgetall", func(k, v string) []string { return []string{"HSET", k, "f", v} }, func(k string) []string { return []string{"HGETALL", k} }, second},
			{"sadd/smembers", func(k, v string) []string { return []string{"SADD", k, v} }, func(k string) []string { return []string{"SMEMBERS", k} }, first},
			{"zadd/zrange", func(k, v string) []string { return []string{"ZADD", k, "1", v} }, func(k string) []string { return []string{"ZRANGE", k, "-inf", "+inf"} }, func(r Reply) ([]byte, bool) {
				if r.T != "arr" || len(r.A) < 1 {
					return nil, false
				}
				if r.A[0].T == "arr" && len(r.A[0].A) > 0 {
					return r.A[0].A[0].B, true
				}
				return r.A[0].B, true
			}},
			{"echo", nil, func(k string) []string { return nil }, bulk},
			{"ping-msg", nil, func(k string) []string { return nil }, bulk},
		}
		// reply lengths around every multiple of 1 KiB up to 9 KiB (the reply writer works in 1 KiB chunks,
		// the connection reader in 8 KiB segments): values of every length from k*1024-14 to k*1024+3
		sweepFrom := len(vals)
		for k := 1; k <= 9; k++ {
			for d := -14; d <= 3; d++ {
				vals = append(vals, strings.Repeat("s", k*1024+d))
			}
		}
		sweepPaths := map[string]bool{"set/get": true, "echo": true, "rpush/lrange": true, "hset/hgetall": true}
		for vi, v := range vals {
			// values the server re-types (numerals) are not in this list; the empty string cannot be a
			// set/zset member or list element problem - it is a legal bulk string everywhere
			for pi, p := range paths {
				if vi >= sweepFrom && !sweepPaths[p.name] {
					continue
				}
				k := fmt.Sprintf("bk%d_%d", vi, pi)
				var rep Reply
				if p.write != nil {
					w := c.Do(p.write(k, v)...)
					if w.T == "err" || w.T == "malformed" || w.T == "closed" || w.T == "none" {
						tr.Emit(map[string]any{"ev": "bytes", "path": p.name, "len": len(v), "same": false, "stage": "write", "t": w.T, "alive": alive(), "v": bytesToInts([]byte(truncate(v, 40)))})
						if w.T == "closed" || w.T == "none" {
							c.Close()
							c = Dial(srv.DB)
						}
						continue
					}
					rep = c.Do(p.read(k)...)
				} else if p.name == "echo" {
					rep = c.Do("ECHO", v)
				} else {
					rep = c.Do("PING", v)
				}
				got, ok := p.pick(rep)
				same := ok && bytes.Equal(got, []byte(v))
				ev := map[string]any{"ev": "bytes", "path": p.name, "len": len(v), "same": same, "stage": "read", "t": rep.T, "alive": alive(), "v": bytesToInts([]byte(truncate(v, 40)))}
				if !same {
					ev["got"] = bytesToInts([]byte(truncate(string(got), 40)))
					if rep.T == "malformed" {
						ev["why"] = rep.Why
					}
				}
				tr.Emit(ev)
				flush()
				tot["bytes"]++
				if rep.T == "closed" || rep.T == "none" {
					c.Close()
					c = Dial(srv.DB)
				}
			}
		}
		c.Close()
	}
	_ = tr.Close()
	if *statsPath != "" {
		m := map[string]any{"samples": samples, "lines": tr.N}
		for k, v := range tot {
			m[k] = v
		}
		writeJSON(*statsPath, m)
	}
}

func truncate(s string, n int) string {
	if len(s) > n {
		return s[:n]
	}
	return s
}

func replayStream(srv *Srv, b map[string]any, seed int64) map[string]any {
	kinds := b["frames"].([]any)
	var stream []byte
	var ends []int
	var want []string
	var flens []int
	for i, k := range kinds {
		fb, w := frameBytes(k.(string), i)
		stream = append(stream, fb...)
		ends = append(ends, len(stream))
		flens = append(flens, len(fb))
		want = append(want, w)
	}
	// abstract cut positions -> byte offsets
	var offs []int
	unitEnd := 0
	for _, c := range b["cuts"].([]any) {
		pos := int(c.(float64))
		// find the frame the unit position falls into
		acc := 0
		for i, k := range kinds {
			sz := wireSizes[k.(string)]
			if pos <= acc+sz {
				start := 0
				if i > 0 {
					start = ends[i-1]
				}
				if pos == acc+sz {
					offs = append(offs, ends[i])
				} else {
					offs = append(offs, start+cutOffset(seed, i, pos-acc, sz, flens[i]))
				}
				break
			}
			acc += sz
		}
		_ = unitEnd
	}
	sort.Ints(offs)
	c := Dial(srv.DB)
	defer c.Close()
	prev := 0
	var writes []any
	for _, o := range append(offs, len(stream)) {
		if o <= prev {
			continue
		}
		if err := c.SendRaw(stream[prev:o]); err != nil {
			break
		}
		writes = append(writes, o-prev)
		prev = o
	}
	var reps []any
	for i := 0; i < len(kinds)+1; i++ {
		d := 1500 * time.Millisecond
		if i == len(kinds) {
			d = 3 * time.Millisecond // nothing more may follow
		}
		r, ok := c.Recv(d)
		if !ok {
			break
		}
		okReply := false
		if i < len(want) {
			switch want[i] {
			case "pong":
				okReply = r.T == "simple" && string(r.B) == "PONG"
			case "err":
				okReply = r.T == "err"
			default:
				okReply = (r.T == "bulk" || r.T == "simple") && string(r.B) == want[i]
			}
		}
		reps = append(reps, map[string]any{"t": r.T, "ok": okReply})
	}
	if reps == nil {
		reps = []any{}
	}
	return map[string]any{"ev": "stream", "frames": kinds, "writes": writes, "replies": reps}
}
