package main

// Abstraction function: tagged command tokens -> wire strings, VerifState -> projected state.
// Together with resp.go this is the trusted observation base of every trace.

import (
	"fmt"
	"math"
	"sort"
	"strconv"
	"time"

	"github.com/echovault/sugardb/sugardb"
)

// Tok is one tagged command token.
//
//	S  symbol (command name, key, option keyword) - sent as is
//	I  integer literal - sent in canonical decimal
//	B  raw bytes (values, fields, members, elements)
//	At absolute instant given in ms relative to the trace epoch; Unit "s" or "ms"
//	Q  float given in quarter units (sent as decimal, e.g. 6 -> "1.5"); Inf = +1/-1 for infinities
type Tok struct {
	Kind string // s | i | b | at | q
	S    string
	I    int64
	B    []byte
	Unit string
	Inf  int
}

func S(s string) Tok            { return Tok{Kind: "s", S: s} }
func I(n int64) Tok             { return Tok{Kind: "i", I: n} }
func B(b string) Tok            { return Tok{Kind: "b", B: []byte(b)} }
func At(ms int64, u string) Tok { return Tok{Kind: "at", I: ms, Unit: u} }
func Q(q int64) Tok             { return Tok{Kind: "q", I: q} }
func QInf(sign int) Tok         { return Tok{Kind: "q", Inf: sign} }

func (t Tok) JSON() map[string]any {
	switch t.Kind {
	case "s":
		return map[string]any{"s": t.S, "b": bytesToInts([]byte(t.S))}
	case "i":
		return map[string]any{"i": t.I}
	case "b":
		return map[string]any{"b": bytesToInts(t.B)}
	case "at":
		return map[string]any{"at": t.I, "u": t.Unit}
	case "q":
		return map[string]any{"q": t.I, "inf": t.Inf}
	}
	panic("bad token kind " + t.Kind)
}

// QuarterString renders q/4 the way a client would type it.
func QuarterString(q int64) string {
	neg := q < 0
	if neg {
		q = -q
	}
	s := strconv.FormatInt(q/4, 10)
	switch q % 4 {
	case 1:
		s += ".25"
	case 2:
		s += ".5"
	case 3:
		s += ".75"
	}
	if neg {
		s = "-" + s
	}
	return s
}

// Epoch is the instant "relative ms 0" of all traces: a whole second, so that second- and
// millisecond-valued commands agree on it.
type Epoch struct{ Base time.Time }

func (e Epoch) Wire(t Tok) string {
	switch t.Kind {
	case "s":
		return t.S
	case "i":
		return strconv.FormatInt(t.I, 10)
	case "b":
		return string(t.B)
	case "at":
		abs := e.Base.UnixMilli() + t.I
		if t.Unit == "s" {
			return strconv.FormatInt(floorDiv(abs, 1000), 10)
		}
		return strconv.FormatInt(abs, 10)
	case "q":
		if t.Inf > 0 {
			return "+inf"
		}
		if t.Inf < 0 {
			return "-inf"
		}
		return QuarterString(t.I)
	}
	panic("bad token")
}

func floorDiv(a, b int64) int64 {
	q := a / b
	if (a%b != 0) && ((a < 0) != (b < 0)) {
		q--
	}
	return q
}

// Rel converts an absolute time to ms relative to the epoch.
func (e Epoch) Rel(t time.Time) int64 { return t.UnixMilli() - e.Base.UnixMilli() }

// ---- projected state ---------------------------------------------------------------------

func projFloat(f float64) map[string]any {
	if math.IsInf(f, 1) {
		return map[string]any{"q": 0, "inf": 1}
	}
	if math.IsInf(f, -1) {
		return map[string]any{"q": 0, "inf": -1}
	}
	q := f * 4
	if q != math.Trunc(q) || math.Abs(q) > 1e9 || math.IsNaN(f) {
		return map[string]any{"q": 0, "inf": 0, "nonquarter": fmt.Sprintf("%g", f)}
	}
	return map[string]any{"q": int64(q), "inf": 0}
}

func projValue(v sugardb.VerifValue) map[string]any {
	switch v.Kind {
	case "nil":
		return map[string]any{"k": "nil"}
	case "string":
		return map[string]any{"k": "str", "b": bytesToInts([]byte(v.Str))}
	case "int":
		if v.Int > 100_000_000 || v.Int < -100_000_000 {
			return map[string]any{"k": "int", "n": 0, "big": strconv.FormatInt(v.Int, 10)}
		}
		return map[string]any{"k": "int", "n": v.Int}
	case "int64":
		return map[string]any{"k": "int64", "n": v.Int}
	case "float":
		m := projFloat(v.Flt)
		m["k"] = "flt"
		return m
	case "list":
		l := make([]any, len(v.List))
		for i, e := range v.List {
			l[i] = bytesToInts([]byte(e))
		}
		return map[string]any{"k": "list", "l": l}
	case "hash":
		fields := make([]string, 0, len(v.Hash))
		for f := range v.Hash {
			fields = append(fields, f)
		}
		sort.Strings(fields)
		h := make([]any, 0, len(fields))
		for _, f := range fields {
			h = append(h, map[string]any{"f": bytesToInts([]byte(f)), "v": projValue(v.Hash[f])})
		}
		return map[string]any{"k": "hash", "h": h}
	case "set":
		s := make([]any, len(v.Set))
		for i, e := range v.Set {
			s[i] = bytesToInts([]byte(e))
		}
		return map[string]any{"k": "set", "s": s, "card": v.Int}
	case "zset":
		ms := make([]string, 0, len(v.ZSet))
		for m := range v.ZSet {
			ms = append(ms, m)
		}
		sort.Strings(ms)
		z := make([]any, 0, len(ms))
		for _, m := range ms {
			sc := projFloat(v.ZSet[m])
			sc["m"] = bytesToInts([]byte(m))
			z = append(z, sc)
		}
		return map[string]any{"k": "zset", "z": z}
	default:
		return map[string]any{"k": "other", "go": v.Other}
	}
}

// projState renders the keyspace as a sorted list of entries
// {"db":"0","key":"k1","v":{...},"d":deadline-ms-relative-or--1}.
func projState(e Epoch, st sugardb.VerifState) []any {
	type ent struct {
		db  int
		key string
	}
	var all []ent
	for db, m := range st.DBs {
		for k := range m {
			all = append(all, ent{db, k})
		}
	}
	sort.Slice(all, func(i, j int) bool {
		if all[i].db != all[j].db {
			return all[i].db < all[j].db
		}
		return all[i].key < all[j].key
	})
	out := make([]any, 0, len(all))
	for _, x := range all {
		en := st.DBs[x.db][x.key]
		d := int64(-1)
		if en.HasDeadline {
			d = e.Rel(en.ExpireAt)
		}
		out = append(out, map[string]any{
			"db": strconv.Itoa(x.db), "key": x.key, "v": projValue(en.Value), "d": d,
		})
	}
	return out
}

// projVolatile renders the volatile-key index as sorted [db,key] pairs (duplicates kept).
func projVolatile(st sugardb.VerifState) []any {
	var out []any
	dbs := make([]int, 0, len(st.Volatile))
	for db := range st.Volatile {
		dbs = append(dbs, db)
	}
	sort.Ints(dbs)
	for _, db := range dbs {
		ks := append([]string{}, st.Volatile[db]...)
		sort.Strings(ks)
		for _, k := range ks {
			out = append(out, map[string]any{"db": strconv.Itoa(db), "key": k})
		}
	}
	if out == nil {
		out = []any{}
	}
	return out
}

// rjson renders a reply for the trace; the reply of RANDOMKEY also carries the key as a string
// (the abstract store is keyed by strings, the reply carries bytes).
func rjson(cmd []Tok, r Reply) map[string]any {
	m := r.JSON()
	if len(cmd) > 0 && upper(cmd[0].S) == "RANDOMKEY" && (r.T == "simple" || r.T == "bulk") {
		m["s"] = string(r.B)
	}
	return m
}
