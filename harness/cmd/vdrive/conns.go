package main

// Connection driver (C20): several client connections served by the real connection handler, each with
// its own selected database: SELECT, SWAPDB, data commands, flushes and reconnects.

import (
	"flag"
	"math/rand"
	"strconv"
)

func cmdConns(args []string) {
	fs := flag.NewFlagSet("conns", flag.ExitOnError)
	out := fs.String("out", "", "trace file")
	statsPath := fs.String("stats", "", "stats file")
	seed := fs.Int64("seed", 1, "seed")
	n := fs.Int("n", 40, "histories")
	length := fs.Int("len", 40, "steps per history")
	auth := fs.Bool("auth", false, "the server requires a password: every connection authenticates first, so every command passes through authorization; no SWAPDB steps")
	_ = fs.Parse(args)
	quiet()
	tr, err := NewTrace(*out)
	if err != nil {
		die(2, "%v", err)
	}
	r := rand.New(rand.NewSource(*seed))
	tot := map[string]int{}
	samples := []any{}
	kvPool = kvCanonValues
	for h := 0; h < *n; h++ {
		opts := SrvOpts{}
		if *auth {
			opts = SrvOpts{RequirePass: true, Password: "pw"}
		}
		srv, err := NewSrv(opts)
		if err != nil {
			die(2, "%v", err)
		}
		hello := func(c *PipeClient) {
			if *auth {
				if rep := c.Do("AUTH", "pw"); rep.T != "simple" {
					die(2, "AUTH failed: %+v", rep)
				}
			}
			c.Do("PING") // the handler has registered the connection once it answers
		}
		names := []string{"c1", "c2", "c3"}
		conns := map[string]*PipeClient{}
		for _, c := range names {
			conns[c] = Dial(srv.DB)
			hello(conns[c])
		}
		tr.Emit(map[string]any{"ev": "reset", "run": h, "conns": strs(names), "now": srv.Now()})
		dbs := []int64{0, 1, 10}
		keys := []string{"k1", "k2", "k3"}
		for i := 0; i < *length; i++ {
			c := pick(r, names)
			var cmd []Tok
			kind := "data"
			switch x := r.Intn(100); {
			case x < 14:
				kind = "select"
				cmd = []Tok{S("SELECT"), I(pick(r, dbs))}
				switch r.Intn(10) {
				case 0:
					cmd = []Tok{S("SELECT"), I(-1)}
				case 1:
					cmd = []Tok{S("SELECT"), B("x")}
				case 2:
					cmd = []Tok{S("SELECT")}
				}
			case x < 24 && !*auth:
				kind = "swap"
				cmd = []Tok{S("SWAPDB"), I(pick(r, dbs)), I(pick(r, dbs))}
				switch r.Intn(10) {
				case 0:
					cmd = []Tok{S("SWAPDB"), I(0), I(-1)}
				case 1:
					cmd = []Tok{S("SWAPDB"), B("x"), I(1)}
				}
			case x < 28:
				kind = "newconn"
			case x < 33:
				cmd = []Tok{S(pick(r, []string{"FLUSHDB", "FLUSHALL"}))}
			default:
				cmd = genKV(r, keys, srv.Now())
			}
			if kind == "newconn" {
				conns[c].Close()
				conns[c] = Dial(srv.DB)
				hello(conns[c])
				tr.Emit(map[string]any{"ev": "newconn", "run": h, "c": c, "st": projState(srv.Ep, srv.DB.VerifDump()), "now": srv.Now()})
				tot["newconn"]++
				continue
			}
			wire := make([]string, len(cmd))
			for j, t := range cmd {
				wire[j] = srv.Ep.Wire(t)
			}
			rep := conns[c].Do(wire...)
			rep = srv.relTimeReply(cmd, rep)
			ev := map[string]any{"ev": "ccmd", "run": h, "c": c, "kind": kind, "cmd": toksJSON(cmd), "r": rep.JSON(),
				"now": srv.Now(), "st": projState(srv.Ep, srv.DB.VerifDump())}
			tr.Emit(ev)
			tot["commands"]++
			tot[kind]++
			if len(samples) < 2 && (kind == "swap" || (*auth && kind == "data" && rep.T != "err")) {
				samples = append(samples, ev)
			}
			if rep.T == "none" || rep.T == "closed" {
				break
			}
		}
		for _, c := range conns {
			c.Close()
		}
		srv.DB.ShutDown()
	}
	_ = tr.Close()
	if *statsPath != "" {
		m := map[string]any{"histories": *n, "samples": samples, "lines": tr.N}
		for k, v := range tot {
			m[k] = v
		}
		writeJSON(*statsPath, m)
	}
	_ = strconv.Itoa
}
