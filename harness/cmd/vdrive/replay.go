package main

// replay: re-execute a recorded program (the lines of a trace from a reset event on) against a
// fresh server built from the current working tree, recording a new trace.

import (
	"bufio"
	"encoding/json"
	"flag"
	"fmt"
	"os"
)

func tokFromJSON(m map[string]any) Tok {
	ints := func(v any) []byte {
		a, _ := v.([]any)
		b := make([]byte, len(a))
		for i, x := range a {
			b[i] = byte(x.(float64))
		}
		return b
	}
	if s, ok := m["s"]; ok {
		return S(s.(string))
	}
	if i, ok := m["i"]; ok {
		return I(int64(i.(float64)))
	}
	if at, ok := m["at"]; ok {
		return At(int64(at.(float64)), m["u"].(string))
	}
	if q, ok := m["q"]; ok {
		t := Q(int64(q.(float64)))
		if inf, ok := m["inf"]; ok {
			t.Inf = int(inf.(float64))
		}
		return t
	}
	return Tok{Kind: "b", B: ints(m["b"])}
}

func toksFromJSON(v any) []Tok {
	a, _ := v.([]any)
	out := make([]Tok, len(a))
	for i, x := range a {
		out[i] = tokFromJSON(x.(map[string]any))
	}
	return out
}

func cmdReplay(args []string) {
	fs := flag.NewFlagSet("replay", flag.ExitOnError)
	in := fs.String("in", "", "recorded program (ndjson)")
	out := fs.String("out", "", "new trace")
	_ = fs.Parse(args)
	quiet()
	f, err := os.Open(*in)
	if err != nil {
		die(2, "%v", err)
	}
	defer f.Close()
	sc := bufio.NewScanner(f)
	sc.Buffer(make([]byte, 1<<20), 1<<28)
	var progs []Program
	var cur *Program
	now := int64(StartMs)
	for sc.Scan() {
		var ev map[string]any
		if err := json.Unmarshal(sc.Bytes(), &ev); err != nil {
			die(2, "bad line: %v", err)
		}
		switch ev["ev"] {
		case "reset":
			progs = append(progs, Program{})
			cur = &progs[len(progs)-1]
			if ps, ok := ev["preset"].([]any); ok {
				for _, c := range ps {
					cur.Preset = append(cur.Preset, toksFromJSON(c))
				}
			}
			now = int64(ev["now"].(float64))
		case "sample", "select":
			if cur == nil {
				die(2, "step before reset")
			}
			t := int64(ev["now"].(float64))
			db := 0
			fmt.Sscanf(ev["db"].(string), "%d", &db)
			cur.Steps = append(cur.Steps, Step{Kind: ev["ev"].(string), Db: db, Tick: t - now})
			now = t
		case "cmd":
			if cur == nil {
				die(2, "command before reset")
			}
			t := int64(ev["now"].(float64))
			cur.Steps = append(cur.Steps, Step{Cmd: toksFromJSON(ev["cmd"]), Tick: t - now})
			now = t
		}
	}
	tr, err := NewTrace(*out)
	if err != nil {
		die(2, "%v", err)
	}
	stats := newSeqStats()
	for i, p := range progs {
		if err := RunProgram(tr, i, p, stats); err != nil {
			die(2, "program %d: %v", i, err)
		}
	}
	if err := tr.Close(); err != nil {
		die(2, "%v", err)
	}
}
