package main

// Sequential driver: runs command programs on fresh real servers and records one trace
// event per command (arguments, parsed reply, virtual time, projected state afterwards).

import (
	"fmt"
	"hash/fnv"
	"strconv"
)

type Step struct {
	Cmd  []Tok
	Tick int64  // ms to advance the virtual clock before the step
	Kind string // "" = command; "sample" = one run of the background expiry sampler; "select" = embedded SelectDB
	Db   int
	At   string // replication driver only: "leader" pins the entry node ("" = chosen at random)
}

type Program struct {
	Preset [][]Tok
	Steps  []Step
	Opts   SrvOpts
}

type SeqStats struct {
	Programs      int
	Events        int
	Distinct      map[uint64]bool // distinct programs whose execution was non-trivial
	Samples       []any
	CmdCount      map[string]int
	NonTrivialEvs int
}

func newSeqStats() *SeqStats {
	return &SeqStats{Distinct: map[uint64]bool{}, CmdCount: map[string]int{}}
}

func progHash(p Program) uint64 {
	h := fnv.New64a()
	for _, c := range p.Preset {
		for _, t := range c {
			fmt.Fprintf(h, "%v|", t)
		}
		h.Write([]byte{0})
	}
	h.Write([]byte{1})
	for _, s := range p.Steps {
		fmt.Fprintf(h, "%d;", s.Tick)
		for _, t := range s.Cmd {
			fmt.Fprintf(h, "%v|", t)
		}
		h.Write([]byte{0})
	}
	return h.Sum64()
}

// RunProgram executes one program on a fresh server and appends its events to the trace.
func RunProgram(tr *Trace, run int, p Program, stats *SeqStats) error {
	srv, err := NewSrv(p.Opts)
	if err != nil {
		return err
	}
	for _, c := range p.Preset {
		r := srv.Exec(c)
		if r.T == "panic" || r.T == "malformed" {
			return fmt.Errorf("preset command %v failed: %+v", c, r)
		}
	}
	st := srv.DB.VerifDump()
	preset := make([]any, len(p.Preset))
	for i, c := range p.Preset {
		preset[i] = toksJSON(c)
	}
	tr.Emit(map[string]any{
		"ev": "reset", "run": run, "now": srv.Now(),
		"st": projState(srv.Ep, st), "mem": st.MemUsed, "preset": preset,
	})
	nontrivial := false
	var sample []any
	for _, s := range p.Steps {
		if s.Tick > 0 {
			srv.Clock.AdvanceMs(s.Tick)
		}
		now := srv.Now()
		if s.Kind == "sample" || s.Kind == "select" {
			ev := map[string]any{"ev": s.Kind, "run": run, "now": now, "db": strconv.Itoa(s.Db)}
			var err error
			oc, why := srv.guarded(func() {
				if s.Kind == "sample" {
					err = srv.DB.VerifRunSampler(s.Db)
				} else {
					err = srv.DB.SelectDB(s.Db)
					if err == nil {
						srv.EmbDB = s.Db
					}
				}
			})
			if oc != "" {
				err = fmt.Errorf("%s: %s", oc, why)
			}
			if err != nil {
				ev["err"] = err.Error()
			}
			if srv.Dead {
				ev["st"] = []any{}
				ev["dead"] = true
				tr.Emit(ev)
				break
			}
			st := srv.DB.VerifDump()
			ev["st"] = projState(srv.Ep, st)
			ev["mem"] = st.MemUsed
			ev["vol"] = projVolatile(st)
			tr.Emit(ev)
			stats.Events++
			continue
		}
		dbBefore := srv.EmbDB
		r := srv.Exec(s.Cmd)
		r = srv.relTimeReply(s.Cmd, r)
		ev := map[string]any{
			"ev": "cmd", "run": run, "now": now,
			"db": strconv.Itoa(dbBefore), "cmd": toksJSON(s.Cmd), "r": rjson(s.Cmd, r),
		}
		if r.T == "panic" || r.T == "hang" {
			ev["st"] = []any{}
			ev["mem"] = 0
			ev["why"] = r.Why
		} else {
			st := srv.DB.VerifDump()
			ev["st"] = projState(srv.Ep, st)
			ev["mem"] = st.MemUsed
			ev["vol"] = projVolatile(st)
		}
		tr.Emit(ev)
		stats.Events++
		stats.CmdCount[upper(s.Cmd[0].S)]++
		if r.T != "err" && r.T != "nil" {
			nontrivial = true
			stats.NonTrivialEvs++
		}
		if len(stats.Samples) < 2 {
			sample = append(sample, ev)
		}
		if r.T == "panic" || r.T == "hang" {
			break
		}
	}
	stats.Programs++
	if nontrivial {
		stats.Distinct[progHash(p)] = true
	}
	if len(stats.Samples) < 2 && len(sample) > 0 {
		stats.Samples = append(stats.Samples, sample)
	}
	if !srv.Dead {
		srv.DB.ShutDown()
	}
	return nil
}
