package main

import (
	"encoding/json"
	"flag"
	"fmt"
	"os"
)

func die(code int, f string, a ...any) {
	fmt.Fprintf(os.Stderr, f+"\n", a...)
	os.Exit(code)
}

func writeJSON(path string, v any) {
	b, err := json.MarshalIndent(v, "", " ")
	if err != nil {
		die(2, "marshal: %v", err)
	}
	if err := os.WriteFile(path, b, 0o644); err != nil {
		die(2, "write %s: %v", path, err)
	}
}

func main() {
	if len(os.Args) < 2 {
		die(2, "usage: vdrive <driver> [flags]")
	}
	stderr := os.Stderr
	_ = stderr
	switch os.Args[1] {
	case "seq":
		cmdSeq(os.Args[2:])
	case "replay":
		cmdReplay(os.Args[2:])
	case "persist":
		cmdPersist(os.Args[2:])
	case "conc":
		cmdConc(os.Args[2:])
	case "excl":
		cmdExcl(os.Args[2:])
	case "stress":
		cmdStress(os.Args[2:])
	case "acl":
		cmdACL(os.Args[2:])
	case "pubsub":
		cmdPubSub(os.Args[2:])
	case "wire":
		cmdWire(os.Args[2:])
	case "repl":
		cmdRepl(os.Args[2:])
	case "replrestore":
		cmdReplRestore(os.Args[2:])
	case "conns":
		cmdConns(os.Args[2:])
	case "evict":
		cmdEvict(os.Args[2:])
	default:
		die(2, "unknown driver %q", os.Args[1])
	}
}

func cmdSeq(args []string) {
	fs := flag.NewFlagSet("seq", flag.ExitOnError)
	out := fs.String("out", "", "trace file (ndjson)")
	statsPath := fs.String("stats", "", "stats file (json)")
	family := fs.String("family", "kv", "command family")
	seed := fs.Int64("seed", 1, "seed")
	n := fs.Int("n", 100, "number of random programs")
	length := fs.Int("len", 40, "commands per random program")
	_ = fs.Parse(args)
	if *out == "" {
		die(2, "-out required")
	}
	quiet()
	var progs []Program
	switch *family {
	case "kv":
		progs = RandomKVPrograms(*seed, *n, *length, KVProfile{})
	case "kv-canon":
		progs = RandomKVPrograms(*seed, *n, *length, KVProfile{Canonical: true})
	case "expiry":
		progs = RandomKVPrograms(*seed, *n, *length, KVProfile{Canonical: true, Sample: 9, TickHeavy: true, ExpiryMix: true})
	case "multidb":
		progs = RandomKVPrograms(*seed, *n, *length, KVProfile{Canonical: true, Select: 5, Sample: 25, Dbs: []int{0, 1, 10}})
	case "kv-extra":
		progs = RandomKVPrograms(*seed, *n, *length, KVProfile{Canonical: true, Sample: 12, TickHeavy: true, ExpiryMix: true, Extra: 4})
	case "multidb-swap":
		progs = RandomKVPrograms(*seed, *n, *length, KVProfile{Canonical: true, Select: 5, Sample: 25, Swap: 12, Dbs: []int{0, 1, 10}})
	case "hash":
		progs = RandomHashPrograms(*seed, *n, *length)
	case "list":
		progs = RandomListPrograms(*seed, *n, *length)
	case "set":
		progs = RandomSetPrograms(*seed, *n, *length)
	case "zset":
		progs = RandomZSetPrograms(*seed, *n, *length)
	default:
		die(2, "unknown family %q", *family)
	}
	tr, err := NewTrace(*out)
	if err != nil {
		die(2, "%v", err)
	}
	stats := newSeqStats()
	for i, p := range progs {
		if err := RunProgram(tr, i, p, stats); err != nil {
			die(2, "program %d: %v", i, err)
		}
	}
	if err := tr.Close(); err != nil {
		die(2, "%v", err)
	}
	if HangDump != "" {
		_ = os.WriteFile(*out+".hang.txt", []byte(HangDump), 0o644)
	}
	if *statsPath != "" {
		writeJSON(*statsPath, map[string]any{
			"programs": stats.Programs, "events": stats.Events, "distinct_nontrivial": len(stats.Distinct),
			"nontrivial_events": stats.NonTrivialEvs, "commands": stats.CmdCount, "samples": stats.Samples,
			"lines": tr.N,
		})
	}
}
