package main

// Command generators for the zset module (placeholder).

func RandomZSetPrograms(seed int64, n, length int) []Program {
	return nil
}
