package main

// Command generator for the sorted-set module (C17): all 25 Z* commands plus a few generic
// commands (DEL, TYPE, SET, PEXPIRE) that change what a key holds.
//
// Restrictions that keep every step inside the specification's arithmetic (spec/CmdZSet.tla):
//   - scores are multiples of 1/4 written canonically (Q), small integers (I), +-inf (QInf) or
//     come from a curated pool of literals whose parsing the model follows;
//   - weights of the STORE forms are > 0 and almost always integers: a weight <= 0 can produce
//     an IEEE negative zero (-1 * 0, 0 * -2) that prints as "-0" but cannot be told from 0 in the
//     projected state, and a fractional weight mostly produces scores that are not multiples of
//     1/4, which takes the destination out of the model for the rest of the program; the
//     non-STORE forms use negative, zero and fractional weights (0.5, 1.5, 2.5) freely - the model
//     skips the steps whose result has a negative zero, a NaN or a non-quarter score;
//   - no exponent forms, no "nan", no literal longer than 7 digits.

import (
	"math/rand"
)

// Member pools.  Members are arbitrary byte strings (never typed); the pools contain the empty
// string, CR LF, NUL, numeric-looking strings, a prefix pair ("a","ab","abc") and a pair where one
// member contains the other without being its prefix ("ab" / "b", "ba" / "a"), which is where
// internal.CompareLex disagrees with bytes.Compare.
var zsetMemberPools = [][]string{
	{"a", "b", "c", "d"},
	{"a", "ab", "abc", "b", "ba"},
	{"", "a", "x\r\ny", "\x00", "7", "1.5"},
	{"one", "two", "three", "four", "five"},
	{"a", "B", "b", "aa", " ", "\r\n"},
	{"m1", "m2", "m3", "m10", "-3", "m"},
}

var zsetQuarters = []int64{0, 4, -4, 1, 6, -11, 8, 12, 40, 2, 4, 4}
var zsetInts = []int64{0, 1, 2, -1, 3, 10, 1, 2}
var zsetBadScores = []string{"abc", "", "1.5x", "--1", "1e", "(1", "[a", "one"}
var zsetOddScores = []string{"007", "+5", ".5", "1.50", "5.", "-0", "2.0"}

type zgen struct {
	r    *rand.Rand
	keys []string
	mems []string
	lex  bool  // programs in which (almost) all scores are equal, so that the BYLEX paths are live
	lexQ int64 // the common score of such programs
}

func (g *zgen) key() Tok {
	if g.r.Intn(3) == 0 {
		return S(g.keys[0])
	}
	return S(pick(g.r, g.keys))
}

func (g *zgen) member() Tok {
	if g.r.Intn(12) == 0 {
		return B(pick(g.r, []string{"zz", "nope", "a\r\nb", "b"}))
	}
	return B(pick(g.r, g.mems))
}

// a valid score
func (g *zgen) score() Tok {
	if g.lex && g.r.Intn(8) != 0 {
		return Q(g.lexQ)
	}
	switch g.r.Intn(12) {
	case 0:
		return QInf(1)
	case 1:
		return QInf(-1)
	case 2, 3, 4:
		return I(pick(g.r, zsetInts))
	case 5:
		return B(pick(g.r, zsetOddScores))
	default:
		return Q(pick(g.r, zsetQuarters))
	}
}

// a score that is sometimes not a number
func (g *zgen) scoreOrJunk() Tok {
	if g.r.Intn(30) == 0 {
		return B(pick(g.r, zsetBadScores))
	}
	return g.score()
}

// a score bound for ZCOUNT / ZRANGE BYSCORE / ZREMRANGEBYSCORE
func (g *zgen) bound() Tok {
	switch g.r.Intn(10) {
	case 0, 1:
		return QInf(-1)
	case 2, 3:
		return QInf(1)
	case 4:
		return B(pick(g.r, zsetBadScores))
	default:
		return g.score()
	}
}

// a lexicographic bound: a member, a prefix of one, or one of Redis' "[a" "(a" "-" "+" spellings
// (which this implementation treats as plain strings)
func (g *zgen) lexBound() Tok {
	switch g.r.Intn(10) {
	case 0:
		return B("")
	case 1:
		return B(pick(g.r, []string{"-", "+", "[a", "(b", "\xff"}))
	case 2:
		return B(pick(g.r, []string{"zzzz", "b", "ab", "a"}))
	default:
		return B(pick(g.r, g.mems))
	}
}

func zq(t Tok) (int64, bool) { // value of a finite Q / I token in quarters
	switch {
	case t.Kind == "q" && t.Inf == 0:
		return t.I, true
	case t.Kind == "i":
		return 4 * t.I, true
	}
	return 0, false
}

// lower and upper score bound: mostly a non-empty interval, sometimes reversed or not a number
func (g *zgen) scoreBounds() (Tok, Tok) {
	switch g.r.Intn(12) {
	case 0, 1, 2, 3:
		return QInf(-1), QInf(1)
	case 4:
		return QInf(-1), g.score()
	case 5:
		return g.score(), QInf(1)
	case 6:
		return g.bound(), g.bound()
	case 7:
		return QInf(1), QInf(-1)
	default:
		lo, hi := g.score(), g.score()
		a, ok1 := zq(lo)
		b, ok2 := zq(hi)
		if ok1 && ok2 && a > b {
			lo, hi = hi, lo
		}
		return lo, hi
	}
}

// lower and upper lexicographic bound
func (g *zgen) lexBounds() (Tok, Tok) {
	switch g.r.Intn(8) {
	case 0, 1:
		return B(""), B("\xff\xff")
	case 2:
		return g.lexBound(), g.lexBound()
	case 3:
		return B(""), g.lexBound()
	default:
		lo, hi := pick(g.r, g.mems), pick(g.r, g.mems)
		if lo > hi {
			lo, hi = hi, lo
		}
		return B(lo), B(hi)
	}
}

var zsetCounts = []int64{0, 1, 2, 3, -1, -2, 5, 10, 100, -100, 1, 2}

func (g *zgen) intOrJunk(xs []int64) Tok {
	switch g.r.Intn(30) {
	case 0:
		return B(pick(g.r, []string{"x", "", "1.5", "two", "1x"}))
	case 1:
		return B(pick(g.r, []string{"+2", "01", "-0"}))
	default:
		return I(pick(g.r, xs))
	}
}

func (g *zgen) keysList(min, max int) []Tok {
	n := min + g.r.Intn(max-min+1)
	out := make([]Tok, 0, n)
	for i := 0; i < n; i++ {
		if g.r.Intn(14) == 0 {
			out = append(out, S("nokey"))
		} else {
			out = append(out, g.key())
		}
	}
	return out
}

func (g *zgen) zadd() []Tok {
	c := []Tok{S("ZADD"), g.key()}
	flags := []string{"NX", "XX", "GT", "LT", "CH", "INCR"}
	switch g.r.Intn(8) {
	case 0, 1, 2: // no flags
	case 3, 4: // one flag
		c = append(c, kw(g.r, pick(g.r, flags)))
	case 5: // a legal combination
		c = append(c, kw(g.r, pick(g.r, []string{"XX", "XX", "CH"})), kw(g.r, pick(g.r, []string{"GT", "LT", "CH", "INCR"})))
	case 6: // random subset in random order
		for _, i := range g.r.Perm(len(flags)) {
			if g.r.Intn(3) == 0 {
				c = append(c, kw(g.r, flags[i]))
			}
		}
	case 7:
		c = append(c, kw(g.r, pick(g.r, flags)))
		if g.r.Intn(6) == 0 {
			c = append(c, S("BOGUS"))
		}
	}
	np := 1 + g.r.Intn(4)
	if g.r.Intn(4) == 0 {
		np = 1
	}
	for _, t := range c[2:] {
		if upper(t.S) == "INCR" && g.r.Intn(8) != 0 {
			np = 1 // INCR takes exactly one pair
		}
	}
	for i := 0; i < np; i++ {
		c = append(c, g.scoreOrJunk(), g.member())
	}
	if g.r.Intn(40) == 0 {
		c = append(c, g.score()) // dangling score
	}
	if g.r.Intn(60) == 0 {
		c = c[:2+g.r.Intn(2)] // too short
	}
	return c
}

func (g *zgen) rangeOpts(store bool) []Tok {
	var c []Tok
	var parts [][]Tok
	if g.r.Intn(2) == 0 {
		parts = append(parts, []Tok{kw(g.r, "REV")})
	}
	if g.r.Intn(2) == 0 {
		switch g.r.Intn(24) {
		case 0:
			parts = append(parts, []Tok{kw(g.r, "LIMIT"), g.intOrJunk(zsetCounts)}) // count missing
		case 1:
			parts = append(parts, []Tok{kw(g.r, "LIMIT")})
		case 2:
			parts = append(parts, []Tok{kw(g.r, "LIMIT"), I(-1), I(2)})
		default:
			parts = append(parts, []Tok{kw(g.r, "LIMIT"), g.intOrJunk([]int64{0, 0, 0, 1, 1, 2, 3, 5}), g.intOrJunk([]int64{0, 1, 1, 2, 2, 3, -1, -2, 5, 10})})
		}
	}
	if g.r.Intn(3) == 0 || (!store && g.r.Intn(2) == 0) {
		parts = append(parts, []Tok{kw(g.r, "WITHSCORES")})
	}
	if g.r.Intn(20) == 0 {
		parts = append(parts, []Tok{S("BOGUS")})
	}
	for _, i := range g.r.Perm(len(parts)) {
		c = append(c, parts[i]...)
	}
	return c
}

func (g *zgen) zrange(store bool) []Tok {
	var c []Tok
	if store {
		c = []Tok{S("ZRANGESTORE"), g.key(), g.key()}
	} else {
		c = []Tok{S("ZRANGE"), g.key()}
	}
	bylex := g.r.Intn(8) == 0
	if g.lex {
		bylex = g.r.Intn(3) != 0
	}
	if bylex {
		lo, hi := g.lexBounds()
		c = append(c, lo, hi)
	} else {
		lo, hi := g.scoreBounds()
		c = append(c, lo, hi)
	}
	opts := g.rangeOpts(store)
	mode := []Tok{}
	if bylex {
		mode = []Tok{kw(g.r, "BYLEX")}
	} else if g.r.Intn(2) == 0 {
		mode = []Tok{kw(g.r, "BYSCORE")}
	}
	if g.r.Intn(2) == 0 {
		c = append(append(c, mode...), opts...)
	} else {
		c = append(append(c, opts...), mode...)
	}
	if g.r.Intn(40) == 0 {
		for i := 0; i < 8; i++ {
			c = append(c, S("BOGUS"))
		}
	}
	if g.r.Intn(40) == 0 {
		c = c[:3]
	}
	return c
}

// operand list with the optional WEIGHTS / AGGREGATE / WITHSCORES clauses in random order
func (g *zgen) algebra(name string, store bool) []Tok {
	c := []Tok{S(name)}
	if store {
		c = append(c, g.key())
	}
	ks := g.keysList(1, 3)
	if g.r.Intn(40) == 0 {
		ks = nil
	}
	c = append(c, ks...)
	var parts [][]Tok
	if g.r.Intn(2) == 0 {
		w := []Tok{kw(g.r, "WEIGHTS")}
		n := len(ks)
		if g.r.Intn(20) == 0 {
			n += g.r.Intn(3) - 1
		}
		pool := []int64{1, 2, 3, 1, 2, 10}
		if !store {
			pool = []int64{1, 2, 3, -1, -2, 0, 1, 2}
		}
		for i := 0; i < n; i++ {
			switch g.r.Intn(25) {
			case 0:
				w = append(w, B(pick(g.r, []string{"x", "1.5x", ""})))
			case 1, 2, 3:
				if store && g.r.Intn(6) != 0 {
					// a fractional weight mostly yields scores that are not multiples of 1/4, and a
					// stored one takes the key out of the model for the rest of the program
					w = append(w, I(pick(g.r, pool)))
				} else {
					w = append(w, Q(pick(g.r, []int64{2, 6, 10}))) // 0.5, 1.5, 2.5
				}
			default:
				w = append(w, I(pick(g.r, pool)))
			}
		}
		parts = append(parts, w)
	}
	if g.r.Intn(2) == 0 {
		a := []Tok{kw(g.r, "AGGREGATE"), kw(g.r, pick(g.r, []string{"SUM", "MIN", "MAX"}))}
		switch g.r.Intn(40) {
		case 0:
			a = a[:1] // AGGREGATE without its argument
		case 1:
			a[1] = S("AVG")
		}
		parts = append(parts, a)
	}
	if g.r.Intn(2) == 0 {
		parts = append(parts, []Tok{kw(g.r, "WITHSCORES")})
	}
	for _, i := range g.r.Perm(len(parts)) {
		c = append(c, parts[i]...)
	}
	return c
}

var zsetNames = []string{"ZADD", "ZCARD", "ZCOUNT", "ZDIFF", "ZDIFFSTORE", "ZINCRBY", "ZINTER", "ZINTERSTORE",
	"ZLEXCOUNT", "ZMPOP", "ZMSCORE", "ZPOPMAX", "ZPOPMIN", "ZRANDMEMBER", "ZRANGE", "ZRANGESTORE", "ZRANK",
	"ZREVRANK", "ZREM", "ZREMRANGEBYLEX", "ZREMRANGEBYRANK", "ZREMRANGEBYSCORE", "ZSCORE", "ZUNION", "ZUNIONSTORE"}

func (g *zgen) cmd() []Tok {
	r := g.r
	switch r.Intn(56) {
	case 0, 1, 2, 3, 4, 5, 6, 7, 8, 50, 51, 52, 53, 54, 55:
		return g.zadd()
	case 9:
		return []Tok{S("ZCARD"), g.key()}
	case 10, 11:
		lo, hi := g.scoreBounds()
		return []Tok{S("ZCOUNT"), g.key(), lo, hi}
	case 12:
		c := append([]Tok{S("ZDIFF")}, g.keysList(1, 3)...)
		if r.Intn(2) == 0 {
			c = append(c, kw(r, "WITHSCORES"))
		}
		if r.Intn(30) == 0 {
			c = []Tok{S("ZDIFF"), S("WITHSCORES")}
		}
		if r.Intn(20) == 0 {
			c = append(c, g.key()) // keys after WITHSCORES are ignored
		}
		return c
	case 13:
		return append([]Tok{S("ZDIFFSTORE"), g.key()}, g.keysList(1, 3)...)
	case 14, 15, 16:
		return []Tok{S("ZINCRBY"), g.key(), g.scoreOrJunk(), g.member()}
	case 17, 18:
		return g.algebra("ZINTER", false)
	case 19, 20:
		return g.algebra("ZINTERSTORE", true)
	case 21, 22:
		lo, hi := g.lexBounds()
		return []Tok{S("ZLEXCOUNT"), g.key(), lo, hi}
	case 23:
		c := append([]Tok{S("ZMPOP")}, g.keysList(1, 3)...)
		var parts [][]Tok
		if r.Intn(4) != 0 {
			parts = append(parts, []Tok{kw(r, pick(r, []string{"MIN", "MAX"}))})
		}
		if r.Intn(2) == 0 {
			p := []Tok{kw(r, "COUNT"), g.intOrJunk([]int64{1, 1, 2, 2, 3, 0, -1, 10})}
			if r.Intn(15) == 0 {
				p = p[:1]
			}
			parts = append(parts, p)
		}
		for _, i := range r.Perm(len(parts)) {
			c = append(c, parts[i]...)
		}
		return c
	case 25:
		c := []Tok{S("ZMSCORE"), g.key()}
		n := 1 + r.Intn(3)
		for i := 0; i < n; i++ {
			c = append(c, g.member())
		}
		return c
	case 24, 26:
		return []Tok{S("ZSCORE"), g.key(), g.member()}
	case 27:
		c := []Tok{S(pick(r, []string{"ZPOPMIN", "ZPOPMAX"})), g.key()}
		if r.Intn(2) == 0 {
			c = append(c, g.intOrJunk([]int64{1, 1, 2, 2, 3, 0, -1, 10}))
		}
		return c
	case 28, 29:
		c := []Tok{S("ZRANDMEMBER"), g.key()}
		if r.Intn(4) != 0 {
			c = append(c, g.intOrJunk([]int64{1, 2, 3, 0, -1, -2, -3, -5, 5, 10}))
			if r.Intn(2) == 0 {
				c = append(c, kw(r, "WITHSCORES"))
				if r.Intn(15) == 0 {
					c[3] = S("BOGUS")
				}
			}
		}
		return c
	case 30, 31, 32, 33, 34:
		return g.zrange(false)
	case 35, 36:
		return g.zrange(true)
	case 37, 38:
		c := []Tok{S(pick(r, []string{"ZRANK", "ZREVRANK"})), g.key(), g.member()}
		if r.Intn(2) == 0 {
			c = append(c, kw(r, "WITHSCORES"))
			if r.Intn(10) == 0 {
				c[3] = S("WITHSCORE")
			}
		}
		return c
	case 39:
		c := []Tok{S("ZREM"), g.key()}
		n := 1 + r.Intn(3)
		for i := 0; i < n; i++ {
			c = append(c, g.member())
		}
		return c
	case 40:
		lo, hi := g.lexBounds()
		if r.Intn(3) != 0 {
			hi = lo // usually a narrow range, so that sets are not emptied all the time
		}
		return []Tok{S("ZREMRANGEBYLEX"), g.key(), lo, hi}
	case 41:
		idx := []int64{0, 0, 1, 1, 2, -1, -1, -2, 3, -4, 5, -6}
		return []Tok{S("ZREMRANGEBYRANK"), g.key(), g.intOrJunk(idx), g.intOrJunk(idx)}
	case 42:
		lo, hi := g.scoreBounds()
		if r.Intn(2) == 0 {
			lo = g.score()
			hi = lo
		}
		return []Tok{S("ZREMRANGEBYSCORE"), g.key(), lo, hi}
	case 43:
		return []Tok{S("ZSCORE"), g.key(), g.member()}
	case 44, 45:
		return g.algebra("ZUNION", false)
	case 46:
		return g.algebra("ZUNIONSTORE", true)
	case 47:
		// wrong arity of a random command
		c := []Tok{S(pick(r, zsetNames))}
		n := r.Intn(3)
		for i := 0; i < n; i++ {
			c = append(c, g.key())
		}
		if r.Intn(3) == 0 {
			for i := 0; i < 10; i++ {
				c = append(c, g.key())
			}
		}
		return c
	case 48:
		switch r.Intn(4) {
		case 0:
			return []Tok{S("DEL"), g.key()}
		case 1:
			return []Tok{S("SET"), g.key(), B(pick(r, []string{"v", "7", "1.5", ""}))}
		case 2:
			return []Tok{S("PEXPIRE"), g.key(), I(pick(r, []int64{500, 1500, 10000}))}
		default:
			return []Tok{S("TYPE"), g.key()}
		}
	default:
		return []Tok{S("TYPE"), g.key()}
	}
}

// Presets: sorted sets of various shapes and keys of every other value type.
func zsetPresets() [][][]Tok {
	z := func(k string, ps ...any) []Tok {
		c := []Tok{S("ZADD"), S(k)}
		for i := 0; i < len(ps); i += 2 {
			switch s := ps[i].(type) {
			case int:
				c = append(c, Q(int64(s)))
			case Tok:
				c = append(c, s)
			}
			c = append(c, B(ps[i+1].(string)))
		}
		return c
	}
	return [][][]Tok{
		{},
		{z("k1", 4, "a", 8, "b", 12, "c")},
		{z("k1", 4, "a", 4, "b", 4, "c", 4, "ab")},
		{z("k1", 4, "b", 4, "a", 0, "c", QInf(-1), "d", QInf(1), "ab", 6, "ba")},
		{z("k1", 4, "a", 8, "b", 12, "c"), z("k2", 6, "b", 10, "c", 1, "d"), z("k3", -4, "c", 0, "a")},
		{z("k1", 0, "a", 0, "b", 0, "c", 0, "abc", 0, "ba"), z("k2", 0, "b", 0, "ab")},
		{{S("SET"), S("k1"), B("hello")}, z("k2", 4, "a", 8, "b")},
		{{S("SET"), S("k2"), B("41")}, {S("SET"), S("k3"), B("1.5")}, z("k1", 4, "a")},
		{{S("RPUSH"), S("k2"), B("a"), B("b")}, {S("HSET"), S("k3"), B("f"), B("v")}, z("k1", 4, "a", 4, "b")},
		{{S("SADD"), S("k2"), B("a"), B("b")}, z("k1", 4, "a", 8, "b", 8, "c")},
		{{S("RPUSH"), S("k1"), B("a")}, {S("HSET"), S("k2"), B("f"), B("v")}, {S("SADD"), S("k3"), B("a")}, {S("SET"), S("k4"), B("7")}},
		{z("k1", 4, "a", 8, "b"), {S("PEXPIRE"), S("k1"), I(1500)}, z("k2", 4, "a")},
		{z("k1", 4, "", 4, "x\r\ny", 8, "\x00", 8, "7")},
		{z("k1", 4, "one", 8, "two", 12, "three", 16, "four", 20, "five", 24, "six"), z("k2", 4, "one", 40, "six")},
	}
}

// RandomZSetPrograms builds n random programs of the given length.
func RandomZSetPrograms(seed int64, n, length int) []Program {
	r := rand.New(rand.NewSource(seed))
	presets := zsetPresets()
	var out []Program
	for i := 0; i < n; i++ {
		nk := 2 + r.Intn(3)
		g := &zgen{r: r, keys: append([]string{}, []string{"k1", "k2", "k3", "k4"}[:nk]...)}
		if r.Intn(6) == 0 {
			g.keys[nk-1] = "10" // a key whose name looks like a number (and like a weight)
		}
		pool := zsetMemberPools[r.Intn(len(zsetMemberPools))]
		nm := 3 + r.Intn(len(pool)-2)
		g.mems = pool[:nm]
		g.lex = r.Intn(3) == 0
		g.lexQ = pick(r, []int64{0, 4, 6})
		p := Program{Preset: presets[r.Intn(len(presets))]}
		ticks := r.Intn(4) == 0
		for j := 0; j < length; j++ {
			var t int64
			if ticks {
				t = randTick(r)
			}
			p.Steps = append(p.Steps, Step{Cmd: g.cmd(), Tick: t})
		}
		out = append(out, p)
	}
	return out
}
