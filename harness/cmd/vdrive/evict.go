package main

// Eviction driver (C08): access histories under each max-memory policy with a memory limit that the
// k-th write crosses.  After every command the driver waits until the asynchronous cache-update
// goroutines it counts through the async.spawn / async.end points have finished, then records the
// evictions that happened (evict points), the dataset, the memory figure and the cache contents.

import (
	"flag"
	"math/rand"
	"sort"
	"strconv"
	"strings"
	"sync"
	"time"

	"github.com/echovault/sugardb/sugardb"
)

type evictRec struct {
	mu      sync.Mutex
	spawned int
	ended   int
	evicts  []map[string]any
	cands   []any
}

func (e *evictRec) handle(name string, args ...any) {
	switch name {
	case "async.spawn":
		e.mu.Lock()
		e.spawned++
		e.mu.Unlock()
	case "async.end":
		e.mu.Lock()
		e.ended++
		e.mu.Unlock()
	case "evict.pre":
		// the cache the next victim is popped from, as it is at this very moment
		if len(args) >= 2 {
			if c, ok := args[1].(interface{ VerifMeta() []string }); ok {
				var cands []any
				for _, line := range c.VerifMeta() {
					i1 := strings.LastIndex(line, " ")
					i0 := strings.LastIndex(line[:i1], " ")
					a, _ := strconv.ParseInt(line[i0+1:i1], 10, 64)
					b, _ := strconv.ParseInt(line[i1+1:], 10, 64)
					// wall-clock stamps (ms) are made relative so that they fit TLC's integers
					if a > 1_000_000_000 {
						a -= evictT0
					}
					if b > 1_000_000_000 {
						b -= evictT0
					}
					cands = append(cands, map[string]any{"key": line[:i0], "a": a, "b": b})
				}
				e.mu.Lock()
				e.cands = cands
				e.mu.Unlock()
			}
		}
	case "evict":
		e.mu.Lock()
		ev := map[string]any{"cands": []any{}}
		if e.cands != nil {
			ev["cands"] = e.cands
			e.cands = nil
		}
		if len(args) >= 4 {
			ev["db"] = strconv.Itoa(args[0].(int))
			ev["key"] = args[1].(string)
			ev["pol"] = args[2].(string)
			ev["membefore"] = args[3].(int64)
		}
		e.evicts = append(e.evicts, ev)
		e.mu.Unlock()
	}
}

func (e *evictRec) waitQuiet(d time.Duration) bool {
	dl := time.Now().Add(d)
	for time.Now().Before(dl) {
		e.mu.Lock()
		q := e.spawned == e.ended
		e.mu.Unlock()
		if q {
			return true
		}
		time.Sleep(100 * time.Microsecond)
	}
	return false
}

func (e *evictRec) take() []any {
	e.mu.Lock()
	defer e.mu.Unlock()
	out := make([]any, len(e.evicts))
	for i, x := range e.evicts {
		out[i] = x
	}
	e.evicts = nil
	return out
}

var evictT0 = time.Now().UnixMilli() - 1000

var evictPolicies = []string{"noeviction", "allkeys-lru", "allkeys-lfu", "volatile-lru", "volatile-lfu", "allkeys-random", "volatile-random"}

func cmdEvict(args []string) {
	fs := flag.NewFlagSet("evict", flag.ExitOnError)
	out := fs.String("out", "", "trace file")
	statsPath := fs.String("stats", "", "stats file")
	seed := fs.Int64("seed", 1, "seed")
	n := fs.Int("n", 4, "histories per policy")
	length := fs.Int("len", 25, "steps per history")
	only := fs.String("policies", "", "comma-separated subset of the policies (default: all)")
	_ = fs.Parse(args)
	quiet()
	tr, err := NewTrace(*out)
	if err != nil {
		die(2, "%v", err)
	}
	r := rand.New(rand.NewSource(*seed))
	tot := map[string]int{}
	var samples []any
	run := 0
	policies := evictPolicies
	if *only != "" {
		policies = strings.Split(*only, ",")
	}
	for _, pol := range policies {
		for h := 0; h < *n; h++ {
			runEvictHistory(tr, run, pol, r, *length, tot, &samples)
			_ = tr.w.Flush()
			run++
		}
	}
	_ = tr.Close()
	if *statsPath != "" {
		m := map[string]any{"histories": run, "samples": samples, "lines": tr.N}
		for k, v := range tot {
			m[k] = v
		}
		writeJSON(*statsPath, m)
	}
}

func cacheJSON(m map[int][]string) []any {
	var out []any
	for db, ks := range m {
		for _, k := range ks {
			out = append(out, map[string]any{"db": strconv.Itoa(db), "key": k})
		}
	}
	if out == nil {
		out = []any{}
	}
	return out
}

func runEvictHistory(tr *Trace, run int, pol string, r *rand.Rand, length int, tot map[string]int, samples *[]any) {
	// every string entry of this driver costs 58 + len(value) bytes (2-byte keys): 59, 68 or 88
	// more than half of the limits are exact sums of entry sizes (59, 68, 88), so that usage also lands exactly ON the limit
	limit := uint64(pick(r, []int64{200, 260, 330, 400, 195, 204, 215, 235, 264, 272}))
	srv, err := NewSrv(SrvOpts{Policy: pol, MaxMemory: limit, EvictInterval: time.Hour})
	if err != nil {
		die(2, "%v", err)
	}
	rec := &evictRec{}
	sugardb.VerifSetHandler(rec.handle)
	defer sugardb.VerifSetHandler(nil)
	st0 := srv.DB.VerifDump()
	tr.Emit(map[string]any{"ev": "reset", "run": run, "policy": pol, "max": limit, "now": srv.Now(),
		"st": projState(srv.Ep, st0), "mem": st0.MemUsed, "preset": []any{}})
	// a third of the histories spread their keys over two databases: one write over the limit then makes
	// both databases look for victims
	twoDbs := r.Intn(3) == 0
	curDb := 0
	keys := []string{"k1", "k2", "k3", "k4", "k5", "k6"}
	vals := []string{"v", "vvvvvvvvvv", "vvvvvvvvvvvvvvvvvvvvvvvvvvvvvv"}
	for i := 0; i < length; i++ {
		var cmd []Tok
		k := S(pick(r, keys))
		switch x := r.Intn(100); {
		case x < 45:
			cmd = []Tok{S("SET"), k, B(pick(r, vals))}
			switch r.Intn(6) {
			case 0, 1:
				cmd = append(cmd, S("EX"), I(1000))
			case 2:
				// a deadline that the clock steps over (below): the entry lingers, expired, until something overwrites it
				cmd = append(cmd, S("PX"), I(40))
			}
		case x < 65:
			cmd = []Tok{S("GET"), k}
		case x < 72:
			cmd = []Tok{S("EXPIRE"), k, I(1000)}
		case x < 77:
			cmd = []Tok{S("PERSIST"), k}
		case x < 84:
			cmd = []Tok{S("DEL"), k}
		case x < 90:
			cmd = []Tok{S("MGET"), k, S(pick(r, keys))}
		case x < 94:
			cmd = []Tok{S("APPEND"), k, B("zz")}
		case x < 96:
			cmd = []Tok{S("FLUSHDB")}
		case x < 98:
			cmd = []Tok{S("TOUCH"), k, S(pick(r, keys))}
		default:
			cmd = []Tok{S("RPUSH"), k, B("e")}
		}
		if r.Intn(8) == 0 {
			srv.Clock.AdvanceMs(100)
		}
		if twoDbs && r.Intn(3) == 0 {
			curDb = 1 - curDb
			if err := srv.DB.SelectDB(curDb); err != nil {
				die(2, "select: %v", err)
			}
		}
		time.Sleep(3 * time.Millisecond) // recency stamps have millisecond resolution
		t0 := time.Now().UnixMilli() - evictT0
		rep := srv.Exec(cmd)
		quietOK := rec.waitQuiet(5 * time.Second)
		ev := map[string]any{"ev": "cmd", "run": run, "now": srv.Now(), "db": strconv.Itoa(curDb), "cmd": toksJSON(cmd), "r": rep.JSON(),
			"evicts": rec.take(), "quiet": quietOK, "policy": pol, "max": limit, "t0": t0}
		if rep.T == "panic" || rep.T == "hang" || !quietOK {
			ev["st"] = []any{}
			ev["mem"] = 0
			tr.Emit(ev)
			tot["dead"]++
			return
		}
		var st sugardb.VerifState
		if oc, _ := srv.guarded(func() { st = srv.DB.VerifDump() }); oc != "" {
			ev["st"] = []any{}
			ev["mem"] = 0
			ev["r"] = Reply{T: "hang"}.JSON()
			tr.Emit(ev)
			tot["dead"]++
			return
		}
		ev["st"] = projState(srv.Ep, st)
		ev["mem"] = st.MemUsed
		// the access counts the server reports (OBJECTFREQ), for every key of every database that is there
		ev["freq"] = objectFreqs(srv, st, curDb, pol)
		// ... and the time of the last access it reports (OBJECTIDLETIME), as an interval of wall-clock milliseconds
		ev["idle"] = objectIdle(srv, st, curDb)
		ev["vol"] = projVolatile(st)
		ev["lru"] = cacheJSON(st.LRU)
		ev["lfu"] = cacheJSON(st.LFU)
		tr.Emit(ev)
		tot["commands"]++
		tot["evictions"] += len(ev["evicts"].([]any))
		if len(*samples) < 2 && len(ev["evicts"].([]any)) > 0 {
			*samples = append(*samples, ev)
		}
	}
}

// objectFreqs asks the server, through the OBJECTFREQ command, for the access count of every key of the
// dataset (switching the embedded connection to each database and back).  Under a policy that is not LFU the
// command must be refused, which is recorded as one entry with n = -1.
func objectFreqs(srv *Srv, st sugardb.VerifState, curDb int, pol string) []any {
	out := []any{}
	dbs := make([]int, 0, len(st.DBs))
	for db := range st.DBs {
		dbs = append(dbs, db)
	}
	sort.Ints(dbs)
	for _, db := range dbs {
		keys := make([]string, 0, len(st.DBs[db]))
		for k := range st.DBs[db] {
			keys = append(keys, k)
		}
		sort.Strings(keys)
		if len(keys) == 0 {
			continue
		}
		if db != curDb {
			if err := srv.DB.SelectDB(db); err != nil {
				die(2, "select: %v", err)
			}
		}
		for _, k := range keys {
			rep := srv.Exec([]Tok{S("OBJECTFREQ"), S(k)})
			n := int64(-1)
			switch rep.T {
			case "simple":
				if v, err := strconv.ParseInt(string(rep.B), 10, 64); err == nil {
					n = v
				} else {
					n = -2
				}
			case "int":
				n = rep.N
			case "err":
				n = -1
			default:
				n = -3 // panic / hang / unexpected shape
			}
			out = append(out, map[string]any{"db": strconv.Itoa(db), "key": k, "n": n})
		}
		if db != curDb {
			if err := srv.DB.SelectDB(curDb); err != nil {
				die(2, "select: %v", err)
			}
		}
	}
	return out
}

// objectIdle asks the server, through OBJECTIDLETIME, when every key of the dataset was last accessed.  The reply
// is the idle time in seconds measured against the wall clock at the moment of the call, so the access time is
// known up to the duration of the call: [lo, hi] in milliseconds (relative like all stamps of this driver).
// A refusal (no LRU policy, key not in the cache) is recorded as lo = hi = -1.
func objectIdle(srv *Srv, st sugardb.VerifState, curDb int) []any {
	out := []any{}
	dbs := make([]int, 0, len(st.DBs))
	for db := range st.DBs {
		dbs = append(dbs, db)
	}
	sort.Ints(dbs)
	for _, db := range dbs {
		keys := make([]string, 0, len(st.DBs[db]))
		for k := range st.DBs[db] {
			keys = append(keys, k)
		}
		sort.Strings(keys)
		if len(keys) == 0 {
			continue
		}
		if db != curDb {
			if err := srv.DB.SelectDB(db); err != nil {
				die(2, "select: %v", err)
			}
		}
		for _, k := range keys {
			a := time.Now().UnixNano()
			rep := srv.Exec([]Tok{S("OBJECTIDLETIME"), S(k)})
			b := time.Now().UnixNano()
			lo, hi := int64(-1), int64(-1)
			switch rep.T {
			case "simple":
				if v, err := strconv.ParseFloat(string(rep.B), 64); err == nil {
					idle := int64(v * 1e9)
					// the stamp is a whole millisecond: the only ones in [a-idle, b-idle] (1 us of slack for the
					// float in the reply)
					lo = -floorDiv(-(a-idle-1000), 1_000_000) - evictT0
					hi = floorDiv(b-idle+1000, 1_000_000) - evictT0
				} else {
					lo, hi = -2, -2
				}
			case "err":
			default:
				lo, hi = -3, -3 // panic / hang / unexpected shape
			}
			out = append(out, map[string]any{"db": strconv.Itoa(db), "key": k, "lo": lo, "hi": hi})
		}
		if db != curDb {
			if err := srv.DB.SelectDB(curDb); err != nil {
				die(2, "select: %v", err)
			}
		}
	}
	return out
}
