package main

// Concurrency driver (C05).
//   conc  : replays the interleavings TLC enumerated for spec/Conc.tla on the real handlers.  Two
//           client goroutines are parked at the ks.*.enter gates (the entry of every keyspace
//           critical section) and released one step at a time in the order of the behaviour; the
//           replies and the final dataset are compared with what the step semantics predicts.
//   excl  : mutual-exclusion probes: a client is parked INSIDE a critical section (ks.*.locked,
//           ks.setValues.key) and a second client's command must (or need not) wait.
//   stress: free-running clients with snapshots / rewrites / flushes / sampler as actors.

import (
	"bufio"
	"bytes"
	"encoding/json"
	"flag"
	"fmt"
	"math/rand"
	"os"
	"runtime"
	"sort"
	"strconv"
	"strings"
	"sync"
	"sync/atomic"
	"time"

	"github.com/echovault/sugardb/sugardb"
)

func goid() int64 {
	var buf [64]byte
	n := runtime.Stack(buf[:], false)
	f := bytes.Fields(buf[:n])
	id, _ := strconv.ParseInt(string(f[1]), 10, 64)
	return id
}

// gateCtl parks registered goroutines at selected points.
type gateCtl struct {
	mu      sync.Mutex
	clients map[int64]int // goroutine id -> client number
	parkAt  func(name string) bool
	arrived chan gateEvent
	release map[int]chan struct{}
	parkAny bool // park unregistered goroutines too (reported as client 99)
	only    int  // when non-zero, only this registered client is ever parked
}

type gateEvent struct {
	client int
	point  string
	done   bool
	reply  Reply
}

func newGateCtl(parkAt func(string) bool) *gateCtl {
	return &gateCtl{clients: map[int64]int{}, parkAt: parkAt, arrived: make(chan gateEvent, 16),
		release: map[int]chan struct{}{}}
}

func (g *gateCtl) handle(name string, args ...any) {
	if !g.parkAt(name) {
		return
	}
	id := goid()
	g.mu.Lock()
	c, ok := g.clients[id]
	rel := g.release[c]
	g.mu.Unlock()
	if !ok {
		if !g.parkAny {
			return // background goroutine: passes
		}
		g.mu.Lock()
		c = 99
		if g.release[99] == nil {
			g.release[99] = make(chan struct{})
		}
		rel = g.release[99]
		g.mu.Unlock()
	}
	if g.only != 0 && c != g.only && c != 99 {
		return
	}
	g.arrived <- gateEvent{client: c, point: name}
	<-rel
}

// start launches client c executing cmd; it reports a done event when the command returns.
func (g *gateCtl) start(srv *Srv, c int, cmd []Tok) {
	rel := make(chan struct{})
	g.mu.Lock()
	g.release[c] = rel
	g.mu.Unlock()
	ready := make(chan struct{})
	go func() {
		id := goid()
		g.mu.Lock()
		g.clients[id] = c
		g.mu.Unlock()
		close(ready)
		wire := make([]string, len(cmd))
		for i, t := range cmd {
			wire[i] = srv.Ep.Wire(t)
		}
		var rep Reply
		func() {
			defer func() {
				if p := recover(); p != nil {
					rep = Reply{T: "panic", Why: fmt.Sprint(p)}
				}
			}()
			raw, err := srv.DB.ExecuteCommand(wire...)
			if err != nil {
				rep = Reply{T: "err", B: []byte(err.Error())}
			} else {
				rep = ParseOne(raw)
			}
		}()
		g.mu.Lock()
		delete(g.clients, id)
		g.mu.Unlock()
		g.arrived <- gateEvent{client: c, done: true, reply: rep}
	}()
	<-ready
}

// waitFor waits for the next event of client c (events of other clients are queued back).
func (g *gateCtl) waitFor(c int, pending map[int][]gateEvent, d time.Duration) (gateEvent, bool) {
	if q := pending[c]; len(q) > 0 {
		pending[c] = q[1:]
		return q[0], true
	}
	t := time.After(d)
	for {
		select {
		case ev := <-g.arrived:
			if ev.client == c {
				return ev, true
			}
			pending[ev.client] = append(pending[ev.client], ev)
		case <-t:
			return gateEvent{}, false
		}
	}
}

// ---- loading an initial store ------------------------------------------------------------

func loadInit(srv *Srv, init []any) error {
	for _, x := range init {
		e := x.(map[string]any)
		key := e["key"].(string)
		v := e["v"].(map[string]any)
		bytesOf := func(a any) string {
			arr, _ := a.([]any)
			b := make([]byte, len(arr))
			for i, y := range arr {
				b[i] = byte(y.(float64))
			}
			return string(b)
		}
		var r Reply
		switch v["k"] {
		case "str":
			r = srv.Exec([]Tok{S("SET"), S(key), B(bytesOf(v["b"]))})
		case "int":
			r = srv.Exec([]Tok{S("SET"), S(key), I(int64(v["n"].(float64)))})
		case "list":
			c := []Tok{S("RPUSH"), S(key)}
			for _, el := range v["l"].([]any) {
				c = append(c, B(bytesOf(el)))
			}
			r = srv.Exec(c)
		default:
			return fmt.Errorf("cannot load value kind %v", v["k"])
		}
		if r.T == "err" || r.T == "panic" {
			return fmt.Errorf("loading %s failed: %+v", key, r)
		}
		if d := int64(e["d"].(float64)); d != -1 {
			if r := srv.Exec([]Tok{S("PEXPIREAT"), S(key), At(d, "ms")}); r.T != "int" || r.N != 1 {
				return fmt.Errorf("setting deadline of %s failed: %+v", key, r)
			}
		}
	}
	return nil
}

// normalise a projected state / a TLC StoreSeq for comparison (live entries only, sorted JSON)
func canonState(entries []any, now int64) string {
	var out []string
	for _, x := range entries {
		e := x.(map[string]any)
		d := int64(0)
		switch t := e["d"].(type) {
		case float64:
			d = int64(t)
		case int64:
			d = t
		case int:
			d = int64(t)
		}
		if d != -1 && d < now {
			continue
		}
		b, _ := json.Marshal(map[string]any{"db": e["db"], "key": e["key"], "v": e["v"], "d": d})
		out = append(out, string(b))
	}
	sort.Strings(out)
	return strings.Join(out, "\n")
}

func replyMatches(model map[string]any, got Reply) bool {
	ints := func(a any) []byte {
		arr, _ := a.([]any)
		b := make([]byte, len(arr))
		for i, y := range arr {
			b[i] = byte(y.(float64))
		}
		return b
	}
	switch model["t"] {
	case "ok":
		return got.T == "simple" && string(got.B) == "OK"
	case "nil":
		return got.T == "nil"
	case "err":
		return got.T == "err"
	case "int":
		return got.T == "int" && got.N == int64(model["n"].(float64))
	case "str":
		return (got.T == "bulk" || got.T == "simple") && bytes.Equal(got.B, ints(model["b"]))
	case "arr":
		a, _ := model["a"].([]any)
		if got.T != "arr" || len(got.A) != len(a) {
			return false
		}
		for i := range a {
			if !replyMatches(a[i].(map[string]any), got.A[i]) {
				return false
			}
		}
		return true
	}
	return false
}

// ---- conc: replay of TLC behaviours ------------------------------------------------------

const concNow = 100000 // CCT0 of spec/MC_Conc.tla

func cmdConc(args []string) {
	fs := flag.NewFlagSet("conc", flag.ExitOnError)
	behPath := fs.String("beh", "", "file with one JSON behaviour per line (exported by TLC from Conc.tla)")
	out := fs.String("out", "", "result file (ndjson)")
	statsPath := fs.String("stats", "", "stats file")
	seed := fs.Int64("seed", 1, "seed (sampling)")
	max := fs.Int("max", 0, "replay at most this many behaviours (0 = all), sampled deterministically by seed")
	_ = fs.Parse(args)
	quiet()
	f, err := os.Open(*behPath)
	if err != nil {
		die(2, "%v", err)
	}
	defer f.Close()
	var behs []map[string]any
	sc := bufio.NewScanner(f)
	sc.Buffer(make([]byte, 1<<20), 1<<26)
	for sc.Scan() {
		var b map[string]any
		if err := json.Unmarshal(sc.Bytes(), &b); err != nil {
			die(2, "bad behaviour line: %v", err)
		}
		behs = append(behs, b)
	}
	if *max > 0 && len(behs) > *max {
		// deterministic sample: every k-th, offset by seed
		k := len(behs) / *max
		var s []map[string]any
		for i := int(*seed) % k; i < len(behs) && len(s) < *max; i += k {
			s = append(s, behs[i])
		}
		behs = s
	}
	tr, err := NewTrace(*out)
	if err != nil {
		die(2, "%v", err)
	}
	stats := map[string]int{}
	var samples []any
	parkAt := func(name string) bool { return strings.HasPrefix(name, "ks.") && strings.HasSuffix(name, ".enter") }
	for bi, b := range behs {
		res := replayBehaviour(b, parkAt)
		res["i"] = bi
		tr.Emit(res)
		stats["replayed"]++
		stats[res["verdict"].(string)]++
		if b["serial"] == false && res["verdict"] == "match" {
			stats["nonserial_reproduced"]++
		}
		if len(samples) < 2 && b["serial"] == false {
			samples = append(samples, map[string]any{"behaviour": b, "result": res})
		}
	}
	_ = tr.Close()
	if *statsPath != "" {
		m := map[string]any{"samples": samples}
		for k, v := range stats {
			m[k] = v
		}
		writeJSON(*statsPath, m)
	}
}

func replayBehaviour(b map[string]any, parkAt func(string) bool) map[string]any {
	res := map[string]any{"ev": "beh", "sched": b["sched"], "cmds": b["cmds"], "serial": b["serial"], "skip": b["skip"]}
	srv, err := NewSrv(SrvOpts{StartMs: concNow})
	if err != nil {
		res["verdict"] = "infra"
		res["why"] = err.Error()
		return res
	}
	if err := loadInit(srv, b["init"].([]any)); err != nil {
		res["verdict"] = "infra"
		res["why"] = err.Error()
		return res
	}
	g := newGateCtl(parkAt)
	sugardb.VerifSetHandler(g.handle)
	defer sugardb.VerifSetHandler(nil)
	cmds := b["cmds"].([]any)
	pending := map[int][]gateEvent{}
	state := map[int]string{} // parked | done
	replies := map[int]Reply{}
	fail := func(why string) map[string]any {
		res["verdict"] = "mismatch"
		res["why"] = why
		// let whatever is parked run to completion so the goroutines go away
		for c, s := range state {
			if s == "parked" {
				for {
					g.mu.Lock()
					rel := g.release[c]
					g.mu.Unlock()
					rel <- struct{}{}
					ev, ok := g.waitFor(c, pending, 2*time.Second)
					if !ok || ev.done {
						break
					}
				}
			}
		}
		return res
	}
	for c := 1; c <= 2; c++ {
		g.start(srv, c, toksFromJSON(cmds[c-1]))
		ev, ok := g.waitFor(c, pending, 5*time.Second)
		if !ok {
			return fail(fmt.Sprintf("client %d neither reached a keyspace gate nor returned", c))
		}
		if ev.done {
			state[c] = "done"
			replies[c] = ev.reply
		} else {
			state[c] = "parked"
		}
	}
	for i, x := range b["sched"].([]any) {
		c := int(x.(float64))
		if state[c] != "parked" {
			return fail(fmt.Sprintf("step %d: the model lets client %d take a keyspace step but its handler has already returned (step structure differs)", i+1, c))
		}
		g.mu.Lock()
		rel := g.release[c]
		g.mu.Unlock()
		rel <- struct{}{}
		ev, ok := g.waitFor(c, pending, 5*time.Second)
		if !ok {
			return fail(fmt.Sprintf("step %d: client %d did not finish its keyspace step (deadlock?)", i+1, c))
		}
		if ev.done {
			state[c] = "done"
			replies[c] = ev.reply
		}
	}
	for c := 1; c <= 2; c++ {
		if state[c] != "done" {
			return fail(fmt.Sprintf("client %d still has keyspace steps left after the model's schedule ended (step structure differs)", c))
		}
	}
	if b["skip"] == true {
		res["verdict"] = "skip"
		return res
	}
	mr := b["replies"].([]any)
	for c := 1; c <= 2; c++ {
		if !replyMatches(mr[c-1].(map[string]any), replies[c]) {
			res["got_reply"] = replies[c].JSON()
			return fail(fmt.Sprintf("client %d: reply differs from the step model's prediction %v", c, mr[c-1]))
		}
	}
	st := srv.DB.VerifDump()
	got := canonState(projState(srv.Ep, st), concNow)
	want := canonState(b["final"].([]any), concNow)
	if got != want {
		res["got_state"] = got
		res["want_state"] = want
		return fail("final dataset differs from the step model's prediction")
	}
	res["verdict"] = "match"
	return res
}

// ---- excl: mutual exclusion probes --------------------------------------------------------

type holderSpec struct {
	Point  string
	Cmd    []Tok
	Preset [][]Tok
}

func cmdExcl(args []string) {
	fs := flag.NewFlagSet("excl", flag.ExitOnError)
	out := fs.String("out", "", "trace file (ndjson)")
	_ = fs.Parse(args)
	quiet()
	tr, err := NewTrace(*out)
	if err != nil {
		die(2, "%v", err)
	}
	pre := [][]Tok{{S("SET"), S("k1"), B("v")}, {S("SET"), S("k2"), B("5")}}
	holders := []holderSpec{
		{"ks.keysExist.locked", []Tok{S("GET"), S("k1")}, pre},
		{"ks.getExpiry.locked", []Tok{S("TTL"), S("k1")}, pre},
		{"ks.getValues.locked", []Tok{S("INCR"), S("k2")}, pre},
		{"ks.setValues.locked", []Tok{S("SET"), S("k1"), B("w")}, pre},
		{"ks.setValues.key", []Tok{S("MSET"), S("k1"), B("a"), S("k2"), B("b")}, pre},
		{"ks.setExpiry.locked", []Tok{S("PEXPIRE"), S("k1"), I(100000)}, pre},
		{"ks.deleteKey.locked", []Tok{S("DEL"), S("k1")}, pre},
		{"ks.flush.locked", []Tok{S("FLUSHDB")}, pre},
		{"ks.getState.copy", []Tok{S("SAVE")}, pre},
	}
	contenders := map[string][]Tok{
		"reader": {S("TTL"), S("k2")},
		"writer": {S("SET"), S("k3"), B("x")},
	}
	for _, h := range holders {
		for _, cname := range []string{"reader", "writer"} {
			ev := exclProbe(h, cname, contenders[cname])
			tr.Emit(ev)
		}
	}
	_ = tr.Close()
}

func exclProbe(h holderSpec, cname string, ccmd []Tok) map[string]any {
	ev := map[string]any{"ev": "excl", "holder": h.Point, "contender": cname}
	dir, _ := os.MkdirTemp("", "vexcl-")
	defer os.RemoveAll(dir)
	srv, err := NewSrv(SrvOpts{DataDir: dir})
	if err != nil {
		ev["err"] = err.Error()
		return ev
	}
	for _, c := range h.Preset {
		srv.Exec(c)
	}
	// only client 1 (the holder) is ever parked, and only at the holder's point
	g := newGateCtl(func(name string) bool { return name == h.Point })
	g.only = 1
	sugardb.VerifSetHandler(g.handle)
	defer sugardb.VerifSetHandler(nil)
	pending := map[int][]gateEvent{}
	if h.Point == "ks.getState.copy" {
		// SAVE copies the state on a goroutine of its own: park whatever goroutine gets there
		g.parkAny = true
	}
	g.start(srv, 1, h.Cmd)
	hev, ok := g.waitFor(1, pending, 5*time.Second)
	if h.Point == "ks.getState.copy" && ok && hev.done {
		// the SAVE command itself returned; now wait for the copier to park
		hev, ok = g.waitFor(99, pending, 5*time.Second)
	}
	if !ok || hev.done {
		ev["err"] = "the holder command never reached " + h.Point
		return ev
	}
	// the contender runs unparked (its points are not selected)
	g.start(srv, 2, ccmd)
	cev, finishedEarly := g.waitFor(2, pending, 200*time.Millisecond)
	ev["blocked"] = !finishedEarly
	// release the holder; everything must complete
	holderClient := hev.client
	g.mu.Lock()
	rel := g.release[holderClient]
	g.mu.Unlock()
	rel <- struct{}{}
	okAll := true
	if finishedEarly {
		okAll = okAll && cev.done
	}
	if holderClient == 1 {
		for {
			hd, ok := g.waitFor(1, pending, 5*time.Second)
			if !ok {
				okAll = false
				break
			}
			if hd.done {
				break
			}
			rel <- struct{}{} // the holder reached the same point again (next key): let it go on
		}
	}
	if !finishedEarly {
		cev, ok = g.waitFor(2, pending, 5*time.Second)
		okAll = okAll && ok && cev.done
	}
	ev["finished"] = okAll
	time.Sleep(20 * time.Millisecond)
	return ev
}

// ---- stress: free-running clients on disjoint keys with background actors -------------------

// Each client works on its own keys, so its command sequence has a sequential meaning that no other
// client can disturb: its trace (state projected onto its own keys) must be a behaviour of the
// sequential specification however the goroutines interleave, while SAVE, REWRITEAOF and the expiry
// sampler run alongside.  A fatal runtime error kills this process (exit != 0), a hang is reported.
func cmdStress(args []string) {
	fs := flag.NewFlagSet("stress", flag.ExitOnError)
	outPrefix := fs.String("out", "", "trace file prefix (one file per client)")
	statsPath := fs.String("stats", "", "stats file")
	seed := fs.Int64("seed", 1, "seed")
	clients := fs.Int("clients", 6, "clients")
	ops := fs.Int("ops", 300, "commands per client")
	_ = fs.Parse(args)
	quiet()
	dir, _ := os.MkdirTemp("", "vstress-")
	defer os.RemoveAll(dir)
	srv, err := NewSrv(SrvOpts{DataDir: dir, AOFSync: "no"})
	if err != nil {
		die(2, "%v", err)
	}
	var wg sync.WaitGroup
	stop := make(chan struct{})
	kvPool = kvCanonValues
	var actorRuns [3]atomic.Int64
	// actors
	for a := 0; a < 3; a++ {
		go func(a int) {
			for {
				select {
				case <-stop:
					return
				default:
				}
				switch a {
				case 0:
					_, _ = srv.DB.ExecuteCommand("SAVE")
				case 1:
					_, _ = srv.DB.ExecuteCommand("REWRITEAOF")
				case 2:
					_ = srv.DB.VerifRunSampler(0)
				}
				actorRuns[a].Add(1)
				time.Sleep(time.Duration(1+a) * time.Millisecond)
			}
		}(a)
	}
	hung := make(chan int, *clients)
	events := make([]int, *clients)
	for ci := 0; ci < *clients; ci++ {
		wg.Add(1)
		go func(ci int) {
			defer wg.Done()
			r := rand.New(rand.NewSource(*seed*100 + int64(ci)))
			tr, err := NewTrace(fmt.Sprintf("%s.c%d.ndjson", *outPrefix, ci))
			if err != nil {
				return
			}
			defer tr.Close()
			prefix := fmt.Sprintf("c%dk", ci)
			keys := []string{prefix + "1", prefix + "2", prefix + "3"}
			mine := func(st sugardb.VerifState) []any {
				var out []any
				for _, e := range projState(srv.Ep, st) {
					if strings.HasPrefix(e.(map[string]any)["key"].(string), prefix) {
						out = append(out, e)
					}
				}
				if out == nil {
					out = []any{}
				}
				return out
			}
			tr.Emit(map[string]any{"ev": "reset", "run": ci, "now": srv.Now(), "st": []any{}, "mem": 0, "preset": []any{}})
			for i := 0; i < *ops; i++ {
				var cmd []Tok
				switch r.Intn(5) {
				case 0:
					cmd = genHash(r, keys)
				case 1:
					cmd = genList(r, keys)
				case 2:
					cmd = genSet(r, keys)
				default:
					cmd = genKV(r, keys, srv.Now())
				}
				if n := upper(cmd[0].S); n == "FLUSHDB" || n == "FLUSHALL" {
					continue // would destroy the other clients' keys
				}
				done := make(chan Reply, 1)
				go func() {
					wire := make([]string, len(cmd))
					for j, t := range cmd {
						wire[j] = srv.Ep.Wire(t)
					}
					defer func() {
						if p := recover(); p != nil {
							done <- Reply{T: "panic", Why: fmt.Sprint(p)}
						}
					}()
					raw, err := srv.DB.ExecuteCommand(wire...)
					if err != nil {
						done <- Reply{T: "err"}
						return
					}
					done <- ParseOne(raw)
				}()
				var rep Reply
				select {
				case rep = <-done:
				case <-time.After(20 * time.Second):
					hung <- ci
					tr.Emit(map[string]any{"ev": "cmd", "run": ci, "now": srv.Now(), "db": "0", "cmd": toksJSON(cmd),
						"r": Reply{T: "hang"}.JSON(), "st": []any{}, "mem": 0})
					return
				}
				rep = srv.relTimeReply(cmd, rep)
				st := srv.DB.VerifDumpKeys(func(k string) bool { return strings.HasPrefix(k, prefix) })
				tr.Emit(map[string]any{"ev": "cmd", "run": ci, "now": srv.Now(), "db": "0", "cmd": toksJSON(cmd),
					"r": rep.JSON(), "st": mine(st), "mem": 0})
				events[ci]++
				if rep.T == "panic" {
					return
				}
			}
		}(ci)
	}
	wg.Wait()
	close(stop)
	total := 0
	for _, n := range events {
		total += n
	}
	nh := len(hung)
	if *statsPath != "" {
		writeJSON(*statsPath, map[string]any{"clients": *clients, "events": total, "hung_clients": nh,
			"save_runs": actorRuns[0].Load(), "rewrite_runs": actorRuns[1].Load(), "sampler_runs": actorRuns[2].Load()})
	}
	if nh > 0 {
		os.Exit(3)
	}
}
