package main

// Concurrency driver (C05).
//   conc  : replays the interleavings TLC enumerated for spec/Conc.tla on the real handlers.  Two
//           client goroutines are parked at the ks.*.enter gates (the entry of every keyspace
//           critical section) and released one step at a time in the order of the behaviour; the
//           replies and the final dataset are compared with what the step semantics predicts.
//   excl  : mutual-exclusion probes: a client is parked INSIDE a critical section (ks.*.locked,
//           ks.setValues.key) and a second client's command must (or need not) wait.
//   stress: free-running clients with snapshots / rewrites / flushes / sampler as actors.

import (
	"bufio"
	"bytes"
	"encoding/json"
	"flag"
	"fmt"
	"os"
	"runtime"
	"sort"
	"strconv"
	"strings"
	"sync"
	"time"

	"github.com/echovault/sugardb/sugardb"
)

func goid() int64 {
	var buf [64]byte
	n := runtime.Stack(buf[:], false)
	f := bytes.Fields(buf[:n])
	id, _ := strconv.ParseInt(string(f[1]), 10, 64)
	return id
}

// gateCtl parks registered goroutines at selected points.
type gateCtl struct {
	mu      sync.Mutex
	clients map[int64]int        // goroutine id -> client number
	parkAt  func(name string) bool
	arrived chan gateEvent
	release map[int]chan struct{}
}

type gateEvent struct {
	client int
	point  string
	done   bool
	reply  Reply
}

func newGateCtl(parkAt func(string) bool) *gateCtl {
	return &gateCtl{clients: map[int64]int{}, parkAt: parkAt, arrived: make(chan gateEvent, 16),
		release: map[int]chan struct{}{}}
}

func (g *gateCtl) handle(name string, args ...any) {
	if !g.parkAt(name) {
		return
	}
	id := goid()
	g.mu.Lock()
	c, ok := g.clients[id]
	rel := g.release[c]
	g.mu.Unlock()
	if !ok {
		return // background goroutine: passes
	}
	g.arrived <- gateEvent{client: c, point: name}
	<-rel
}

// start launches client c executing cmd; it reports a done event when the command returns.
func (g *gateCtl) start(srv *Srv, c int, cmd []Tok) {
	rel := make(chan struct{})
	g.mu.Lock()
	g.release[c] = rel
	g.mu.Unlock()
	ready := make(chan struct{})
	go func() {
		id := goid()
		g.mu.Lock()
		g.clients[id] = c
		g.mu.Unlock()
		close(ready)
		wire := make([]string, len(cmd))
		for i, t := range cmd {
			wire[i] = srv.Ep.Wire(t)
		}
		var rep Reply
		func() {
			defer func() {
				if p := recover(); p != nil {
					rep = Reply{T: "panic", Why: fmt.Sprint(p)}
				}
			}()
			raw, err := srv.DB.ExecuteCommand(wire...)
			if err != nil {
				rep = Reply{T: "err", B: []byte(err.Error())}
			} else {
				rep = ParseOne(raw)
			}
		}()
		g.mu.Lock()
		delete(g.clients, id)
		g.mu.Unlock()
		g.arrived <- gateEvent{client: c, done: true, reply: rep}
	}()
	<-ready
}

// waitFor waits for the next event of client c (events of other clients are queued back).
func (g *gateCtl) waitFor(c int, pending map[int][]gateEvent, d time.Duration) (gateEvent, bool) {
	if q := pending[c]; len(q) > 0 {
		pending[c] = q[1:]
		return q[0], true
	}
	t := time.After(d)
	for {
		select {
		case ev := <-g.arrived:
			if ev.client == c {
				return ev, true
			}
			pending[ev.client] = append(pending[ev.client], ev)
		case <-t:
			return gateEvent{}, false
		}
	}
}

// ---- loading an initial store ------------------------------------------------------------

func loadInit(srv *Srv, init []any) error {
	for _, x := range init {
		e := x.(map[string]any)
		key := e["key"].(string)
		v := e["v"].(map[string]any)
		bytesOf := func(a any) string {
			arr, _ := a.([]any)
			b := make([]byte, len(arr))
			for i, y := range arr {
				b[i] = byte(y.(float64))
			}
			return string(b)
		}
		var r Reply
		switch v["k"] {
		case "str":
			r = srv.Exec([]Tok{S("SET"), S(key), B(bytesOf(v["b"]))})
		case "int":
			r = srv.Exec([]Tok{S("SET"), S(key), I(int64(v["n"].(float64)))})
		case "list":
			c := []Tok{S("RPUSH"), S(key)}
			for _, el := range v["l"].([]any) {
				c = append(c, B(bytesOf(el)))
			}
			r = srv.Exec(c)
		default:
			return fmt.Errorf("cannot load value kind %v", v["k"])
		}
		if r.T == "err" || r.T == "panic" {
			return fmt.Errorf("loading %s failed: %+v", key, r)
		}
		if d := int64(e["d"].(float64)); d != -1 {
			if r := srv.Exec([]Tok{S("PEXPIREAT"), S(key), At(d, "ms")}); r.T != "int" || r.N != 1 {
				return fmt.Errorf("setting deadline of %s failed: %+v", key, r)
			}
		}
	}
	return nil
}

// normalise a projected state / a TLC StoreSeq for comparison (live entries only, sorted JSON)
func canonState(entries []any, now int64) string {
	var out []string
	for _, x := range entries {
		e := x.(map[string]any)
		d := int64(0)
		switch t := e["d"].(type) {
		case float64:
			d = int64(t)
		case int64:
			d = t
		case int:
			d = int64(t)
		}
		if d != -1 && d < now {
			continue
		}
		b, _ := json.Marshal(map[string]any{"db": e["db"], "key": e["key"], "v": e["v"], "d": d})
		out = append(out, string(b))
	}
	sort.Strings(out)
	return strings.Join(out, "\n")
}

func replyMatches(model map[string]any, got Reply) bool {
	ints := func(a any) []byte {
		arr, _ := a.([]any)
		b := make([]byte, len(arr))
		for i, y := range arr {
			b[i] = byte(y.(float64))
		}
		return b
	}
	switch model["t"] {
	case "ok":
		return got.T == "simple" && string(got.B) == "OK"
	case "nil":
		return got.T == "nil"
	case "err":
		return got.T == "err"
	case "int":
		return got.T == "int" && got.N == int64(model["n"].(float64))
	case "str":
		return (got.T == "bulk" || got.T == "simple") && bytes.Equal(got.B, ints(model["b"]))
	case "arr":
		a, _ := model["a"].([]any)
		if got.T != "arr" || len(got.A) != len(a) {
			return false
		}
		for i := range a {
			if !replyMatches(a[i].(map[string]any), got.A[i]) {
				return false
			}
		}
		return true
	}
	return false
}

// ---- conc: replay of TLC behaviours ------------------------------------------------------

const concNow = 100000 // CCT0 of spec/MC_Conc.tla

func cmdConc(args []string) {
	fs := flag.NewFlagSet("conc", flag.ExitOnError)
	behPath := fs.String("beh", "", "file with one JSON behaviour per line (exported by TLC from Conc.tla)")
	out := fs.String("out", "", "result file (ndjson)")
	statsPath := fs.String("stats", "", "stats file")
	seed := fs.Int64("seed", 1, "seed (sampling)")
	max := fs.Int("max", 0, "replay at most this many behaviours (0 = all), sampled deterministically by seed")
	_ = fs.Parse(args)
	quiet()
	f, err := os.Open(*behPath)
	if err != nil {
		die(2, "%v", err)
	}
	defer f.Close()
	var behs []map[string]any
	sc := bufio.NewScanner(f)
	sc.Buffer(make([]byte, 1<<20), 1<<26)
	for sc.Scan() {
		var b map[string]any
		if err := json.Unmarshal(sc.Bytes(), &b); err != nil {
			die(2, "bad behaviour line: %v", err)
		}
		behs = append(behs, b)
	}
	if *max > 0 && len(behs) > *max {
		// deterministic sample: every k-th, offset by seed
		k := len(behs) / *max
		var s []map[string]any
		for i := int(*seed) % k; i < len(behs) && len(s) < *max; i += k {
			s = append(s, behs[i])
		}
		behs = s
	}
	tr, err := NewTrace(*out)
	if err != nil {
		die(2, "%v", err)
	}
	stats := map[string]int{}
	var samples []any
	parkAt := func(name string) bool { return strings.HasPrefix(name, "ks.") && strings.HasSuffix(name, ".enter") }
	for bi, b := range behs {
		res := replayBehaviour(b, parkAt)
		res["i"] = bi
		tr.Emit(res)
		stats["replayed"]++
		stats[res["verdict"].(string)]++
		if b["serial"] == false && res["verdict"] == "match" {
			stats["nonserial_reproduced"]++
		}
		if len(samples) < 2 && b["serial"] == false {
			samples = append(samples, map[string]any{"behaviour": b, "result": res})
		}
	}
	_ = tr.Close()
	if *statsPath != "" {
		m := map[string]any{"samples": samples}
		for k, v := range stats {
			m[k] = v
		}
		writeJSON(*statsPath, m)
	}
}

func replayBehaviour(b map[string]any, parkAt func(string) bool) map[string]any {
	res := map[string]any{"ev": "beh", "sched": b["sched"], "cmds": b["cmds"], "serial": b["serial"], "skip": b["skip"]}
	srv, err := NewSrv(SrvOpts{StartMs: concNow})
	if err != nil {
		res["verdict"] = "infra"
		res["why"] = err.Error()
		return res
	}
	if err := loadInit(srv, b["init"].([]any)); err != nil {
		res["verdict"] = "infra"
		res["why"] = err.Error()
		return res
	}
	g := newGateCtl(parkAt)
	sugardb.VerifSetHandler(g.handle)
	defer sugardb.VerifSetHandler(nil)
	cmds := b["cmds"].([]any)
	pending := map[int][]gateEvent{}
	state := map[int]string{} // parked | done
	replies := map[int]Reply{}
	fail := func(why string) map[string]any {
		res["verdict"] = "mismatch"
		res["why"] = why
		// let whatever is parked run to completion so the goroutines go away
		for c, s := range state {
			if s == "parked" {
				for {
					g.mu.Lock()
					rel := g.release[c]
					g.mu.Unlock()
					rel <- struct{}{}
					ev, ok := g.waitFor(c, pending, 2*time.Second)
					if !ok || ev.done {
						break
					}
				}
			}
		}
		return res
	}
	for c := 1; c <= 2; c++ {
		g.start(srv, c, toksFromJSON(cmds[c-1]))
		ev, ok := g.waitFor(c, pending, 5*time.Second)
		if !ok {
			return fail(fmt.Sprintf("client %d neither reached a keyspace gate nor returned", c))
		}
		if ev.done {
			state[c] = "done"
			replies[c] = ev.reply
		} else {
			state[c] = "parked"
		}
	}
	for i, x := range b["sched"].([]any) {
		c := int(x.(float64))
		if state[c] != "parked" {
			return fail(fmt.Sprintf("step %d: the model lets client %d take a keyspace step but its handler has already returned (step structure differs)", i+1, c))
		}
		g.mu.Lock()
		rel := g.release[c]
		g.mu.Unlock()
		rel <- struct{}{}
		ev, ok := g.waitFor(c, pending, 5*time.Second)
		if !ok {
			return fail(fmt.Sprintf("step %d: client %d did not finish its keyspace step (deadlock?)", i+1, c))
		}
		if ev.done {
			state[c] = "done"
			replies[c] = ev.reply
		}
	}
	for c := 1; c <= 2; c++ {
		if state[c] != "done" {
			return fail(fmt.Sprintf("client %d still has keyspace steps left after the model's schedule ended (step structure differs)", c))
		}
	}
	if b["skip"] == true {
		res["verdict"] = "skip"
		return res
	}
	mr := b["replies"].([]any)
	for c := 1; c <= 2; c++ {
		if !replyMatches(mr[c-1].(map[string]any), replies[c]) {
			res["got_reply"] = replies[c].JSON()
			return fail(fmt.Sprintf("client %d: reply differs from the step model's prediction %v", c, mr[c-1]))
		}
	}
	st := srv.DB.VerifDump()
	got := canonState(projState(srv.Ep, st), concNow)
	want := canonState(b["final"].([]any), concNow)
	if got != want {
		res["got_state"] = got
		res["want_state"] = want
		return fail("final dataset differs from the step model's prediction")
	}
	res["verdict"] = "match"
	return res
}
