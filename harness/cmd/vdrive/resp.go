package main

// Strict RESP2/RESP3 reply parser written for the harness (independent of tidwall/resp).
// It is part of the trusted observation function: a reply is accepted only if it is exactly
// one well-formed frame with nothing left over.  Anything else is reported as
// {"t":"malformed"} and is judged by the specification like any other reply.

import (
	"fmt"
	"strconv"
)

// Reply is the abstract reply handed to the specification.
//
//	t = ok | simple | bulk | int | nil | err | arr | map | set | push | dbl | bool | malformed | panic | dead | none
type Reply struct {
	T   string
	B   []byte  // simple / bulk payload, err text
	N   int64   // int
	A   []Reply // arr / push / set / map (flattened k,v)
	Why string  // malformed reason
}

func bytesToInts(b []byte) []int {
	r := make([]int, len(b))
	for i, c := range b {
		r[i] = int(c)
	}
	return r
}

// JSON renders the reply in the trace encoding (see spec/Replies.tla).
func (r Reply) JSON() map[string]any {
	switch r.T {
	case "simple", "bulk":
		return map[string]any{"t": r.T, "b": bytesToInts(r.B)}
	case "int":
		return map[string]any{"t": "int", "n": r.N}
	case "err":
		return map[string]any{"t": "err"}
	case "arr", "push", "set", "map":
		a := make([]any, len(r.A))
		for i, e := range r.A {
			a[i] = e.JSON()
		}
		return map[string]any{"t": r.T, "a": a}
	case "malformed":
		return map[string]any{"t": "malformed", "why": r.Why}
	default:
		return map[string]any{"t": r.T}
	}
}

type respParser struct {
	b   []byte
	pos int
}

func (p *respParser) line() ([]byte, error) {
	for i := p.pos; i+1 < len(p.b); i++ {
		if p.b[i] == '\r' && p.b[i+1] == '\n' {
			l := p.b[p.pos:i]
			p.pos = i + 2
			return l, nil
		}
	}
	return nil, fmt.Errorf("no CRLF terminator after offset %d", p.pos)
}

func (p *respParser) value(depth int) (Reply, error) {
	if depth > 8 {
		return Reply{}, fmt.Errorf("nesting too deep")
	}
	if p.pos >= len(p.b) {
		return Reply{}, fmt.Errorf("truncated: expected a frame at offset %d", p.pos)
	}
	typ := p.b[p.pos]
	p.pos++
	l, err := p.line()
	if err != nil {
		return Reply{}, err
	}
	switch typ {
	case '+':
		return Reply{T: "simple", B: l}, nil
	case '-':
		return Reply{T: "err", B: l}, nil
	case ':':
		n, err := strconv.ParseInt(string(l), 10, 64)
		if err != nil {
			return Reply{}, fmt.Errorf("bad integer %q", l)
		}
		return Reply{T: "int", N: n}, nil
	case '$':
		n, err := strconv.Atoi(string(l))
		if err != nil {
			return Reply{}, fmt.Errorf("bad bulk length %q", l)
		}
		if n == -1 {
			return Reply{T: "nil"}, nil
		}
		if n < 0 {
			return Reply{}, fmt.Errorf("negative bulk length %d", n)
		}
		if p.pos+n+2 > len(p.b) {
			return Reply{}, fmt.Errorf("bulk of %d bytes truncated", n)
		}
		body := p.b[p.pos : p.pos+n]
		if p.b[p.pos+n] != '\r' || p.b[p.pos+n+1] != '\n' {
			return Reply{}, fmt.Errorf("bulk of %d bytes not followed by CRLF", n)
		}
		p.pos += n + 2
		return Reply{T: "bulk", B: body}, nil
	case '*', '>', '~', '%':
		n, err := strconv.Atoi(string(l))
		if err != nil {
			return Reply{}, fmt.Errorf("bad aggregate length %q", l)
		}
		if n == -1 && typ == '*' {
			return Reply{T: "nil"}, nil
		}
		if n < 0 {
			return Reply{}, fmt.Errorf("negative aggregate length %d", n)
		}
		cnt := n
		if typ == '%' {
			cnt = 2 * n
		}
		a := make([]Reply, 0, cnt)
		for i := 0; i < cnt; i++ {
			e, err := p.value(depth + 1)
			if err != nil {
				return Reply{}, err
			}
			a = append(a, e)
		}
		t := map[byte]string{'*': "arr", '>': "push", '~': "set", '%': "map"}[typ]
		return Reply{T: t, A: a}, nil
	case '_':
		if len(l) != 0 {
			return Reply{}, fmt.Errorf("bad null")
		}
		return Reply{T: "nil"}, nil
	case '#':
		if string(l) == "t" {
			return Reply{T: "int", N: 1}, nil
		}
		if string(l) == "f" {
			return Reply{T: "int", N: 0}, nil
		}
		return Reply{}, fmt.Errorf("bad boolean %q", l)
	case ',':
		return Reply{T: "bulk", B: l}, nil
	default:
		return Reply{}, fmt.Errorf("unknown type byte %q", typ)
	}
}

// ParseOne parses exactly one frame and demands that nothing is left over.
func ParseOne(b []byte) Reply {
	if len(b) == 0 {
		return Reply{T: "none"}
	}
	p := &respParser{b: b}
	r, err := p.value(0)
	if err != nil {
		return Reply{T: "malformed", Why: err.Error()}
	}
	if p.pos != len(b) {
		return Reply{T: "malformed", Why: fmt.Sprintf("%d bytes left over after the first frame", len(b)-p.pos)}
	}
	return r
}

// ParseStream parses as many complete frames as the buffer holds; rest is what remains.
func ParseStream(b []byte) (frames []Reply, rest []byte, bad error) {
	p := &respParser{b: b}
	for p.pos < len(b) {
		start := p.pos
		r, err := p.value(0)
		if err != nil {
			return frames, b[start:], err
		}
		frames = append(frames, r)
	}
	return frames, nil, nil
}
