package main

// Command generators for the list module (placeholder).

func RandomListPrograms(seed int64, n, length int) []Program {
	return nil
}
