package main

// Command generator for the list module (LPUSH LPUSHX RPUSH RPUSHX LPOP RPOP LLEN LRANGE LINDEX
// LSET LTRIM LREM LMOVE) plus the few generic commands that create / destroy / retype keys.

import (
	"math/rand"
)

// Elements: a small pool so that duplicates (also adjacent ones) are frequent - LREM, LMOVE onto
// itself and index arithmetic only become interesting with repeated elements.  List elements are
// never re-typed by the server, so numeric-looking ones need no special care; they are here to
// show that "7", "007" and "7.0" stay three different elements.
var listElems = []string{
	"a", "a", "a", "b", "b", "c", "", "7", "007", "7.0", "-3", "a\r\nb", "\r\n", "\x00", "a\x00b", "\n", "x\xffy",
	"left", "$-1", "*0", "A",
}

func listElem(r *rand.Rand) Tok {
	switch r.Intn(12) {
	case 0:
		return B(randFree(r))
	case 1:
		return I(pick(r, []int64{0, 7, -3, 12})) // an integer token in a value position
	default:
		return B(pick(r, listElems))
	}
}

// indices and counts: negative, zero, around the typical list lengths (0..8), far beyond
var listIdx = []int64{0, 0, 0, 1, 1, 1, 2, 2, 3, 3, 4, 5, 6, 7, 8, 9, 10, 100, -1, -1, -1, -2, -2, -3, -3, -4, -5, -6, -7, -8, -9,
	-10, -100, 1000000}

// things that are not what strconv.Atoi accepts, and a few that are although they look odd
var listBadNums = []string{"x", "", "1.5", "1e2", " 1", "1 ", "-", "+", "0x10", "2a", "--1", "1\r\n"}
var listOddNums = []string{"+2", "007", "-0", "+0", "-01", "00"}

func listNum(r *rand.Rand) Tok {
	switch r.Intn(16) {
	case 0:
		return B(pick(r, listBadNums))
	case 1:
		return B(pick(r, listOddNums))
	default:
		return I(pick(r, listIdx))
	}
}

func listWhere(r *rand.Rand) Tok {
	switch r.Intn(14) {
	case 0:
		return S(pick(r, []string{"UP", "DOWN", "MIDDLE", "LEFTT", "L"}))
	case 1:
		return B(pick(r, []string{"", "le ft", "right\n"}))
	case 2:
		return S(pick(r, []string{"left", "right", "Left", "rIGHT"}))
	default:
		return S(pick(r, []string{"LEFT", "RIGHT"}))
	}
}

var listNames = []string{"LPUSH", "LPUSHX", "RPUSH", "RPUSHX", "LPOP", "RPOP", "LLEN", "LRANGE", "LINDEX", "LSET",
	"LTRIM", "LREM", "LMOVE"}

// genList returns one random command.
func genList(r *rand.Rand, keys []string) []Tok {
	k := func() Tok { return S(pick(r, keys)) }
	elems := func(c []Tok) []Tok {
		n := 1 + r.Intn(3)
		if r.Intn(10) == 0 {
			n = 4 + r.Intn(3)
		}
		for i := 0; i < n; i++ {
			c = append(c, listElem(r))
		}
		if r.Intn(6) == 0 { // the same element several times in one command
			c = append(c, c[len(c)-1], c[len(c)-1])
		}
		return c
	}
	switch r.Intn(40) {
	case 0, 1, 2, 3:
		return elems([]Tok{S("RPUSH"), k()})
	case 4, 5, 6:
		return elems([]Tok{S("LPUSH"), k()})
	case 7:
		return elems([]Tok{S("LPUSHX"), k()})
	case 8:
		return elems([]Tok{S("RPUSHX"), k()})
	case 9, 10, 11:
		c := []Tok{S(pick(r, []string{"LPOP", "RPOP"})), k()}
		if r.Intn(2) == 0 {
			c = append(c, listNum(r))
		}
		return c
	case 12, 13:
		return []Tok{S("LLEN"), k()}
	case 14, 15, 16, 17, 18:
		return []Tok{S("LRANGE"), k(), listNum(r), listNum(r)}
	case 19, 20:
		if r.Intn(2) == 0 {
			return []Tok{S("LRANGE"), k(), I(0), I(-1)}
		}
		return []Tok{S("LRANGE"), k(), I(pick(r, []int64{0, 1, -2, -100})), I(pick(r, []int64{-1, -2, 2, 100}))}
	case 21, 22, 23:
		return []Tok{S("LINDEX"), k(), listNum(r)}
	case 24, 25, 26:
		return []Tok{S("LSET"), k(), listNum(r), listElem(r)}
	case 27, 28, 29:
		return []Tok{S("LTRIM"), k(), listNum(r), listNum(r)}
	case 30, 31, 32, 33:
		c := []Tok{S("LREM"), k(), I(pick(r, []int64{0, 0, 1, 1, 2, 3, -1, -1, -2, -3, 10, -10})), B(pick(r, listElems[:9]))}
		if r.Intn(12) == 0 {
			c[2] = listNum(r)
		}
		if r.Intn(8) == 0 {
			c[3] = listElem(r)
		}
		return c
	case 34, 35, 36:
		return []Tok{S("LMOVE"), k(), k(), listWhere(r), listWhere(r)}
	case 37:
		// wrong arity: too short, or too long
		c := []Tok{S(pick(r, listNames)), k()}
		switch r.Intn(3) {
		case 0:
			if r.Intn(2) == 0 {
				c = c[:1]
			}
		case 1:
			c = append(c, I(pick(r, []int64{0, 1, -1})))
		case 2:
			c = append(c, I(0), I(1), B("a"), S("LEFT"), B("b"))
			if r.Intn(2) == 0 {
				c = []Tok{c[0], c[1], k(), S("LEFT"), S("RIGHT"), S("LEFT")}
			}
		}
		return c
	case 38:
		switch r.Intn(4) {
		case 0:
			c := []Tok{S("DEL"), k()}
			if r.Intn(3) == 0 {
				c = append(c, k())
			}
			return c
		case 1:
			return []Tok{S("SET"), k(), B(pick(r, []string{"v", "12", "1.5", ""}))}
		case 2:
			return []Tok{S("GET"), k()}
		default:
			return []Tok{S("RENAME"), k(), k()}
		}
	default:
		return []Tok{S("TYPE"), k()}
	}
}

// Presets: every other value type sits under some key, so that each list command meets each wrong
// type; lists with duplicates; an empty list (only reachable by popping); lists with a deadline.
func listPresets() [][][]Tok {
	other := [][]Tok{
		{S("SET"), S("k2"), B("hello")},
		{S("SET"), S("k2"), B("41")},
		{S("SET"), S("k2"), B("1.5")},
		{S("HSET"), S("k2"), B("f"), B("v")},
		{S("SADD"), S("k2"), B("m"), B("n")},
		{S("ZADD"), S("k2"), I(1), B("m")},
	}
	out := [][][]Tok{
		{},
		{{S("RPUSH"), S("k1"), B("a"), B("b"), B("a"), B("a"), B("c"), B("a")}},
		{{S("RPUSH"), S("k1"), B("a"), B("a"), B("a")}, {S("RPUSH"), S("k2"), B("x"), B("y")}},
		{{S("RPUSH"), S("k1"), B("a")}, {S("LPOP"), S("k1")}}, // empty list
		{{S("RPUSH"), S("k1"), B("a")}, {S("LPOP"), S("k1")}, {S("RPUSH"), S("k2"), B("a"), B("b"), B("c")}},
		{{S("RPUSH"), S("k1"), B("a"), B("b"), B("c")}, {S("PEXPIRE"), S("k1"), I(1500)},
			{S("RPUSH"), S("k2"), B("b"), B("b")}, {S("PEXPIRE"), S("k2"), I(20000)}},
		{{S("RPUSH"), S("k1"), B("0"), B("1"), B("2"), B("3"), B("4"), B("5"), B("6"), B("7")}},
		{{S("RPUSH"), S("k1"), B("a"), B("b"), B("c"), B("d")}, {S("RPUSH"), S("k2"), B("a"), B("a"), B("b"), B("a"), B("a")},
			{S("RPUSH"), S("k3"), B("c")}},
		{{S("LPUSH"), S("k1"), B("b"), B("a"), B("a"), B("b"), B("a"), B("a"), B("a"), B("b")}, {S("RPUSH"), S("k2"), B("")},
			{S("RPUSH"), S("k3"), B("x"), B("y"), B("z")}, {S("RPUSH"), S("k4"), B("a"), B("b")}},
	}
	nl := len(out)
	for _, o := range other {
		out = append(out, [][]Tok{o})
		out = append(out, [][]Tok{{S("RPUSH"), S("k1"), B("a"), B("b"), B("b"), B("a")}, o})
		o3 := []Tok{o[0], S("k3")}
		o3 = append(o3, o[2:]...)
		out = append(out, [][]Tok{{S("LPUSH"), S("k1"), B(""), B("a\r\nb"), B("\x00")}, o, o3})
	}
	// the list-only presets once more, so that about half of the programs start without a wrong-typed key
	for i := 0; i < 2; i++ {
		out = append(out, out[1:nl]...)
	}
	return out
}

// RandomListPrograms builds n random programs of the given length over 2-4 keys.
func RandomListPrograms(seed int64, n, length int) []Program {
	r := rand.New(rand.NewSource(seed))
	presets := listPresets()
	var out []Program
	for i := 0; i < n; i++ {
		nk := 2 + r.Intn(3)
		keys := []string{"k1", "k2", "k3", "k4"}[:nk]
		p := Program{Preset: presets[r.Intn(len(presets))]}
		for j := 0; j < length; j++ {
			t := int64(0)
			if r.Intn(12) == 0 {
				t = pick(r, []int64{1, 499, 1000, 1501, 10000})
			}
			p.Steps = append(p.Steps, Step{Cmd: genList(r, keys), Tick: t})
		}
		out = append(out, p)
	}
	return out
}
