package main

// Command generators for the generic (key/value, counter, expiry) and string modules.

import (
	"math/rand"
)

// Values whose typing/rendering the specification models exactly.  Numeric-looking strings are
// only ever drawn from this curated pool (the model follows integers up to 7 digits and floats
// that are multiples of 1/4); free-form strings start with a letter or a control byte and so
// never parse as numbers, alone or appended to one another.
var kvValues = []string{
	"", "a", "ab", "xyz", "a b", "7", "-3", "0", "12", "100", "007", "+5", "-0", "1.5", "0.25", "-2.75",
	"2.0", ".5", "1.50", "a\r\nb", "\r\n", "\x00", "a\x00b", "\n", "x\xffy", "\xff", "-", "+", ".", "1.2.3",
	"y7", "b1.5",
}

var kvFreeAlphabet = []byte{'a', 'b', 'x', 'y', ' ', '\r', '\n', 0, 0xff, '7', '1', '.', '-'}

func randFree(r *rand.Rand) string {
	n := r.Intn(6)
	b := make([]byte, 0, n+1)
	b = append(b, []byte{'a', 'b', 'x', 'y', '\r', 0, ' '}[r.Intn(7)]) // never numeric-looking
	for i := 0; i < n; i++ {
		b = append(b, kvFreeAlphabet[r.Intn(len(kvFreeAlphabet))])
	}
	return string(b)
}

// values whose bytes the implementation preserves (no open finding involved)
var kvCanonValues = []string{
	"", "a", "ab", "xyz", "a b", "7", "-3", "0", "12", "100", "1.5", "0.25", "-2.75",
	"a\r\nb", "\r\n", "\x00", "a\x00b", "\n", "x\xffy", "\xff", "-", "+", ".", "1.2.3", "y7", "b1.5",
}

var kvPool = kvValues

func randValue(r *rand.Rand) Tok {
	if r.Intn(4) == 0 {
		return B(randFree(r))
	}
	return B(kvPool[r.Intn(len(kvPool))])
}

func pick[T any](r *rand.Rand, xs []T) T { return xs[r.Intn(len(xs))] }

var smallInts = []int64{0, 1, -1, 2, 5, -7, 10, 100, 1000}
var relSecs = []int64{1, 2, 10, 100, -1, 0, 3600}
var relMs = []int64{1, 500, 1500, 10000, -5, 0, 999, 1000, 1001}
var quarters = []int64{1, 2, 6, -3, 4, 0, 10, -11}

// absolute instants (ms relative to the epoch) around the start of the virtual clock
func randAt(r *rand.Rand, now int64, unit string) Tok {
	d := pick(r, []int64{-2000, -1, 0, 1, 999, 1000, 1500, 2000, 10000, 3600000})
	t := now + d
	if t < 0 {
		t = 0
	}
	return At(t, unit)
}

func kw(r *rand.Rand, s string) Tok {
	if r.Intn(8) == 0 {
		b := []byte(s)
		for i, c := range b {
			if c >= 'A' && c <= 'Z' {
				b[i] = c + 32
			}
		}
		return S(string(b))
	}
	return S(s)
}

func randExpiryOpt(r *rand.Rand, now int64) []Tok {
	switch r.Intn(6) {
	case 0:
		return []Tok{kw(r, "EX"), I(pick(r, relSecs))}
	case 1:
		return []Tok{kw(r, "PX"), I(pick(r, relMs))}
	case 2:
		return []Tok{kw(r, "EXAT"), randAt(r, now, "s")}
	case 3:
		return []Tok{kw(r, "PXAT"), randAt(r, now, "ms")}
	case 4:
		return []Tok{kw(r, "EX"), B("abc")}
	default:
		return []Tok{kw(r, "PX")} // missing argument (or the next option is taken as one)
	}
}

// genKV returns one random command of the generic/string alphabet.
func genKV(r *rand.Rand, keys []string, now int64) []Tok {
	k := func() Tok { return S(pick(r, keys)) }
	switch r.Intn(34) {
	case 0, 1, 2:
		c := []Tok{S("SET"), k(), randValue(r)}
		// options in random order, sometimes conflicting
		n := r.Intn(4)
		for i := 0; i < n; i++ {
			switch r.Intn(5) {
			case 0:
				c = append(c, kw(r, "NX"))
			case 1:
				c = append(c, kw(r, "XX"))
			case 2:
				c = append(c, kw(r, "GET"))
			case 3:
				c = append(c, randExpiryOpt(r, now)...)
			case 4:
				if r.Intn(6) == 0 {
					c = append(c, S("BOGUS"))
				}
			}
		}
		return c
	case 3:
		c := []Tok{S("MSET")}
		n := 1 + r.Intn(3)
		for i := 0; i < n; i++ {
			c = append(c, k(), randValue(r))
		}
		if r.Intn(8) == 0 {
			c = append(c, k())
		}
		return c
	case 4, 5:
		return []Tok{S("GET"), k()}
	case 6:
		c := []Tok{S("MGET")}
		n := 1 + r.Intn(3)
		for i := 0; i < n; i++ {
			c = append(c, k())
		}
		return c
	case 7:
		c := []Tok{S("DEL")}
		n := 1 + r.Intn(3)
		for i := 0; i < n; i++ {
			c = append(c, k())
		}
		return c
	case 8:
		return []Tok{S("PERSIST"), k()}
	case 9:
		return []Tok{S(pick(r, []string{"EXPIRETIME", "PEXPIRETIME"})), k()}
	case 10, 11:
		return []Tok{S(pick(r, []string{"TTL", "PTTL"})), k()}
	case 12, 13:
		name := pick(r, []string{"EXPIRE", "PEXPIRE"})
		c := []Tok{S(name), k()}
		if name == "EXPIRE" {
			c = append(c, I(pick(r, relSecs)))
		} else {
			c = append(c, I(pick(r, relMs)))
		}
		if r.Intn(2) == 0 {
			c = append(c, kw(r, pick(r, []string{"NX", "XX", "GT", "LT", "ZZ"})))
		}
		if r.Intn(12) == 0 {
			c[2] = B("soon")
		}
		return c
	case 14, 15:
		name := pick(r, []string{"EXPIREAT", "PEXPIREAT"})
		unit := "s"
		if name == "PEXPIREAT" {
			unit = "ms"
		}
		c := []Tok{S(name), k(), randAt(r, now, unit)}
		if r.Intn(2) == 0 {
			c = append(c, kw(r, pick(r, []string{"NX", "XX", "GT", "LT", "ZZ"})))
		}
		if r.Intn(12) == 0 {
			c[2] = B("never")
		}
		return c
	case 16:
		return []Tok{S(pick(r, []string{"INCR", "DECR"})), k()}
	case 17:
		c := []Tok{S(pick(r, []string{"INCRBY", "DECRBY"})), k(), I(pick(r, smallInts))}
		if r.Intn(8) == 0 {
			c[2] = B("ten")
		}
		return c
	case 18:
		c := []Tok{S("INCRBYFLOAT"), k(), Q(pick(r, quarters))}
		if r.Intn(8) == 0 {
			c[2] = B("pi")
		}
		if r.Intn(8) == 0 {
			c[2] = I(pick(r, smallInts))
		}
		return c
	case 19:
		return []Tok{S("RENAME"), k(), k()}
	case 20:
		if r.Intn(4) == 0 {
			return []Tok{S(pick(r, []string{"FLUSHDB", "FLUSHALL"}))}
		}
		return []Tok{S("GET"), k()}
	case 21:
		return []Tok{S("GETDEL"), k()}
	case 22, 23:
		c := []Tok{S("GETEX"), k()}
		switch r.Intn(6) {
		case 0:
		case 1:
			c = append(c, kw(r, "PERSIST"))
		case 2:
			c = append(c, kw(r, "EX"), I(pick(r, relSecs)))
		case 3:
			c = append(c, kw(r, "PX"), I(pick(r, relMs)))
		case 4:
			c = append(c, kw(r, "EXAT"), randAt(r, now, "s"))
		case 5:
			c = append(c, kw(r, pick(r, []string{"PXAT", "EX", "KEEP"})))
			if r.Intn(2) == 0 {
				c = append(c, randAt(r, now, "ms"))
				if upper(c[2].S) != "PXAT" {
					c[3] = B("x1")
				}
			}
		}
		return c
	case 24:
		return []Tok{S("TYPE"), k()}
	case 25, 26:
		return []Tok{S("APPEND"), k(), randValue(r)}
	case 27, 28:
		c := []Tok{S("SETRANGE"), k(), I(pick(r, []int64{0, 1, 2, 3, 5, -1, -4, 10})), randValue(r)}
		if r.Intn(10) == 0 {
			c[2] = B("off")
		}
		return c
	case 29:
		return []Tok{S("STRLEN"), k()}
	case 30, 31:
		idx := []int64{0, 1, 2, 3, -1, -2, -3, -4, -10, 5, 10}
		c := []Tok{S(pick(r, []string{"GETRANGE", "SUBSTR"})), k(), I(pick(r, idx)), I(pick(r, idx))}
		if r.Intn(10) == 0 {
			c[3] = B("end")
		}
		return c
	case 32:
		// wrong arity of a random command
		names := []string{"GET", "SET", "DEL", "INCR", "INCRBY", "APPEND", "STRLEN", "GETRANGE", "RENAME", "TTL",
			"EXPIRE", "PERSIST", "TYPE", "GETEX", "GETDEL", "SETRANGE", "MGET", "FLUSHDB", "EXPIRETIME", "INCRBYFLOAT"}
		c := []Tok{S(pick(r, names))}
		n := r.Intn(3)
		for i := 0; i < n; i++ {
			c = append(c, k())
		}
		if r.Intn(2) == 0 {
			for i := 0; i < 6; i++ {
				c = append(c, k())
			}
		}
		return c
	default:
		return []Tok{S("SET"), k(), randValue(r)}
	}
}

// Presets: datasets of every value type (built through the server's own commands; the trace
// starts from the projected state after the preset, so preset commands need not be modelled).
func kvPresets() [][][]Tok {
	return [][][]Tok{
		{},
		{{S("SET"), S("k1"), B("hello")}},
		{{S("SET"), S("k1"), B("41")}, {S("SET"), S("k2"), B("1.5")}},
		{{S("SET"), S("k1"), B("v"), S("EX"), I(2)}, {S("SET"), S("k2"), B("9"), S("PX"), I(1500)}},
		{{S("RPUSH"), S("k1"), B("a"), B("b")}},
		{{S("HSET"), S("k1"), B("f"), B("v")}},
		{{S("SADD"), S("k1"), B("m")}},
		{{S("ZADD"), S("k1"), I(1), B("m")}},
		{{S("SET"), S("k1"), B("")}, {S("RPUSH"), S("k2"), B("x")}},
	}
}

func randTick(r *rand.Rand) int64 {
	switch r.Intn(10) {
	case 0:
		return 1
	case 1:
		return 499
	case 2:
		return 1000
	case 3:
		return 1501
	case 4:
		return 10000
	default:
		return 0
	}
}

// KVProfile selects what a random generic/string program emphasises.
type KVProfile struct {
	Canonical bool // only values that are preserved byte for byte
	Sample    int  // 1-in-N steps is a run of the background expiry sampler (0 = never)
	Select    int  // 1-in-N steps switches the embedded caller's database (0 = never)
	TickHeavy bool // advance the clock before most steps
	ExpiryMix bool // bias towards commands that set or observe deadlines
	Swap      int  // 1-in-N steps is a SWAPDB between two of Dbs (0 = never)
	Extra     int  // 1-in-N steps is followed by a RANDOMKEY or TOUCH (own random stream; 0 = never)
	Dbs       []int
}

// RandomKVPrograms builds n random programs of the given length.
func RandomKVPrograms(seed int64, n, length int, prof KVProfile) []Program {
	r := rand.New(rand.NewSource(seed))
	presets := kvPresets()
	if prof.Canonical {
		kvPool = kvCanonValues
	} else {
		kvPool = kvValues
	}
	if len(prof.Dbs) == 0 {
		prof.Dbs = []int{0}
	}
	rx := rand.New(rand.NewSource(seed + 99991))
	var out []Program
	for i := 0; i < n; i++ {
		nk := 2 + r.Intn(3)
		keys := []string{"k1", "k2", "k3", "k4"}[:nk]
		p := Program{Preset: presets[r.Intn(len(presets))]}
		now := int64(StartMs)
		for j := 0; j < length; j++ {
			t := randTick(r)
			if prof.TickHeavy && r.Intn(2) == 0 {
				t = pick(r, []int64{1, 250, 500, 999, 1000, 1001, 1999, 2000, 3000, 10000})
			}
			now += t
			if prof.Sample > 0 && r.Intn(prof.Sample) == 0 {
				p.Steps = append(p.Steps, Step{Kind: "sample", Db: pick(r, prof.Dbs), Tick: t})
				continue
			}
			if prof.Select > 0 && r.Intn(prof.Select) == 0 {
				p.Steps = append(p.Steps, Step{Kind: "select", Db: pick(r, prof.Dbs), Tick: t})
				continue
			}
			if prof.Swap > 0 && r.Intn(prof.Swap) == 0 {
				a, b := I(int64(pick(r, prof.Dbs))), I(int64(pick(r, prof.Dbs)))
				switch r.Intn(8) {
				case 0:
					b = I(-1)
				case 1:
					a = B("x")
				}
				p.Steps = append(p.Steps, Step{Cmd: []Tok{S("SWAPDB"), a, b}, Tick: t})
				continue
			}
			cmd := genKV(r, keys, now)
			if prof.ExpiryMix && r.Intn(2) == 0 {
				cmd = genExpiry(r, keys, now)
			}
			p.Steps = append(p.Steps, Step{Cmd: cmd, Tick: t})
			if prof.Extra > 0 && rx.Intn(prof.Extra) == 0 {
				var x []Tok
				switch rx.Intn(5) {
				case 0, 1:
					x = []Tok{S("RANDOMKEY")}
				case 2:
					x = []Tok{S("RANDOMKEY"), S(keys[0])} // wrong arity
				default:
					x = []Tok{S("TOUCH")}
					for j := rx.Intn(4); j > 0; j-- {
						x = append(x, S(keys[rx.Intn(len(keys))]))
					}
				}
				p.Steps = append(p.Steps, Step{Cmd: x, Tick: pick(rx, []int64{0, 0, 1000, 2000})})
			}
		}
		out = append(out, p)
	}
	return out
}

// genExpiry: commands that set, change or observe deadlines, with short horizons so that the
// clock ticks of the program actually pass them.
func genExpiry(r *rand.Rand, keys []string, now int64) []Tok {
	k := S(pick(r, keys))
	near := []int64{1, 250, 500, 1000, 1500, 2000, 3000}
	switch r.Intn(16) {
	case 0:
		return []Tok{S("SET"), k, randValue(r), S("PX"), I(pick(r, near))}
	case 1:
		return []Tok{S("SET"), k, randValue(r), S("EX"), I(pick(r, []int64{1, 2, 3}))}
	case 2:
		return []Tok{S("SET"), k, randValue(r), S("PXAT"), At(now+pick(r, near), "ms")}
	case 3:
		return []Tok{S("SET"), k, randValue(r), S("EXAT"), At(now+pick(r, near), "s")}
	case 4:
		return []Tok{S("SET"), k, randValue(r), S(pick(r, []string{"NX", "XX"}))}
	case 5:
		c := []Tok{S("PEXPIRE"), k, I(pick(r, near))}
		if r.Intn(2) == 0 {
			c = append(c, S(pick(r, []string{"NX", "XX", "GT", "LT"})))
		}
		return c
	case 6:
		c := []Tok{S("PEXPIREAT"), k, At(now+pick(r, near), "ms")}
		if r.Intn(2) == 0 {
			c = append(c, S(pick(r, []string{"NX", "XX", "GT", "LT"})))
		}
		return c
	case 7:
		c := []Tok{S("EXPIRE"), k, I(pick(r, []int64{1, 2, 3}))}
		if r.Intn(2) == 0 {
			c = append(c, S(pick(r, []string{"NX", "XX", "GT", "LT"})))
		}
		return c
	case 8:
		return []Tok{S("GETEX"), k, S("PX"), I(pick(r, near))}
	case 9:
		return []Tok{S(pick(r, []string{"TTL", "PTTL", "EXPIRETIME", "PEXPIRETIME"})), k}
	case 10:
		return []Tok{S(pick(r, []string{"GET", "TYPE", "STRLEN", "GETDEL", "PERSIST", "INCR", "GETEX"})), k}
	case 11:
		return []Tok{S("APPEND"), k, B("z")}
	case 12:
		return []Tok{S("RENAME"), k, S(pick(r, keys))}
	case 13:
		return []Tok{S("MGET"), k, S(pick(r, keys))}
	case 14:
		return []Tok{S("DEL"), k, S(pick(r, keys))}
	default:
		return []Tok{S("SETRANGE"), k, I(1), B("q")}
	}
}
