package main

import (
	"bufio"
	"encoding/json"
	"fmt"
	"io"
	"log"
	"os"
	"runtime"
	"time"

	"github.com/echovault/sugardb/sugardb"
)

// EpochBase is relative-ms 0 of every trace.  A fixed whole second far enough in the future
// that wall-clock "now" (used by a few code paths directly) is always before every deadline
// the drivers create, and far enough from 2^31 ms that relative values fit TLC's integers.
var EpochBase = time.Unix(4102444800, 0) // 2100-01-01T00:00:00Z

// StartMs is where the virtual clock starts relative to the epoch (so that "in the past"
// deadlines are still non-negative relative numbers).
const StartMs = 1_000_000

// Srv wraps one SugarDB instance under a virtual clock.
type Srv struct {
	DB    *sugardb.SugarDB
	Clock *sugardb.VerifClock
	Ep    Epoch
	Dead  bool // a command panicked: internal locks may be held, the instance is unusable
	EmbDB int  // database currently selected by the embedded caller
}

type SrvOpts struct {
	DataDir         string
	Policy          string
	MaxMemory       uint64
	AOFSync         string
	RestoreAOF      bool
	RestoreSnapshot bool
	SnapThreshold   uint64
	SnapInterval    time.Duration
	EvictInterval   time.Duration
	StartMs         int64
	RequirePass     bool
	Password        string
	AclConfig       string
	Port            uint16
}

func NewSrv(o SrvOpts) (*Srv, error) {
	cfg := sugardb.DefaultConfig()
	cfg.DataDir = o.DataDir
	cfg.EvictionPolicy = "noeviction"
	if o.Policy != "" {
		cfg.EvictionPolicy = o.Policy
	}
	cfg.MaxMemory = o.MaxMemory
	cfg.AOFSyncStrategy = "no"
	if o.AOFSync != "" {
		cfg.AOFSyncStrategy = o.AOFSync
	}
	cfg.RestoreAOF = o.RestoreAOF
	cfg.RestoreSnapshot = o.RestoreSnapshot
	cfg.SnapShotThreshold = o.SnapThreshold
	cfg.SnapshotInterval = o.SnapInterval
	if o.EvictInterval != 0 {
		cfg.EvictionInterval = o.EvictInterval
	} else {
		cfg.EvictionInterval = 24 * time.Hour
	}
	cfg.RequirePass = o.RequirePass
	cfg.Password = o.Password
	cfg.AclConfig = o.AclConfig
	if o.Port != 0 {
		cfg.Port = o.Port
	}
	clk := sugardb.NewVerifClock(EpochBase)
	start := o.StartMs
	if start == 0 {
		start = StartMs
	}
	clk.SetMs(start)
	db, err := sugardb.NewSugarDB(sugardb.WithConfig(cfg), sugardb.WithVerifClock(clk))
	if err != nil {
		return nil, err
	}
	return &Srv{DB: db, Clock: clk, Ep: Epoch{Base: EpochBase}}, nil
}

// Now is the virtual time in ms relative to the epoch.
func (s *Srv) Now() int64 { return s.Ep.Rel(s.Clock.Now()) }

// StepTimeout bounds one step on the real server; a step that does not return is a hang
// (deadlock or endless loop) and is reported as such.
var StepTimeout = 5 * time.Second

// HangDump receives the goroutine stacks of the first hang.
var HangDump = ""

// guarded runs f on its own goroutine and reports a panic or a hang.
func (s *Srv) guarded(f func()) (outcome string, why string) {
	done := make(chan string, 1)
	go func() {
		defer func() {
			if p := recover(); p != nil {
				done <- fmt.Sprint("panic: ", p)
				return
			}
			done <- ""
		}()
		f()
	}()
	select {
	case w := <-done:
		if w != "" {
			s.Dead = true
			return "panic", w
		}
		return "", ""
	case <-time.After(StepTimeout):
		s.Dead = true
		if HangDump == "" {
			buf := make([]byte, 1<<20)
			n := runtime.Stack(buf, true)
			HangDump = string(buf[:n])
		}
		return "hang", "step did not return within " + StepTimeout.String()
	}
}

// Exec runs one command through the embedded raw entry point (the same handleCommand path
// a TCP client reaches) and returns the abstract reply.
func (s *Srv) Exec(cmd []Tok) (r Reply) {
	if s.Dead {
		return Reply{T: "dead"}
	}
	wire := make([]string, len(cmd))
	for i, t := range cmd {
		wire[i] = s.Ep.Wire(t)
	}
	var raw []byte
	var err error
	if oc, why := s.guarded(func() { raw, err = s.DB.ExecuteCommand(wire...) }); oc != "" {
		return Reply{T: oc, Why: why}
	}
	if err != nil {
		return Reply{T: "err", B: []byte(err.Error())}
	}
	return ParseOne(raw)
}

// relTimeReply converts replies that carry an absolute time into epoch-relative values.
func (s *Srv) relTimeReply(cmd []Tok, r Reply) Reply {
	if len(cmd) == 0 || r.T != "int" || r.N < 0 {
		return r
	}
	switch upper(cmd[0].S) {
	case "EXPIRETIME":
		r.N = r.N - s.Ep.Base.Unix()
	case "PEXPIRETIME":
		r.N = r.N - s.Ep.Base.UnixMilli()
	}
	return r
}

func upper(s string) string {
	b := []byte(s)
	for i, c := range b {
		if c >= 'a' && c <= 'z' {
			b[i] = c - 32
		}
	}
	return string(b)
}

// ---- trace writer ------------------------------------------------------------------------

type Trace struct {
	f   *os.File
	w   *bufio.Writer
	N   int
	enc *json.Encoder
}

func NewTrace(path string) (*Trace, error) {
	f, err := os.Create(path)
	if err != nil {
		return nil, err
	}
	w := bufio.NewWriterSize(f, 1<<20)
	enc := json.NewEncoder(w)
	enc.SetEscapeHTML(false)
	return &Trace{f: f, w: w, enc: enc}, nil
}

func (t *Trace) Emit(ev map[string]any) {
	if err := t.enc.Encode(ev); err != nil {
		panic(err)
	}
	t.N++
}

func (t *Trace) Close() error {
	if err := t.w.Flush(); err != nil {
		return err
	}
	return t.f.Close()
}

func toksJSON(cmd []Tok) []any {
	out := make([]any, len(cmd))
	for i, t := range cmd {
		out[i] = t.JSON()
	}
	return out
}

// quiet sends the server's chatty logging (log.Printf and fmt.Printf in handlers) away from
// our own output channels.
func quiet() {
	log.SetOutput(io.Discard)
	devnull, err := os.OpenFile(os.DevNull, os.O_WRONLY, 0)
	if err == nil {
		os.Stdout = devnull
	}
}
