package main

// Client connections served by the server's real connection handler over net.Pipe
// (VerifServeConn = handleConnection): every client Write of <= 8192 bytes is exactly one server
// Read, so the segmentation of the byte stream is deterministic.

import (
	"fmt"
	"net"
	"sync"
	"time"

	"github.com/echovault/sugardb/sugardb"
)

type PipeClient struct {
	c      net.Conn
	mu     sync.Mutex
	buf    []byte
	closed bool
	frames chan Reply
	rerr   chan error
}

// Dial connects a new client to the server.
func Dial(db *sugardb.SugarDB) *PipeClient {
	srvEnd, cliEnd := net.Pipe()
	go db.VerifServeConn(srvEnd)
	p := &PipeClient{c: cliEnd, frames: make(chan Reply, 256), rerr: make(chan error, 1)}
	go p.reader()
	return p
}

// reader parses complete frames off the connection as they arrive.
func (p *PipeClient) reader() {
	tmp := make([]byte, 65536)
	for {
		n, err := p.c.Read(tmp)
		if n > 0 {
			p.buf = append(p.buf, tmp[:n]...)
			for {
				r, used, st := parseOnePrefix(p.buf)
				if st == "incomplete" {
					break
				}
				if st == "bad" {
					p.frames <- Reply{T: "malformed", Why: r.Why}
					p.buf = nil
					break
				}
				p.frames <- r
				p.buf = p.buf[used:]
			}
		}
		if err != nil {
			p.rerr <- err
			close(p.frames)
			return
		}
	}
}

// parseOnePrefix parses one frame from the front of b.
func parseOnePrefix(b []byte) (Reply, int, string) {
	if len(b) == 0 {
		return Reply{}, 0, "incomplete"
	}
	ps := &respParser{b: b}
	r, err := ps.value(0)
	if err != nil {
		es := err.Error()
		if len(es) >= 9 && (es[:9] == "truncated" || es[:7] == "no CRLF" || containsStr(es, "truncated")) {
			return Reply{}, 0, "incomplete"
		}
		return Reply{T: "malformed", Why: es}, 0, "bad"
	}
	return r, ps.pos, "ok"
}

func containsStr(s, sub string) bool {
	for i := 0; i+len(sub) <= len(s); i++ {
		if s[i:i+len(sub)] == sub {
			return true
		}
	}
	return false
}

// SendRaw writes bytes in one Write call.
func (p *PipeClient) SendRaw(b []byte) error {
	_ = p.c.SetWriteDeadline(time.Now().Add(3 * time.Second))
	_, err := p.c.Write(b)
	return err
}

// Recv waits for the next reply frame.
func (p *PipeClient) Recv(d time.Duration) (Reply, bool) {
	select {
	case r, ok := <-p.frames:
		if !ok {
			return Reply{T: "closed"}, true
		}
		return r, true
	case <-time.After(d):
		return Reply{T: "none"}, false
	}
}

func encodeCmd(args []string) []byte {
	b := []byte(fmt.Sprintf("*%d\r\n", len(args)))
	for _, a := range args {
		b = append(b, []byte(fmt.Sprintf("$%d\r\n", len(a)))...)
		b = append(b, []byte(a)...)
		b = append(b, '\r', '\n')
	}
	return b
}

// Do sends one command and waits for one reply.
func (p *PipeClient) Do(args ...string) Reply {
	if err := p.SendRaw(encodeCmd(args)); err != nil {
		return Reply{T: "closed", Why: err.Error()}
	}
	r, ok := p.Recv(3 * time.Second)
	if !ok {
		return Reply{T: "none"}
	}
	return r
}

func (p *PipeClient) Close() {
	p.mu.Lock()
	defer p.mu.Unlock()
	if !p.closed {
		p.closed = true
		_ = p.c.Close()
	}
}
