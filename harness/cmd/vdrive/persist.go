package main

// Persistence driver (C02, C09, C10, C03): runs a write workload on a real server with a data
// directory, takes an image of the directory at every instrumentation point (= every file
// operation of the AOF writer, the log rewrite and the snapshot), derives power-loss images by
// cutting the log copy at byte offsets after the last sync, restores a fresh real server from
// every image and records what it serves.  The trace is judged by spec/Trace_Persist.tla.

import (
	"crypto/sha1"
	"encoding/hex"
	"encoding/json"
	"flag"
	"fmt"
	"io"
	"math/rand"
	"os"
	"path/filepath"
	"strconv"
	"strings"
	"sync"
	"sync/atomic"
	"time"

	"github.com/echovault/sugardb/sugardb"
)

// rwOrder is the order of the rewrite's own file operations.  A log sync seen before the rewrite has
// truncated the log is not the rewrite's (under "everysec" a background goroutine syncs the log at any
// moment) and does not move the stage.
var rwOrder = map[string]int{"aof.pre.copied": 1, "aof.pre.truncate": 2, "aof.pre.write": 3, "aof.pre.sync": 4,
	"aof.log.truncate": 5, "aof.log.select": 6, "aof.log.sync": 7, "rw.done": 8}

func rwAdvances(cur, name string) bool {
	n, ok := rwOrder[name]
	if !ok {
		return false
	}
	if (name == "aof.log.select" || name == "aof.log.sync") && rwOrder[cur] < rwOrder["aof.log.truncate"] {
		return false
	}
	return n > rwOrder[cur]
}

type image struct {
	Label    string // point name
	Seq      int    // index of the point within the workload
	Acked    int    // commands that had returned when the image was taken
	Exec     int    // commands whose handler had completed
	Dir      string
	LogSize  int64
	Synced   int64 // log length at the last sync
	NowMs    int64
	InRw     bool // taken while a rewrite was in progress
	RwBegin  int  // number of acknowledged commands when the (last) rewrite began, -1 if none yet
	SnapSeen int  // number of snapshots completed (snap.done) before this point
	RwN      int  // number of rewrites begun so far (the one in progress included)
	RwStage  string
	InSave   bool
	SaveAt   int
}

func copyFile(src, dst string) error {
	in, err := os.Open(src)
	if err != nil {
		return err
	}
	defer in.Close()
	if err := os.MkdirAll(filepath.Dir(dst), 0o755); err != nil {
		return err
	}
	out, err := os.Create(dst)
	if err != nil {
		return err
	}
	if _, err := io.Copy(out, in); err != nil {
		out.Close()
		return err
	}
	return out.Close()
}

func copyTree(src, dst string) error {
	return filepath.Walk(src, func(p string, info os.FileInfo, err error) error {
		if err != nil {
			return err
		}
		rel, _ := filepath.Rel(src, p)
		if info.IsDir() {
			return os.MkdirAll(filepath.Join(dst, rel), 0o755)
		}
		return copyFile(p, filepath.Join(dst, rel))
	})
}

func fileSize(p string) int64 {
	st, err := os.Stat(p)
	if err != nil {
		return 0
	}
	return st.Size()
}

func treeHash(dir string) string {
	h := sha1.New()
	_ = filepath.Walk(dir, func(p string, info os.FileInfo, err error) error {
		if err != nil || info.IsDir() {
			return nil
		}
		rel, _ := filepath.Rel(dir, p)
		fmt.Fprintf(h, "%s:%d:", rel, info.Size())
		b, _ := os.ReadFile(p)
		h.Write(b)
		return nil
	})
	return hex.EncodeToString(h.Sum(nil))
}

// recorder is the verif handler of the workload server.
type recorder struct {
	mu      sync.Mutex
	armed   bool
	dir     string // live data directory
	imgRoot string
	acked   int
	exec    int
	synced  int64
	seq     int
	inRw    bool
	rwBegin int
	rwN     int
	snaps   int
	writes  int // number of aof.log.write points so far
	images  []image
	fops    []map[string]any
	clock   *sugardb.VerifClock
	ep      Epoch
	wanted  func(name string) bool
	// interleave, when set, is called (without the recorder lock) at the named point of a rewrite:
	// it executes one write from "another client" inside the rewrite window.
	interleaveAt string
	interleave   func()
	rwTrunc      int  // acknowledged commands when the log was truncated by the rewrite in progress
	nested       bool // a client command is running inside the rewrite window
	inSave       bool
	saveBegin    int
	saveDone     chan string
	rwStage      string // last file operation of the rewrite in progress
}

func (rc *recorder) handle(name string, args ...any) {
	if !(strings.HasPrefix(name, "aof.") || strings.HasPrefix(name, "snap.") || strings.HasPrefix(name, "cmd.") || name == "end.running") {
		return // scheduler gates, cache and pub/sub points: not file operations
	}
	rc.mu.Lock()
	if rc.armed && rc.inRw && rc.interleave != nil && name == rc.interleaveAt {
		f := rc.interleave
		rc.interleave = nil
		rc.mu.Unlock()
		f()
		rc.mu.Lock()
	}
	defer rc.mu.Unlock()
	if !rc.armed {
		return
	}
	if rc.inRw && !rc.nested && (name == "cmd.handled" || name == "cmd.logged") {
		name = "rw.done" // the REWRITEAOF command itself completing: not a workload command
	}
	if rc.inRw && !rc.nested && rwAdvances(rc.rwStage, name) {
		rc.rwStage = name
	}
	switch name {
	case "cmd.handled":
		rc.exec++
	case "aof.log.write":
		rc.writes++
	case "aof.log.sync":
		rc.synced = fileSize(filepath.Join(rc.dir, "aof", "log.aof"))
	case "aof.log.truncate":
		rc.synced = 0
		rc.rwTrunc = rc.acked
	case "aof.pre.copied":
		rc.inRw = true
		rc.rwBegin = rc.acked
		rc.rwN++
		rc.rwStage = name
	case "snap.done":
		rc.snaps++
	case "snap.copied":
		rc.inSave = true
	case "snap.finished":
		rc.inSave = false
		msg := ""
		if len(args) > 0 {
			msg, _ = args[0].(string)
		}
		if rc.saveDone != nil {
			select {
			case rc.saveDone <- msg:
			default:
			}
		}
	}
	fop := map[string]any{"ev": "fop", "op": name, "k": rc.seq}
	if len(args) > 0 {
		if n, ok := args[0].(int); ok {
			fop["n"] = n
		}
		if n, ok := args[0].(int64); ok {
			fop["n"] = n
		}
	}
	rc.fops = append(rc.fops, fop)
	if rc.wanted == nil || rc.wanted(name) {
		dst := filepath.Join(rc.imgRoot, fmt.Sprintf("img%04d", rc.seq))
		if err := copyTree(rc.dir, dst); err == nil {
			rc.images = append(rc.images, image{
				Label: name, Seq: rc.seq, Acked: rc.acked, Exec: rc.exec, Dir: dst,
				LogSize: fileSize(filepath.Join(dst, "aof", "log.aof")), Synced: rc.synced,
				NowMs: rc.ep.Rel(rc.clock.Now()), InRw: rc.inRw, RwBegin: rc.rwBegin, SnapSeen: rc.snaps, RwN: rc.rwN, RwStage: rc.rwStage, InSave: rc.inSave, SaveAt: rc.saveBegin,
			})
		}
	}
	rc.seq++
}

// restoreFrom starts a fresh server on a copy of an image directory and returns it.
func restoreFrom(imgDir, work string, nowMs int64, aof, snap bool, sync string) (*Srv, string, error) {
	d, err := os.MkdirTemp(work, "restore-")
	if err != nil {
		return nil, "", err
	}
	if err := copyTree(imgDir, d); err != nil {
		return nil, "", err
	}
	var s *Srv
	func() {
		defer func() {
			if p := recover(); p != nil {
				err = fmt.Errorf("panic during restore: %v", p)
			}
		}()
		s, err = NewSrv(SrvOpts{DataDir: d, RestoreAOF: aof, RestoreSnapshot: snap, AOFSync: sync, StartMs: nowMs})
	}()
	return s, d, err
}

type persistOpts struct {
	mode   string // aof | rewrite | snap
	sync   string
	seed   int64
	n      int
	length int
	cuts   string // none | last | all
	again  int    // 1-in-N images get the durable-again continuation
	inter  bool   // rewrite mode: interleave a write of another client into the rewrite window
}

func cmdPersist(args []string) {
	fs := flag.NewFlagSet("persist", flag.ExitOnError)
	out := fs.String("out", "", "trace file")
	statsPath := fs.String("stats", "", "stats file")
	o := persistOpts{}
	fs.StringVar(&o.mode, "mode", "aof", "aof | rewrite | snap")
	fs.StringVar(&o.sync, "sync", "always", "always | everysec | no")
	fs.Int64Var(&o.seed, "seed", 1, "seed")
	fs.IntVar(&o.n, "n", 10, "workloads")
	fs.IntVar(&o.length, "len", 10, "commands per workload")
	fs.StringVar(&o.cuts, "cuts", "last", "power-loss cuts: none | last | all")
	fs.BoolVar(&o.inter, "inter", false, "rewrite mode: a second client writes inside the rewrite window")
	fs.IntVar(&o.again, "again", 4, "1-in-N images are continued (write, restart) to check durable-again")
	_ = fs.Parse(args)
	quiet()
	tr, err := NewTrace(*out)
	if err != nil {
		die(2, "%v", err)
	}
	work, err := os.MkdirTemp("", "vpersist-")
	if err != nil {
		die(2, "%v", err)
	}
	defer os.RemoveAll(work)
	r := rand.New(rand.NewSource(o.seed))
	stats := map[string]any{}
	tot := map[string]int{}
	var samples []any
	for w := 0; w < o.n; w++ {
		if err := runPersistWorkload(tr, w, o, r, work, tot, &samples); err != nil {
			die(2, "workload %d: %v", w, err)
		}
		if o.mode == "rewrite" && w%2 == 0 {
			inflightScenario(tr, w, o, work, tot)
		}
		if o.mode == "snap" && w%8 == 0 {
			autoSnapScenario(tr, w, work, tot)
		}
	}
	if err := tr.Close(); err != nil {
		die(2, "%v", err)
	}
	stats["workloads"] = o.n
	for k, v := range tot {
		stats[k] = v
	}
	stats["samples"] = samples
	stats["lines"] = tr.N
	if HangDump != "" {
		_ = os.WriteFile(*out+".hang.txt", []byte(HangDump), 0o644)
	}
	if *statsPath != "" {
		writeJSON(*statsPath, stats)
	}
}

// inflightScenario: a write command that has run its handler but has not been logged yet while another client's
// REWRITEAOF arrives.  The rewrite has to wait for it (the state copy waits for commands in flight): if it copied
// the state now, the write would be in the new preamble AND be appended to the fresh log afterwards, and a restart
// would apply it twice.  The scenario parks an APPEND at cmd.handled, starts REWRITEAOF, gives it 250 ms, releases
// the APPEND, lets both finish, restarts from the directory and records an "again" event (commands with replies,
// dataset after them, dataset after the restart) - judged by TraceAgain.
func inflightScenario(tr *Trace, w int, o persistOpts, work string, tot map[string]int) {
	dir, err := os.MkdirTemp(work, "inflight-")
	if err != nil {
		die(2, "%v", err)
	}
	defer os.RemoveAll(dir)
	srv, err := NewSrv(SrvOpts{DataDir: dir, AOFSync: o.sync, RestoreAOF: true})
	if err != nil {
		die(2, "%v", err)
	}
	var armed atomic.Bool
	parked, release := make(chan struct{}), make(chan struct{})
	sugardb.VerifSetHandler(func(name string, args ...any) {
		if name == "cmd.handled" && armed.CompareAndSwap(true, false) {
			close(parked)
			<-release
		}
	})
	defer sugardb.VerifSetHandler(nil)
	db := []int{0, 1, 10}[w/2%3]
	if db != 0 {
		_ = srv.DB.SelectDB(db)
	}
	var cmds []any
	run := func(c []Tok) Reply {
		rep := srv.Exec(c)
		cmds = append(cmds, map[string]any{"cmd": toksJSON(c), "r": rep.JSON(), "db": strconv.Itoa(db), "now": srv.Now()})
		return rep
	}
	run([]Tok{S("SET"), S("k1"), B("a")})
	run([]Tok{S("SET"), S("k2"), B("x")})
	armed.Store(true)
	done := make(chan Reply, 1)
	app := []Tok{S("APPEND"), S("k1"), B("b")}
	go func() { done <- srv.Exec(app) }()
	inside := false
	select {
	case <-parked:
		rw := make(chan struct{})
		go func() { _, _ = srv.DB.ExecuteCommand("REWRITEAOF"); close(rw) }()
		select {
		case <-rw:
			inside = true // the rewrite ran to completion while the APPEND was in flight
		case <-time.After(250 * time.Millisecond):
		}
		close(release)
		select {
		case <-rw:
		case <-time.After(StepTimeout):
		}
	case <-time.After(2 * time.Second):
		close(release)
	}
	rep := <-done
	cmds = append(cmds, map[string]any{"cmd": toksJSON(app), "r": rep.JSON(), "db": strconv.Itoa(db), "now": srv.Now()})
	now := srv.Now()
	st2 := srv.DB.VerifDump()
	srv.DB.ShutDown()
	ev := map[string]any{"ev": "again", "run": w, "k": -1, "cut": -1, "now": now, "base": []any{}, "cmds": cmds,
		"st2": projState(srv.Ep, st2), "scenario": "write in flight when REWRITEAOF arrives", "rewrite_ran_inside": inside}
	c2, _, err := restoreFrom(dir, work, now, true, false, o.sync)
	if err != nil {
		ev["err"] = err.Error()
		ev["st3"] = []any{}
	} else {
		ev["st3"] = projState(c2.Ep, c2.DB.VerifDump())
		c2.DB.ShutDown()
	}
	tr.Emit(ev)
	tot["inflight_scenarios"]++
}

// autoSnapScenario: the automatic snapshot.  A server with a snapshot interval of 100 ms and a change threshold
// of 5 receives 3 writes, two intervals pass, it receives 3 more.  Six changes since the last snapshot are over
// the threshold: a snapshot has to appear (a few intervals are allowed for it), and a restart from the
// directory has to bring back all six keys.  Recorded as an "autosnap" event, judged by TraceAutoSnap.
func autoSnapScenario(tr *Trace, w int, work string, tot map[string]int) {
	dir, err := os.MkdirTemp(work, "autosnap-")
	if err != nil {
		die(2, "%v", err)
	}
	defer os.RemoveAll(dir)
	const interval, threshold = 100 * time.Millisecond, 5
	srv, err := NewSrv(SrvOpts{DataDir: dir, SnapThreshold: threshold, SnapInterval: interval})
	if err != nil {
		die(2, "%v", err)
	}
	var taken atomic.Int32
	sugardb.VerifSetHandler(func(name string, args ...any) {
		if name == "snap.done" {
			taken.Add(1)
		}
	})
	defer sugardb.VerifSetHandler(nil)
	set := func(i int) { srv.Exec([]Tok{S("SET"), S("s" + strconv.Itoa(i)), B("v" + strconv.Itoa(i))}) }
	for i := 1; i <= 3; i++ {
		set(i)
	}
	time.Sleep(2*interval + interval/2)
	early := taken.Load() > 0 // below the threshold: no snapshot yet
	for i := 4; i <= 6; i++ {
		set(i)
	}
	took := waitFor(30*interval, func() bool { return taken.Load() > 0 })
	time.Sleep(20 * time.Millisecond)
	now := srv.Now()
	live := srv.DB.VerifDump()
	srv.DB.ShutDown()
	ev := map[string]any{"ev": "autosnap", "run": w, "now": now, "threshold": threshold, "writes": 6, "early": early, "took": took,
		"st": projState(srv.Ep, live)}
	c2, _, err := restoreFrom(dir, work, now, false, true, "no")
	if err != nil {
		ev["err"] = err.Error()
		ev["st2"] = []any{}
	} else {
		ev["st2"] = projState(c2.Ep, c2.DB.VerifDump())
		c2.DB.ShutDown()
	}
	tr.Emit(ev)
	tot["autosnap_scenarios"]++
}

// persistStep is one step of a persistence workload.
type persistStep struct {
	Step
	Special string // "" | "rewrite" | "save"
	Inter   []Tok  // rewrite only: a write executed by another client inside the rewrite window
}

func runPersistWorkload(tr *Trace, w int, o persistOpts, r *rand.Rand, work string, tot map[string]int, samples *[]any) error {
	wdir, err := os.MkdirTemp(work, "wl-")
	if err != nil {
		return err
	}
	defer os.RemoveAll(wdir)
	live := filepath.Join(wdir, "data")
	if err := os.MkdirAll(live, 0o755); err != nil {
		return err
	}
	steps := genPersistWorkload(r, o)

	srv, err := NewSrv(SrvOpts{DataDir: live, AOFSync: o.sync})
	if err != nil {
		return err
	}
	rc := &recorder{dir: live, imgRoot: filepath.Join(wdir, "images"), clock: srv.Clock, ep: srv.Ep, rwBegin: -1}
	if o.mode == "snap" {
		rc.wanted = func(name string) bool {
			return strings.HasPrefix(name, "snap.") || name == "end.running" || name == "cmd.handled"
		}
	}
	sugardb.VerifSetHandler(rc.handle)
	defer sugardb.VerifSetHandler(nil)

	st0 := srv.DB.VerifDump()
	tr.Emit(map[string]any{"ev": "reset", "run": w, "now": srv.Now(), "st": projState(srv.Ep, st0), "mem": st0.MemUsed,
		"preset": []any{}, "cfg": map[string]any{"sync": o.sync, "mode": o.mode}})
	rc.mu.Lock()
	rc.armed = true
	rc.mu.Unlock()

	ncmd := 0
	// runCmd executes one workload command and records it; false = the server is gone
	runCmd := func(cmd []Tok, now int64) bool {
		dbBefore := srv.EmbDB
		rc.mu.Lock()
		writesBefore := rc.writes
		rc.mu.Unlock()
		rep := srv.Exec(cmd)
		rep = srv.relTimeReply(cmd, rep)
		ev := map[string]any{"ev": "cmd", "run": w, "now": now, "db": strconv.Itoa(dbBefore),
			"cmd": toksJSON(cmd), "r": rep.JSON()}
		if rep.T == "panic" || rep.T == "hang" {
			ev["st"] = []any{}
			ev["logged"] = false
			tr.Emit(ev)
			return false
		}
		st := srv.DB.VerifDump()
		ev["st"] = projState(srv.Ep, st)
		ev["mem"] = st.MemUsed
		rc.mu.Lock()
		ev["logged"] = rc.writes > writesBefore
		rc.mu.Unlock()
		tr.Emit(ev)
		ncmd++
		rc.mu.Lock()
		rc.acked = ncmd
		// a command that failed never reaches cmd.handled: keep exec in step with the command count
		if rc.exec < ncmd {
			rc.exec = ncmd
		}
		rc.mu.Unlock()
		tot["commands"]++
		return true
	}
	for _, s := range steps {
		if s.Tick > 0 {
			srv.Clock.AdvanceMs(s.Tick)
		}
		now := srv.Now()
		switch {
		case s.Kind == "select":
			if err := srv.DB.SelectDB(s.Db); err != nil {
				return err
			}
			srv.EmbDB = s.Db
			continue
		case s.Special == "save":
			rc.mu.Lock()
			rc.saveBegin = ncmd
			rc.saveDone = make(chan string, 1)
			ch := rc.saveDone
			rc.mu.Unlock()
			rep := srv.Exec([]Tok{S("SAVE")})
			ev := map[string]any{"ev": "save", "run": w, "now": now, "acked": ncmd, "r": rep.JSON()}
			if rep.T == "simple" {
				select {
				case msg := <-ch:
					ev["done"] = msg == ""
					ev["msg"] = msg
				case <-time.After(StepTimeout):
					ev["err"] = "hang: the snapshot goroutine did not finish"
				}
			} else {
				ev["done"] = false
				ev["msg"] = "SAVE replied " + rep.T
			}
			ls := srv.Exec([]Tok{S("LASTSAVE")})
			ev["lastsave"] = int64(0)
			if ls.T == "int" {
				ev["lastsave"] = ls.N - srv.Ep.Base.UnixMilli()
			}
			tr.Emit(ev)
			tot["saves"]++
			continue
		case s.Special == "rewrite":
			var rerr error
			begin := ncmd
			if s.Inter != nil {
				inter := s.Inter
				rc.mu.Lock()
				rc.interleaveAt = "aof.pre.sync"
				rc.interleave = func() {
					// the REWRITEAOF command is parked at this point on its own goroutine; this write
					// comes from "another client" and runs to completion inside the rewrite window
					rc.mu.Lock()
					rc.nested = true // its own points are ordinary command points
					rc.mu.Unlock()
					runCmd(inter, now)
					rc.mu.Lock()
					rc.nested = false
					rc.mu.Unlock()
					tot["interleaved"]++
				}
				rc.mu.Unlock()
			}
			if oc, why := srv.guarded(func() { _, rerr = srv.DB.ExecuteCommand("REWRITEAOF") }); oc != "" {
				tr.Emit(map[string]any{"ev": "rewrite", "run": w, "now": now, "err": oc + ": " + why})
				return nil
			}
			rc.mu.Lock()
			rc.inRw = false
			rc.mu.Unlock()
			rc.mu.Lock()
			trunc := rc.rwTrunc
			rc.interleave = nil
			rc.mu.Unlock()
			ev := map[string]any{"ev": "rewrite", "run": w, "now": now, "acked": begin, "trunc": trunc}
			if rerr != nil {
				ev["err"] = rerr.Error()
			}
			tr.Emit(ev)
			continue
		}
		if !runCmd(s.Cmd, now) {
			return nil
		}
	}
	// image of the live directory after the last command, process still running
	rc.handle("end.running")
	rc.mu.Lock()
	rc.armed = false
	rc.mu.Unlock()
	endNow := srv.Now()
	srv.DB.ShutDown()
	// image after a clean stop
	cleanDir := filepath.Join(wdir, "images", "clean")
	if err := copyTree(live, cleanDir); err != nil {
		return err
	}
	images := append([]image{}, rc.images...)
	images = append(images, image{Label: "clean.stop", Seq: rc.seq, Acked: ncmd, Exec: ncmd, Dir: cleanDir,
		LogSize: fileSize(filepath.Join(cleanDir, "aof", "log.aof")), Synced: fileSize(filepath.Join(cleanDir, "aof", "log.aof")),
		NowMs: endNow, RwBegin: rc.rwBegin, SnapSeen: rc.snaps, RwN: rc.rwN})

	for _, f := range rc.fops {
		f["run"] = w
		tr.Emit(f)
	}

	seen := map[string]bool{}
	emitImage := func(im image, dir string, cut int64, powerloss bool) error {
		h := treeHash(dir)
		key := fmt.Sprintf("%s|%d|%d|%v|%d", h, im.Acked, im.Exec, powerloss, im.NowMs)
		if seen[key] {
			return nil
		}
		seen[key] = true
		snapMode := o.mode == "snap"
		b, bdir, err := restoreFrom(dir, wdir, im.NowMs, !snapMode, snapMode, o.sync)
		evName := "image"
		if snapMode {
			evName = "simage"
		}
		ev := map[string]any{"ev": evName, "run": w, "nsave": im.SnapSeen, "insave": im.InSave, "saveat": im.SaveAt, "at": im.Label, "k": im.Seq, "acked": im.Acked, "exec": im.Exec,
			"cut": cut, "powerloss": powerloss, "now": im.NowMs, "sync": o.sync, "logsize": im.LogSize, "synced": im.Synced,
			"inrw": im.InRw, "rwbegin": im.RwBegin, "rwn": im.RwN, "rwstage": im.RwStage, "recs": countRecords(filepath.Join(dir, "aof", "log.aof")),
			"pre": preambleClass(filepath.Join(dir, "aof", "preamble.bin"))}
		if err != nil {
			ev["err"] = err.Error()
			ev["st"] = []any{}
			tr.Emit(ev)
			return nil
		}
		var st sugardb.VerifState
		if oc, why := b.guarded(func() { st = b.DB.VerifDump() }); oc != "" {
			ev["err"] = oc + ": " + why
			ev["st"] = []any{}
			tr.Emit(ev)
			return nil
		}
		ev["st"] = projState(b.Ep, st)
		if snapMode {
			ev["lastsave"] = int64(0)
			if ls := b.Exec([]Tok{S("LASTSAVE")}); ls.T == "int" {
				ev["lastsave"] = ls.N - b.Ep.Base.UnixMilli()
			}
		}
		tr.Emit(ev)
		tot["images"]++
		if len(*samples) < 3 {
			*samples = append(*samples, map[string]any{"at": im.Label, "acked": im.Acked, "exec": im.Exec, "cut": cut, "powerloss": powerloss})
		}
		// durable again: keep writing on the recovered server, stop it, restore once more
		if !snapMode && o.again > 0 && r.Intn(o.again) == 0 {
			var cmds []any
			for i := 0; i < 2; i++ {
				c := genPersistWrite(r, o, b.Now())
				rep := b.Exec(c)
				cmds = append(cmds, map[string]any{"cmd": toksJSON(c), "r": rep.JSON(), "db": "0", "now": b.Now()})
			}
			st2 := b.DB.VerifDump()
			b.DB.ShutDown()
			c2, _, err2 := restoreFrom(bdir, wdir, im.NowMs, true, false, o.sync)
			ev2 := map[string]any{"ev": "again", "run": w, "k": im.Seq, "cut": cut, "now": im.NowMs,
				"base": projState(b.Ep, st), "cmds": cmds, "st2": projState(b.Ep, st2)}
			if err2 != nil {
				ev2["err"] = err2.Error()
				ev2["st3"] = []any{}
			} else {
				st3 := c2.DB.VerifDump()
				ev2["st3"] = projState(c2.Ep, st3)
				c2.DB.ShutDown()
			}
			tr.Emit(ev2)
			tot["again"]++
		} else {
			b.DB.ShutDown()
		}
		return nil
	}

	for _, im := range images {
		// process death: everything written is in the files
		if err := emitImage(im, im.Dir, -1, false); err != nil {
			return err
		}
		// power loss: the unsynced suffix of the log may be lost, entirely or in part
		if o.mode == "snap" || o.cuts == "none" || im.LogSize <= im.Synced {
			continue
		}
		if o.cuts == "last" && im.Label != "aof.log.write" && im.Label != "aof.log.select" && im.Label != "end.running" {
			continue
		}
		from := im.Synced
		if o.cuts == "last" && im.LogSize-from > 64 {
			from = im.LogSize - 64
		}
		for cut := from; cut < im.LogSize; cut++ {
			cd := filepath.Join(wdir, "cutimg")
			os.RemoveAll(cd)
			if err := copyTree(im.Dir, cd); err != nil {
				return err
			}
			if err := os.Truncate(filepath.Join(cd, "aof", "log.aof"), cut); err != nil {
				return err
			}
			if err := emitImage(im, cd, cut, true); err != nil {
				return err
			}
		}
	}
	tr.Emit(map[string]any{"ev": "endrun", "run": w})
	_ = time.Now
	return nil
}

// countRecords returns the number of complete command records (SELECT markers excluded) in a log file.
func countRecords(path string) int {
	b, err := os.ReadFile(path)
	if err != nil {
		return 0
	}
	frames, _, _ := ParseStream(b)
	n := 0
	for _, f := range frames {
		if f.T == "arr" && len(f.A) > 0 && upper(string(f.A[0].B)) == "SELECT" {
			continue
		}
		n++
	}
	return n
}

func preambleClass(path string) string {
	b, err := os.ReadFile(path)
	if err != nil || len(b) == 0 {
		return "empty"
	}
	var v any
	if json.Unmarshal(b, &v) != nil {
		return "torn"
	}
	return "ok"
}
