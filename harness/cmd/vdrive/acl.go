package main

// ACL driver (C06, C11): random histories of rule edits, authentication attempts and probe commands
// on several connections of a real server that requires authentication.

import (
	"crypto/sha1"
	"crypto/sha256"
	"encoding/hex"
	"encoding/json"
	"flag"
	"fmt"
	"math/rand"
	"os"
	"path/filepath"
	"sort"
	"strings"

	"github.com/echovault/sugardb/sugardb"
)

const aclRootPw = "root"

var aclPwIDs = []string{"p1", "p2"}

func pwString(id string) string { return "pw-" + id }
func pwHash(id string) string {
	h := sha256.Sum256([]byte(pwString(id)))
	return hex.EncodeToString(h[:])
}

// pwID maps a stored password value back to its abstract id.
func pwID(v string) string {
	if v == aclRootPw {
		return "root"
	}
	for _, id := range aclPwIDs {
		if v == pwString(id) || v == pwHash(id) {
			return id
		}
	}
	return "?" + v
}

type aclTok struct{ K, V string }

func (t aclTok) wire() string {
	switch t.K {
	case "on", "off", "nopass", "resetpass", "nocommands", "resetkeys", "nokeys", "resetchannels":
		return t.K
	case "allcategories":
		return "allCategories"
	case "allkeys":
		return "allKeys"
	case "allchannels":
		return "allChannels"
	case "allcommands":
		return "allCommands"
	case "pw":
		return ">" + pwString(t.V)
	case "hash":
		return "#" + pwHash(t.V)
	case "rmpw":
		return "<" + pwString(t.V)
	case "rmhash":
		return "!" + pwHash(t.V)
	case "cat+":
		return "+@" + t.V
	case "cat-":
		return "-@" + t.V
	case "cmd+":
		return "+" + t.V
	case "cmd-":
		return "-" + t.V
	case "key":
		return "~" + t.V
	case "rkey":
		return "%R~" + t.V
	case "wkey":
		return "%W~" + t.V
	case "ch+":
		return "+&" + t.V
	case "ch-":
		return "-&" + t.V
	}
	panic("bad acl token " + t.K)
}

func (t aclTok) JSON() map[string]any {
	if t.V == "" {
		return map[string]any{"k": t.K}
	}
	return map[string]any{"k": t.K, "v": t.V}
}

var aclKeyPats = []string{"*", "a:*", "b:*", "a:1"}
var aclChPats = []string{"*", "n:*", "m:1"}
var aclKeys = []string{"a:1", "a:2", "b:1", "b:2"}
var aclChans = []string{"n:1", "m:1"}
var aclCats = []string{"read", "write", "fast", "slow", "keyspace", "string", "list", "set", "hash", "sortedset", "pubsub", "admin", "dangerous", "connection"}

type probe struct {
	name string // command table name
	wire func(args []string) []string
	n    int    // number of key/channel arguments
	kind string // keys | chans | none
}

var aclProbes = []probe{
	{"get", func(a []string) []string { return []string{"GET", a[0]} }, 1, "keys"},
	{"set", func(a []string) []string { return []string{"SET", a[0], "v"} }, 1, "keys"},
	{"mget", func(a []string) []string { return append([]string{"MGET"}, a...) }, 2, "keys"},
	{"mset", func(a []string) []string { return []string{"MSET", a[0], "x", a[1], "y"} }, 2, "keys"},
	{"del", func(a []string) []string { return append([]string{"DEL"}, a...) }, 2, "keys"},
	{"ttl", func(a []string) []string { return []string{"TTL", a[0]} }, 1, "keys"},
	{"expire", func(a []string) []string { return []string{"EXPIRE", a[0], "1000"} }, 1, "keys"},
	{"incr", func(a []string) []string { return []string{"INCR", a[0]} }, 1, "keys"},
	{"lpush", func(a []string) []string { return []string{"LPUSH", a[0], "e"} }, 1, "keys"},
	{"lrange", func(a []string) []string { return []string{"LRANGE", a[0], "0", "-1"} }, 1, "keys"},
	{"lmove", func(a []string) []string { return []string{"LMOVE", a[0], a[1], "LEFT", "RIGHT"} }, 2, "keys"},
	{"sadd", func(a []string) []string { return []string{"SADD", a[0], "m"} }, 1, "keys"},
	{"sunion", func(a []string) []string { return append([]string{"SUNION"}, a...) }, 2, "keys"},
	{"sinterstore", func(a []string) []string { return append([]string{"SINTERSTORE"}, a...) }, 3, "keys"},
	{"smembers", func(a []string) []string { return []string{"SMEMBERS", a[0]} }, 1, "keys"},
	{"zadd", func(a []string) []string { return []string{"ZADD", a[0], "1", "m"} }, 1, "keys"},
	{"zcard", func(a []string) []string { return []string{"ZCARD", a[0]} }, 1, "keys"},
	{"hset", func(a []string) []string { return []string{"HSET", a[0], "f", "v"} }, 1, "keys"},
	{"hget", func(a []string) []string { return []string{"HGET", a[0], "f"} }, 1, "keys"},
	{"rename", func(a []string) []string { return []string{"RENAME", a[0], a[1]} }, 2, "keys"},
	{"getdel", func(a []string) []string { return []string{"GETDEL", a[0]} }, 1, "keys"},
	{"strlen", func(a []string) []string { return []string{"STRLEN", a[0]} }, 1, "keys"},
	{"append", func(a []string) []string { return []string{"APPEND", a[0], "z"} }, 1, "keys"},
	{"zinter", func(a []string) []string { return []string{"ZINTER", a[0], a[1], "WITHSCORES"} }, 2, "keys"},
	{"zunion", func(a []string) []string { return []string{"ZUNION", a[0], a[1], "WITHSCORES"} }, 2, "keys"},
	{"publish", func(a []string) []string { return []string{"PUBLISH", a[0], "msg"} }, 1, "chans"},
	{"flushdb", func(a []string) []string { return []string{"FLUSHDB"} }, 0, "none"},
	{"lastsave", func(a []string) []string { return []string{"LASTSAVE"} }, 0, "none"},
	{"ping", func(a []string) []string { return []string{"PING"} }, 0, "none"},
	{"echo", func(a []string) []string { return []string{"ECHO", "hi"} }, 0, "none"},
	{"acl|whoami", func(a []string) []string { return []string{"ACL", "WHOAMI"} }, 0, "none"},
	{"acl|list", func(a []string) []string { return []string{"ACL", "LIST"} }, 0, "none"},
	{"acl|setuser", func(a []string) []string { return []string{"ACL", "SETUSER", "intruder", "on", "nopass"} }, 0, "none"},
}

func randAclToks(r *rand.Rand) []aclTok {
	n := 1 + r.Intn(4)
	var ts []aclTok
	for i := 0; i < n; i++ {
		switch r.Intn(22) {
		case 0:
			ts = append(ts, aclTok{"on", ""})
		case 1:
			ts = append(ts, aclTok{"off", ""})
		case 2:
			ts = append(ts, aclTok{"nopass", ""})
		case 3:
			ts = append(ts, aclTok{"pw", pick(r, aclPwIDs)})
		case 4:
			ts = append(ts, aclTok{"hash", pick(r, aclPwIDs)})
		case 5:
			ts = append(ts, aclTok{pick(r, []string{"rmpw", "rmhash", "resetpass"}), ""})
			if ts[len(ts)-1].K != "resetpass" {
				ts[len(ts)-1].V = pick(r, aclPwIDs)
			}
		case 6, 7:
			ts = append(ts, aclTok{"cat+", pick(r, aclCats)})
		case 8:
			ts = append(ts, aclTok{"cat-", pick(r, aclCats)})
		case 9:
			ts = append(ts, aclTok{pick(r, []string{"allcategories", "allcommands", "allkeys", "allchannels"}), ""})
		case 10:
			ts = append(ts, aclTok{"nocommands", ""})
		case 11, 12:
			ts = append(ts, aclTok{"cmd+", pick(r, aclProbes).name})
		case 13:
			ts = append(ts, aclTok{"cmd-", pick(r, aclProbes).name})
		case 14, 15:
			ts = append(ts, aclTok{"key", pick(r, aclKeyPats)})
		case 16:
			ts = append(ts, aclTok{"rkey", pick(r, aclKeyPats)})
		case 17:
			ts = append(ts, aclTok{"wkey", pick(r, aclKeyPats)})
		case 18:
			ts = append(ts, aclTok{pick(r, []string{"resetkeys", "nokeys"}), ""})
		case 19:
			ts = append(ts, aclTok{"ch+", pick(r, aclChPats)})
		case 20:
			ts = append(ts, aclTok{"ch-", pick(r, aclChPats)})
		default:
			ts = append(ts, aclTok{"resetchannels", ""})
		}
	}
	return ts
}

func projUsers(us []sugardb.VerifUser) []any {
	ss := func(x []string) []any {
		out := make([]any, len(x))
		for i, s := range x {
			out[i] = s
		}
		return out
	}
	var out []any
	for _, u := range us {
		var pw []any
		for _, p := range u.Passwords {
			t := "plain"
			if strings.EqualFold(p[0], "SHA256") {
				t = "sha"
			}
			pw = append(pw, map[string]any{"t": t, "v": pwID(p[1])})
		}
		if pw == nil {
			pw = []any{}
		}
		out = append(out, map[string]any{"name": u.Username, "on": u.Enabled, "nopass": u.NoPassword, "nokeys": u.NoKeys, "pw": pw,
			"icat": ss(u.IncludedCategories), "xcat": ss(u.ExcludedCategories), "icmd": ss(u.IncludedCommands), "xcmd": ss(u.ExcludedCommands),
			"rk": ss(u.IncludedReadKeys), "wk": ss(u.IncludedWriteKeys), "ich": ss(u.IncludedChannels), "xch": ss(u.ExcludedChannels)})
	}
	return out
}

// stateDigest summarises everything a denied command must leave alone.
func stateDigest(db *sugardb.SugarDB, ep Epoch) string {
	st := db.VerifDump()
	b1, _ := json.Marshal(projState(ep, st))
	b2, _ := json.Marshal(projUsers(db.VerifACLUsers()))
	var conns []string
	for _, c := range st.TCP {
		conns = append(conns, fmt.Sprintf("%d/%s/%d/%d", c.Id, c.Name, c.Protocol, c.Database))
	}
	sort.Strings(conns)
	h := sha1.Sum([]byte(string(b1) + "|" + string(b2) + "|" + strings.Join(conns, ",")))
	return hex.EncodeToString(h[:8])
}

func isDenial(r Reply) bool {
	if r.T != "err" {
		return false
	}
	s := strings.ToLower(string(r.B))
	return strings.Contains(s, "authori") || strings.Contains(s, "must be authenticated") || strings.Contains(s, "is disabled")
}

func cmdACL(args []string) {
	fs := flag.NewFlagSet("acl", flag.ExitOnError)
	out := fs.String("out", "", "trace file")
	statsPath := fs.String("stats", "", "stats file")
	seed := fs.Int64("seed", 1, "seed")
	n := fs.Int("n", 20, "histories")
	length := fs.Int("len", 60, "steps per history")
	_ = fs.Parse(args)
	quiet()
	tr, err := NewTrace(*out)
	if err != nil {
		die(2, "%v", err)
	}
	r := rand.New(rand.NewSource(*seed))
	tot := map[string]int{}
	var samples []any
	work, _ := os.MkdirTemp("", "vacl-")
	defer os.RemoveAll(work)
	for h := 0; h < *n; h++ {
		ext := pick(r, []string{".json", ".yaml", ".yml"})
		runACLHistory(tr, h, r, *length, filepath.Join(work, fmt.Sprintf("acl%d%s", h, ext)), tot, &samples)
	}
	_ = tr.Close()
	if *statsPath != "" {
		m := map[string]any{"histories": *n, "samples": samples, "lines": tr.N}
		for k, v := range tot {
			m[k] = v
		}
		writeJSON(*statsPath, m)
	}
}

func runACLHistory(tr *Trace, h int, r *rand.Rand, length int, cfgFile string, tot map[string]int, samples *[]any) {
	newServer := func() *Srv {
		s, err := NewSrv(SrvOpts{RequirePass: true, Password: aclRootPw, AclConfig: cfgFile})
		if err != nil {
			die(2, "%v", err)
		}
		return s
	}
	srv := newServer()
	cats := map[string][]string{}
	for _, c := range srv.DB.VerifCommandTable() {
		cats[c.Name] = c.Categories
	}
	tr.Emit(map[string]any{"ev": "reset", "run": h, "users": projUsers(srv.DB.VerifACLUsers())})
	var admin *PipeClient
	conns := map[int]*PipeClient{}
	openAdmin := func() {
		admin = Dial(srv.DB)
		if rep := admin.Do("AUTH", aclRootPw); rep.T != "simple" {
			die(2, "admin AUTH failed: %+v", rep)
		}
	}
	openConn := func(c int) {
		if old := conns[c]; old != nil {
			old.Close()
		}
		conns[c] = Dial(srv.DB)
		who := conns[c].Do("ACL", "WHOAMI") // unauthenticated: denied; identity is observed after AUTH only
		_ = who
		tr.Emit(map[string]any{"ev": "conn", "run": h, "c": c, "whoami": "default"})
	}
	openAdmin()
	for c := 1; c <= 3; c++ {
		openConn(c)
	}
	users := []string{"u1", "u2", "default"}
	saved := false
	for i := 0; i < length; i++ {
		switch x := r.Intn(100); {
		case x < 22: // SETUSER
			name := pick(r, users)
			if name == "default" && r.Intn(3) != 0 {
				name = "u1"
			}
			toks := randAclToks(r)
			if r.Intn(4) == 0 {
				// an account with everything allowed except keys, whose read and write patterns differ:
				// commands that read AND write the same key, or mix keys, are where the checks interact
				toks = []aclTok{{"on", ""}, {pick(r, []string{"pw", "nopass"}), "p1"},
					{"rkey", pick(r, aclKeyPats)}, {"wkey", pick(r, aclKeyPats)}}
				if toks[1].K == "nopass" {
					toks[1].V = ""
				}
				if r.Intn(2) == 0 {
					toks = append(toks, aclTok{"rkey", pick(r, aclKeyPats)})
				}
			} else if r.Intn(5) == 0 {
				// an account whose categories are listed one by one - all those of one probe command and a few
				// more - and, half of the time, one of them taken away again: an explicit include list and the
				// exclude list both apply
				pc := cats[pick(r, aclProbes).name]
				toks = []aclTok{{"on", ""}, {"nopass", ""}, {"allkeys", ""}, {"allchannels", ""}}
				for _, c := range pc {
					toks = append(toks, aclTok{"cat+", c})
				}
				toks = append(toks, aclTok{"cat+", pick(r, aclCats)})
				if len(pc) > 0 && r.Intn(2) == 0 {
					toks = append(toks, aclTok{"cat-", pick(r, pc)})
				}
			} else if r.Intn(2) == 0 {
				// a usable account: enabled, with a credential, and some breadth
				toks = append([]aclTok{{"on", ""}, {pick(r, []string{"pw", "hash", "nopass"}), "p1"}}, toks...)
				if toks[1].K == "nopass" {
					toks[1].V = ""
				}
				if r.Intn(2) == 0 {
					toks = append(toks, aclTok{pick(r, []string{"allkeys", "allcommands", "allcategories", "allchannels"}), ""})
				}
			}
			if name == "default" {
				// keep the administrator able to administer: only password / channel edits on default
				toks = []aclTok{{pick(r, []string{"pw", "hash"}), pick(r, aclPwIDs)}}
			}
			wire := []string{"ACL", "SETUSER", name}
			var tj []any
			for _, t := range toks {
				wire = append(wire, t.wire())
				tj = append(tj, t.JSON())
			}
			rep := admin.Do(wire...)
			tr.Emit(map[string]any{"ev": "setuser", "run": h, "name": name, "toks": tj, "ok": rep.T == "simple",
				"users": projUsers(srv.DB.VerifACLUsers())})
			tot["setuser"]++
		case x < 27: // DELUSER
			names := []string{pick(r, []string{"u1", "u2", "default", "ghost"})}
			if r.Intn(3) == 0 {
				names = append(names, pick(r, []string{"u1", "u2", "default"}))
			}
			rep := admin.Do(append([]string{"ACL", "DELUSER"}, names...)...)
			nj := make([]any, len(names))
			for k, s := range names {
				nj[k] = s
			}
			tr.Emit(map[string]any{"ev": "deluser", "run": h, "names": nj, "ok": rep.T == "simple",
				"users": projUsers(srv.DB.VerifACLUsers())})
			tot["deluser"]++
		case x < 47: // AUTH
			c := 1 + r.Intn(3)
			user := pick(r, []string{"u1", "u2", "", "default", "ghost"})
			pw := pick(r, []string{"p1", "p2", "root", "p1", "wrong", "#p1", "#p2"})
			pwWire := pwString(pw)
			if pw == "root" {
				pwWire = aclRootPw
			}
			if strings.HasPrefix(pw, "#") {
				// the stored SHA-256 digest itself, offered as the password (what ACL LIST shows and ACL SAVE writes):
				// it is nobody's password
				pwWire = pwHash(pw[1:])
			}
			var rep Reply
			form := "auth2"
			switch {
			case user == "":
				form = "auth1"
				rep = conns[c].Do("AUTH", pwWire)
			case r.Intn(3) == 0:
				form = "hello"
				rep = conns[c].Do("HELLO", pick(r, []string{"2", "3"}), "AUTH", user, pwWire)
			default:
				rep = conns[c].Do("AUTH", user, pwWire)
			}
			ok := rep.T != "err" && rep.T != "closed" && rep.T != "none"
			if rep.T == "closed" || rep.T == "none" {
				tr.Emit(map[string]any{"ev": "auth", "run": h, "c": c, "form": form, "user": user, "pw": pw, "ok": false, "whoami": "~", "closed": true})
				tot["auth"]++
				openConn(c)
				continue
			}
			who := conns[c].Do("ACL", "WHOAMI")
			whoami := "?"
			if who.T == "simple" || who.T == "bulk" {
				whoami = string(who.B)
			} else {
				// WHOAMI itself may be denied by the user's rules: ask the server's tables instead
				whoami = "~"
			}
			ev := map[string]any{"ev": "auth", "run": h, "c": c, "form": form, "user": user, "pw": pw, "ok": ok, "whoami": whoami, "closed": false}
			tr.Emit(ev)
			tot["auth"]++
		case x < 92: // probe
			c := 1 + r.Intn(3)
			p := pick(r, aclProbes)
			if r.Intn(6) == 0 {
				p = aclProbes[20] // getdel: the same key is read and written
			} else if r.Intn(4) == 0 {
				// commands with several keys: each position must be checked
				multi := []string{"mget", "mset", "del", "lmove", "sunion", "sinterstore", "rename", "zinter", "zunion"}
				want := pick(r, multi)
				for _, q := range aclProbes {
					if q.name == want {
						p = q
					}
				}
			}
			var a []string
			for k := 0; k < p.n; k++ {
				if p.kind == "chans" {
					a = append(a, pick(r, aclChans))
				} else {
					a = append(a, pick(r, aclKeys))
				}
			}
			sb := stateDigest(srv.DB, srv.Ep)
			rep := conns[c].Do(p.wire(a)...)
			sa := stateDigest(srv.DB, srv.Ep)
			outcome := "ran"
			if isDenial(rep) {
				outcome = "denied"
			} else if rep.T == "closed" || rep.T == "none" {
				outcome = "closed"
			}
			aj := make([]any, len(a))
			for k, s := range a {
				aj[k] = s
			}
			cj := make([]any, len(cats[p.name]))
			for k, s := range cats[p.name] {
				cj[k] = s
			}
			ev := map[string]any{"ev": "try", "run": h, "c": c, "name": p.name, "cats": cj, "args": aj, "outcome": outcome, "sb": sb, "sa": sa, "reply": rep.T}
			tr.Emit(ev)
			tot["try"]++
			tot["try_"+outcome]++
			if len(*samples) < 3 && outcome == "denied" {
				*samples = append(*samples, ev)
			}
			if outcome == "closed" {
				openConn(c)
			}
			if p.name == "acl|setuser" && outcome == "ran" {
				// the probe created a user: tell the model through an explicit setuser event
				tr.Emit(map[string]any{"ev": "setuser", "run": h, "name": "intruder", "toks": []any{map[string]any{"k": "on"}, map[string]any{"k": "nopass"}},
					"ok": true, "users": projUsers(srv.DB.VerifACLUsers())})
			}
		case x < 95: // SAVE
			rep := admin.Do("ACL", "SAVE")
			tr.Emit(map[string]any{"ev": "save", "run": h, "ok": rep.T == "simple", "users": projUsers(srv.DB.VerifACLUsers())})
			saved = true
			tot["save"]++
		case x < 98: // LOAD
			if !saved {
				continue
			}
			mode := pick(r, []string{"replace", "merge"})
			rep := admin.Do("ACL", "LOAD", strings.ToUpper(mode))
			tr.Emit(map[string]any{"ev": "load", "run": h, "mode": mode, "ok": rep.T == "simple", "users": projUsers(srv.DB.VerifACLUsers())})
			tot["load"]++
		default: // restart from the saved file
			if !saved {
				continue
			}
			for _, c := range conns {
				c.Close()
			}
			admin.Close()
			srv = newServer()
			tr.Emit(map[string]any{"ev": "restart", "run": h, "users": projUsers(srv.DB.VerifACLUsers())})
			// the root password may have been changed on the default user: find one that works
			admin = Dial(srv.DB)
			okAdmin := false
			for _, pw := range []string{aclRootPw, pwString("p1"), pwString("p2")} {
				if admin.Do("AUTH", pw).T == "simple" {
					okAdmin = true
					break
				}
			}
			if !okAdmin {
				return
			}
			for c := 1; c <= 3; c++ {
				conns[c] = nil
				openConn(c)
			}
			tot["restart"]++
		}
	}
	for _, c := range conns {
		if c != nil {
			c.Close()
		}
	}
	admin.Close()
}
