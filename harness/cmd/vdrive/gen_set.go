package main

// Command generators for the set module (placeholder).

func RandomSetPrograms(seed int64, n, length int) []Program {
	return nil
}
