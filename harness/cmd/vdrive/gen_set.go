package main

// Command generator for the set module (SADD ... SUNIONSTORE), property C16.
//
// Programs run over 2-4 keys.  Presets put values of every type under those keys so that every
// command meets non-set operands, absent operands, empty sets (a set emptied by SREM stays in
// the keyspace) and destinations equal to a source.  Members come from a small pool (so that
// unions / intersections / differences are non-trivial) that contains the empty string,
// numeric-looking strings, CR LF, NUL and a non-UTF-8 byte.

import (
	"math/rand"
)

// the first five are drawn most of the time
var setMembers = []string{
	"a", "b", "c", "d", "e",
	"", "ab", "A", " ", "7", "007", "-3", "1.5", "+5", "a\r\nb", "\r\n", "\n", "\x00", "a\x00b", "x\xffy", "LIMIT", "k1",
}

func setMember(r *rand.Rand) Tok {
	switch r.Intn(10) {
	case 0, 1:
		return B(setMembers[5+r.Intn(len(setMembers)-5)])
	case 2:
		if r.Intn(3) == 0 {
			return B(randFree(r))
		}
		return I(pick(r, []int64{0, 7, -3, 12}))
	default:
		return B(setMembers[r.Intn(5)])
	}
}

func setMemberList(r *rand.Rand, min int) []Tok {
	n := min + r.Intn(4)
	out := make([]Tok, 0, n+1)
	for i := 0; i < n; i++ {
		out = append(out, setMember(r))
	}
	if len(out) > 0 && r.Intn(4) == 0 { // an explicit duplicate
		out = append(out, out[r.Intn(len(out))])
	}
	return out
}

// counts / limits: negative, zero, = cardinality, beyond; literals that AdaptType accepts as
// integers ("007", "+2", "2.0", "-0"), fractional and non-numeric ones.
func setCount(r *rand.Rand) Tok {
	switch r.Intn(12) {
	case 0:
		return B(pick(r, []string{"abc", "", "1.5", "1.2.3", "-", "+", ".", "one", "0.25", "2.50"}))
	case 1:
		return B(pick(r, []string{"007", "+2", "2.0", "-0", "-2.0", "3.", "0"}))
	case 2:
		return Q(pick(r, []int64{8, 6, -4, 1, 0}))
	default:
		return I(pick(r, []int64{0, 1, 1, 2, 2, 3, 4, 5, 6, 10, -1, -2, -3, -4, -5, -8}))
	}
}

var setCmdNames = []string{"SADD", "SCARD", "SDIFF", "SDIFFSTORE", "SINTER", "SINTERCARD", "SINTERSTORE", "SISMEMBER",
	"SMEMBERS", "SMISMEMBER", "SMOVE", "SPOP", "SRANDMEMBER", "SREM", "SUNION", "SUNIONSTORE"}

func genSet(r *rand.Rand, keys []string) []Tok {
	k := func() Tok { return S(pick(r, keys)) }
	// operand lists: 1..4 keys, repeats and absent keys arise naturally from the small key pool
	ks := func(min int) []Tok {
		n := min + r.Intn(3)
		if r.Intn(8) == 0 {
			n++
		}
		out := make([]Tok, 0, n)
		for i := 0; i < n; i++ {
			out = append(out, k())
		}
		return out
	}
	switch r.Intn(40) {
	case 0, 1, 2, 3, 4, 5:
		return append([]Tok{S("SADD"), k()}, setMemberList(r, 1)...)
	case 6, 7, 8:
		return append([]Tok{S("SREM"), k()}, setMemberList(r, 1)...)
	case 9:
		return []Tok{S("SCARD"), k()}
	case 10, 11:
		return []Tok{S("SMEMBERS"), k()}
	case 12:
		return []Tok{S("SISMEMBER"), k(), setMember(r)}
	case 13:
		return append([]Tok{S("SMISMEMBER"), k()}, setMemberList(r, 1)...)
	case 14, 15:
		return append([]Tok{S("SDIFF")}, ks(1)...)
	case 16, 17:
		return append([]Tok{S("SDIFFSTORE"), k()}, ks(1)...)
	case 18, 19:
		return append([]Tok{S("SINTER")}, ks(1)...)
	case 20, 21:
		return append([]Tok{S("SINTERSTORE"), k()}, ks(1)...)
	case 22, 23, 24:
		c := append([]Tok{S("SINTERCARD")}, ks(1)...)
		switch r.Intn(8) {
		case 0, 1, 2, 3:
			c = append(c, kw(r, "LIMIT"), setCount(r))
		case 4:
			c = append(c, kw(r, "LIMIT")) // value missing
		case 5:
			c = append(c, kw(r, "LIMIT"), setCount(r), k()) // trailing tokens
		case 6:
			if r.Intn(3) == 0 {
				c = []Tok{S("SINTERCARD"), kw(r, "LIMIT"), setCount(r)} // LIMIT where the first key should be
			}
		}
		return c
	case 25, 26:
		return append([]Tok{S("SUNION")}, ks(1)...)
	case 27, 28:
		return append([]Tok{S("SUNIONSTORE"), k()}, ks(1)...)
	case 29, 30, 31:
		return []Tok{S("SMOVE"), k(), k(), setMember(r)}
	case 32, 33:
		c := []Tok{S("SPOP"), k()}
		if r.Intn(3) != 0 {
			c = append(c, setCount(r))
		}
		return c
	case 34, 35:
		c := []Tok{S("SRANDMEMBER"), k()}
		if r.Intn(3) != 0 {
			c = append(c, setCount(r))
		}
		return c
	case 36:
		// wrong arity: too short / too long
		c := []Tok{S(pick(r, setCmdNames))}
		n := r.Intn(3)
		for i := 0; i < n; i++ {
			c = append(c, k())
		}
		if r.Intn(3) == 0 {
			for i := 0; i < 4; i++ {
				c = append(c, k())
			}
		}
		return c
	case 37:
		// change the type of a key / remove it in mid-program
		switch r.Intn(4) {
		case 0:
			return []Tok{S("SET"), k(), B(pick(r, []string{"hello", "41", "1.5", ""}))}
		case 1:
			return []Tok{S("DEL"), k(), k()}
		default:
			return []Tok{S("DEL"), k()}
		}
	case 38:
		return []Tok{S("TYPE"), k()}
	default:
		return []Tok{S("SMEMBERS"), k()}
	}
}

func setPresets() [][][]Tok {
	sadd := func(k string, ms ...string) []Tok {
		c := []Tok{S("SADD"), S(k)}
		for _, m := range ms {
			c = append(c, B(m))
		}
		return c
	}
	return [][][]Tok{
		{},
		{sadd("k1", "a", "b", "c"), sadd("k2", "b", "c", "d")},
		{sadd("k1", "a", "b", "c", "d", "e"), sadd("k2", "c"), sadd("k3", "a", "", "\r\n", "c")},
		{sadd("k1", "a", "b", "c", "d"), sadd("k2", "a", "b", "c"), sadd("k3", "b", "c", "e"), sadd("k4", "c", "d")},
		{sadd("k1", "a"), {S("SREM"), S("k1"), B("a")}, sadd("k2", "a", "b")}, // k1 is an existing empty set
		{{S("SET"), S("k1"), B("hello")}, sadd("k2", "a", "b", "c")},
		{{S("SET"), S("k1"), B("41")}, sadd("k2", "a", "7")},
		{{S("SET"), S("k2"), B("1.5")}, sadd("k1", "a", "b"), sadd("k3", "b")},
		{{S("RPUSH"), S("k1"), B("a"), B("b")}, sadd("k2", "a", "b")},
		{{S("HSET"), S("k2"), B("a"), B("v")}, sadd("k1", "a", "b", "c")},
		{{S("ZADD"), S("k1"), I(1), B("a")}, sadd("k2", "a", "c")},
		{sadd("k1", "a", "b", "c"), {S("RPUSH"), S("k2"), B("a")}, {S("HSET"), S("k3"), B("f"), B("v")}, {S("ZADD"), S("k4"), I(2), B("b")}},
		{sadd("k1", "x\xffy", "\x00", "a\r\nb", "", "007"), sadd("k2", "", "7", "007", "a\r\nb")},
		// sets with a deadline: once it has passed the key is absent for every command; a write over a
		// live key (in place or through a STORE variant) keeps the deadline
		{sadd("k1", "a", "b", "c"), {S("PEXPIRE"), S("k1"), I(1500)}, sadd("k2", "b", "c", "d")},
		{sadd("k1", "a", "b"), sadd("k2", "b", "c", "d"), {S("PEXPIRE"), S("k2"), I(999)}, {S("SET"), S("k3"), B("x"), S("PX"), I(500)}},
		{sadd("k1", "a", "b"), {S("PEXPIRE"), S("k1"), I(10000)}, sadd("k2", "b", "c"), {S("PEXPIRE"), S("k2"), I(1000)}, sadd("k3", "c")},
	}
}

// RandomSetPrograms builds n random programs of the given length.
func RandomSetPrograms(seed int64, n, length int) []Program {
	r := rand.New(rand.NewSource(seed))
	presets := setPresets()
	var out []Program
	for i := 0; i < n; i++ {
		nk := 2 + r.Intn(3)
		keys := []string{"k1", "k2", "k3", "k4"}[:nk]
		p := Program{Preset: presets[r.Intn(len(presets))]}
		for j := 0; j < length; j++ {
			var t int64
			if r.Intn(3) == 0 {
				t = randTick(r)
			}
			p.Steps = append(p.Steps, Step{Cmd: genSet(r, keys), Tick: t})
		}
		out = append(out, p)
	}
	return out
}
