package main

import "math/rand"

var persistKeys = []string{"k1", "k2", "k3"}

// values that survive every persistence path byte for byte (no numerals, valid UTF-8)
var persistSafeVals = []string{"a", "bc", "hello world", "", "x\r\ny", "v\x00w", "z9", "-", "tab\tq"}

// genPersistWrite returns one write command.  In "aof" mode (log replay only) every value type
// is used; the rewrite/snapshot modes go through the JSON checkpoint formats, which only
// preserve strings and hashes of strings (open finding PersistJSONTypes), so the exact checks
// use those, and a minority of typed writes exercises the finding.
func genPersistWrite(r *rand.Rand, o persistOpts, now int64) []Tok {
	k := S(pick(r, persistKeys))
	v := func() Tok { return B(pick(r, persistSafeVals)) }
	typed := o.mode == "aof" || r.Intn(6) == 0
	if o.mode != "aof" && r.Intn(4) == 0 {
		// short deadlines, so that keys are past their deadline (but still physically present) when a
		// checkpoint is written or restored
		return []Tok{S("SET"), k, v(), S("PXAT"), At(now+pick(r, []int64{300, 800, 1500}), "ms")}
	}
	n := r.Intn(14)
	if !typed && n >= 5 && n <= 10 {
		n = r.Intn(5)
	}
	switch n {
	case 0, 1:
		return []Tok{S("SET"), k, v()}
	case 2:
		return []Tok{S("HSET"), k, B(pick(r, []string{"f1", "f2"})), v()}
	case 3:
		return []Tok{S("APPEND"), k, B(pick(r, []string{"q", "rs", "\r\n"}))}
	case 4:
		return []Tok{S("DEL"), k}
	case 5:
		return []Tok{S("INCR"), k}
	case 6:
		return []Tok{S(pick(r, []string{"RPUSH", "LPUSH"})), k, v(), v()}
	case 7:
		return []Tok{S("SADD"), k, v(), v()}
	case 8:
		return []Tok{S("ZADD"), k, Q(pick(r, []int64{4, 6, -2, 0})), B(pick(r, []string{"m1", "m2"}))}
	case 9:
		return []Tok{S("SET"), k, B(pick(r, []string{"7", "-3", "1.5", "12"}))}
	case 10:
		return []Tok{S("INCRBY"), k, I(pick(r, []int64{2, 5, -1}))}
	case 11:
		return []Tok{S("SET"), k, v(), S("PXAT"), At(now+pick(r, []int64{2000, 5000, 3600000}), "ms")}
	case 12:
		return []Tok{S("PEXPIREAT"), k, At(now+pick(r, []int64{1500, 4000, 3600000}), "ms")}
	default:
		return []Tok{S("RENAME"), k, S(pick(r, persistKeys))}
	}
}

func genPersistWorkload(r *rand.Rand, o persistOpts) []persistStep {
	var steps []persistStep
	now := int64(StartMs)
	dbs := []int{0, 1, 10}
	nrw := 0
	for i := 0; i < o.length; i++ {
		t := int64(0)
		if r.Intn(4) == 0 || (o.mode != "aof" && r.Intn(3) == 0) {
			t = pick(r, []int64{1, 500, 1000, 2500})
		}
		now += t
		if r.Intn(5) == 0 {
			steps = append(steps, persistStep{Step: Step{Kind: "select", Db: pick(r, dbs), Tick: t}})
			continue
		}
		if o.mode == "snap" && r.Intn(4) == 0 {
			steps = append(steps, persistStep{Step: Step{Tick: t}, Special: "save"})
			nrw++
			if r.Intn(3) == 0 {
				// a second snapshot after changes that store no value: deletions, deadline edits, a flush
				for j := 1 + r.Intn(2); j > 0; j-- {
					k := S(pick(r, persistKeys))
					var c []Tok
					switch r.Intn(4) {
					case 0:
						c = []Tok{S("DEL"), k}
					case 1:
						c = []Tok{S("PEXPIREAT"), k, At(now+pick(r, []int64{1500, 3600000}), "ms")}
					case 2:
						c = []Tok{S("PERSIST"), k}
					default:
						c = []Tok{S("FLUSHDB")}
					}
					steps = append(steps, persistStep{Step: Step{Cmd: c}})
				}
				steps = append(steps, persistStep{Step: Step{}, Special: "save"})
				nrw++
			}
			continue
		}
		if o.mode == "rewrite" && nrw < 2 && r.Intn(4) == 0 {
			ps := persistStep{Step: Step{Tick: t}, Special: "rewrite"}
			if o.inter && r.Intn(2) == 0 {
				ps.Inter = genPersistWrite(r, o, now)
			}
			steps = append(steps, ps)
			nrw++
			continue
		}
		if r.Intn(6) == 0 {
			steps = append(steps, persistStep{Step: Step{Cmd: []Tok{S(pick(r, []string{"GET", "TYPE", "TTL"})), S(pick(r, persistKeys))}, Tick: t}})
			continue
		}
		steps = append(steps, persistStep{Step: Step{Cmd: genPersistWrite(r, o, now), Tick: t}})
	}
	if o.mode == "snap" && nrw == 0 {
		steps = append(steps, persistStep{Special: "save"})
	}
	if o.mode == "rewrite" && nrw == 0 {
		steps = append(steps, persistStep{Special: "rewrite"})
		steps = append(steps, persistStep{Step: Step{Cmd: genPersistWrite(r, o, now)}})
	}
	return steps
}
