package main

// Replication driver (C07): real raft clusters of in-process nodes on loopback.

import (
	"bytes"
	"encoding/base64"
	"encoding/json"
	"flag"
	"fmt"
	"log"
	"math/rand"
	"net"
	"os"
	"os/exec"
	"runtime"
	"sort"
	"strconv"
	"strings"
	"sync"
	"time"

	"github.com/echovault/sugardb/sugardb"
)

type Node struct {
	ID      string
	DB      *sugardb.SugarDB
	Clock   *sugardb.VerifClock
	Cli     *PipeClient
	Forward bool
	Disc    int
	Stopped bool
	Hung    bool
}

type Cluster struct {
	Nodes []*Node
	Ep    Epoch
	Al    *applyLog
}

// freePort returns a loopback port nobody listens on. Ports come from below the kernel's
// ephemeral range (outgoing raft and gossip connections take their local ports from there and
// would otherwise collide with a port picked now and bound a moment later), from a window that
// depends on the process id so that concurrent drivers do not race each other.
var nextPort int

func freePort() int {
	if nextPort == 0 {
		nextPort = 12000 + (os.Getpid()*7919%200)*100
	}
	for tries := 0; tries < 2000; tries++ {
		p := nextPort
		nextPort++
		if nextPort >= 32000 {
			nextPort = 12000
		}
		l, err := net.Listen("tcp", fmt.Sprintf("127.0.0.1:%d", p))
		if err != nil {
			continue
		}
		u, err := net.ListenPacket("udp", fmt.Sprintf("127.0.0.1:%d", p))
		_ = l.Close()
		if err != nil {
			continue
		}
		_ = u.Close()
		return p
	}
	die(2, "no free port")
	return 0
}

// startNode creates one cluster node; join is "" for the bootstrap node.
func startNode(id string, join string, forward bool, startMs int64) (*Node, error) {
	cfg := sugardb.DefaultConfig()
	cfg.DataDir = ""
	cfg.ServerID = id
	cfg.BindAddr = "127.0.0.1"
	cfg.Port = uint16(freePort())
	cfg.DiscoveryPort = uint16(freePort())
	cfg.RaftBindAddr = "127.0.0.1"
	cfg.RaftBindPort = uint16(freePort())
	cfg.BootstrapCluster = join == ""
	cfg.JoinAddr = join
	cfg.ForwardCommand = forward
	cfg.EvictionPolicy = "noeviction"
	cfg.EvictionInterval = 24 * time.Hour
	cfg.SnapShotThreshold = 1 << 40
	cfg.SnapshotInterval = 24 * time.Hour
	clk := sugardb.NewVerifClock(EpochBase)
	clk.SetMs(startMs)
	db, err := sugardb.NewSugarDB(sugardb.WithConfig(cfg), sugardb.WithVerifClock(clk))
	if err != nil {
		return nil, err
	}
	return &Node{ID: id, DB: db, Clock: clk, Forward: forward, Disc: int(cfg.DiscoveryPort)}, nil
}

func waitFor(d time.Duration, f func() bool) bool {
	dl := time.Now().Add(d)
	for time.Now().Before(dl) {
		if f() {
			return true
		}
		time.Sleep(2 * time.Millisecond)
	}
	return f()
}

func (c *Cluster) Leader() *Node {
	for _, n := range c.Nodes {
		if !n.Stopped && n.DB.VerifRaft().State == "Leader" {
			return n
		}
	}
	return nil
}

// Quiesce waits until every running node has applied everything in the leader's log.
func (c *Cluster) Quiesce(d time.Duration) bool {
	return waitFor(d, func() bool {
		l := c.Leader()
		if l == nil {
			return false
		}
		last := l.DB.VerifRaft().Last
		for _, n := range c.Nodes {
			if n.Stopped {
				continue
			}
			s := n.DB.VerifRaft()
			if s.Applied < last || s.Last < last {
				return false
			}
		}
		if c.Al != nil {
			// raft marks an entry applied when it hands it to the state machine: wait for Apply to return
			c.Al.mu.Lock()
			defer c.Al.mu.Unlock()
			for _, n := range c.Nodes {
				if !n.Stopped && c.Al.done[n.ID] != c.Al.done[l.ID] {
					return false
				}
			}
		}
		return true
	})
}

func newCluster(size int, forward []bool, skew []int64, al *applyLog) (*Cluster, error) {
	c := &Cluster{Ep: Epoch{Base: EpochBase}, Al: al}
	n0, err := startNode("N0", "", forward[0], StartMs+skew[0])
	if err != nil {
		return nil, err
	}
	c.Nodes = append(c.Nodes, n0)
	if !waitFor(15*time.Second, func() bool { return n0.DB.VerifRaft().State == "Leader" }) {
		return nil, fmt.Errorf("bootstrap node did not become leader")
	}
	for i := 1; i < size; i++ {
		if err := c.Join(fmt.Sprintf("N%d", i), forward[i], StartMs+skew[i]); err != nil {
			return nil, err
		}
	}
	return c, nil
}

// Join adds a fresh node through the gossip layer and waits until it is a voter that caught up.
func (c *Cluster) Join(id string, forward bool, startMs int64) error {
	join := fmt.Sprintf("%s/127.0.0.1:%d", c.Nodes[0].ID, c.Nodes[0].Disc)
	n, err := startNode(id, join, forward, startMs)
	if err != nil {
		return err
	}
	c.Nodes = append(c.Nodes, n)
	want := 0
	for _, x := range c.Nodes {
		if !x.Stopped {
			want++
		}
	}
	if !waitFor(30*time.Second, func() bool {
		l := c.Leader()
		return l != nil && l.DB.VerifRaft().Voters >= want && n.DB.VerifRaft().LeaderID != ""
	}) {
		return fmt.Errorf("node %s did not join", id)
	}
	if !c.Quiesce(15 * time.Second) {
		return fmt.Errorf("node %s did not catch up", id)
	}
	return nil
}


// applyLog counts, per node, the entries its state machine applied (fsm.apply points).
type applyLog struct {
	mu   sync.Mutex
	cmds map[string]int
	dels map[string]int
	last map[string]uint64
	done map[string]int // command and delete-key entries whose Apply has returned
	fwdD int            // key deletions handed to gossip by followers or enqueued by the leader without waiting
	delKeys map[string][]string // database/key of every delete-key entry a node applied (diagnostics)
	raw     map[string][][]byte // the log entries a node applied, in order
	bad  []string       // an index applied out of order or twice
}

func newApplyLog() *applyLog {
	return &applyLog{cmds: map[string]int{}, dels: map[string]int{}, last: map[string]uint64{}, done: map[string]int{}, delKeys: map[string][]string{}, raw: map[string][][]byte{}}
}

func (a *applyLog) handle(name string, args ...any) {
	if name == "conn.panic" && len(args) >= 2 {
		st, _ := args[1].([]byte)
		fmt.Fprintf(os.Stderr, "CONNPANIC %v\n%s\n", args[0], st)
		return
	}
	if name == "raft.enqueue.delete" {
		a.mu.Lock()
		a.fwdD++
		a.mu.Unlock()
		return
	}
	if name == "gossip.forward" && len(args) >= 2 {
		if act, _ := args[1].(string); act == "DeleteKey" {
			a.mu.Lock()
			a.fwdD++
			a.mu.Unlock()
		}
		return
	}
	if name == "fsm.applied" && len(args) >= 1 {
		id, _ := args[0].(string)
		a.mu.Lock()
		a.done[id]++
		a.mu.Unlock()
		return
	}
	if name != "fsm.apply" || len(args) < 3 {
		return
	}
	id, _ := args[0].(string)
	idx, _ := args[1].(uint64)
	data, _ := args[2].([]byte)
	var req struct {
		Type     string
		Database int
		Key      []byte
	}
	_ = json.Unmarshal(data, &req)
	a.mu.Lock()
	defer a.mu.Unlock()
	if idx <= a.last[id] {
		a.bad = append(a.bad, fmt.Sprintf("%s applied index %d after %d", id, idx, a.last[id]))
	}
	a.last[id] = idx
	a.raw[id] = append(a.raw[id], append([]byte{}, data...))
	if req.Type == "delete-key" {
		a.dels[id]++
		a.delKeys[id] = append(a.delKeys[id], fmt.Sprintf("%d/%s", req.Database, req.Key))
	} else {
		a.cmds[id]++
	}
}

func (a *applyLog) snapshot() (map[string]int, map[string]int) {
	a.mu.Lock()
	defer a.mu.Unlock()
	c, d := map[string]int{}, map[string]int{}
	for k, v := range a.cmds {
		c[k] = v
	}
	for k, v := range a.dels {
		d[k] = v
	}
	return c, d
}

type replRun struct {
	c      *Cluster
	tr     *Trace
	al     *applyLog
	r      *rand.Rand
	run    int
	sync   map[string]bool // command name -> replicated
	cliDb  map[string]int
	prev   map[string]sugardb.VerifState
	tot    map[string]int
	sample *[]any
	t      int64 // global virtual time (ms relative to the epoch); node clock = t + skew
	skew   map[string]int64
	failed bool
}

func (rr *replRun) live() []*Node {
	var out []*Node
	for _, n := range rr.c.Nodes {
		if !n.Stopped {
			out = append(out, n)
		}
	}
	return out
}

func (rr *replRun) setClocks() {
	for _, n := range rr.live() {
		n.Clock.SetMs(rr.t + rr.skew[n.ID])
	}
}

func (rr *replRun) ids() []any {
	var out []any
	for _, n := range rr.live() {
		out = append(out, n.ID)
	}
	return out
}

// observe dumps every live node and fills the per-node fields of an event.
func (rr *replRun) observe(ev map[string]any, c0, d0 map[string]int) map[string]sugardb.VerifState {
	st, now, napp, ndel := map[string]any{}, map[string]any{}, map[string]any{}, map[string]any{}
	cur := map[string]sugardb.VerifState{}
	c1, d1 := rr.al.snapshot()
	for _, n := range rr.live() {
		d, ok := dumpGuard(n)
		if !ok {
			// the node holds its store lock for good: a deadlock inside the server
			ev["hang"] = true
			ev["hung_node"] = n.ID
			rr.failed = true
		}
		cur[n.ID] = d
		st[n.ID] = projState(rr.c.Ep, d)
		now[n.ID] = rr.t + rr.skew[n.ID]
		napp[n.ID] = c1[n.ID] - c0[n.ID]
		ndel[n.ID] = d1[n.ID] - d0[n.ID]
	}
	ev["st"], ev["now"], ev["napp"], ev["ndel"], ev["nodes"] = st, now, napp, ndel, rr.ids()
	if l := rr.c.Leader(); l != nil && d1[l.ID] > d0[l.ID] {
		rr.al.mu.Lock()
		ks := rr.al.delKeys[l.ID]
		ev["delkeys"] = strs(ks[len(ks)-(d1[l.ID]-d0[l.ID]):])
		rr.al.mu.Unlock()
	}
	if l := rr.c.Leader(); l != nil {
		ev["lead"] = l.ID
	} else {
		ev["lead"] = ""
	}
	return cur
}

// dumpGuard projects a node's dataset; a node that does not answer within the step timeout is hung.
func dumpGuard(n *Node) (sugardb.VerifState, bool) {
	if n.Hung {
		return sugardb.VerifState{}, false
	}
	ch := make(chan sugardb.VerifState, 1)
	go func() { ch <- n.DB.VerifDump() }()
	select {
	case d := <-ch:
		return d, true
	case <-time.After(10 * time.Second):
		n.Hung = true
		if HangDump == "" {
			buf := make([]byte, 4<<20)
			HangDump = string(buf[:runtime.Stack(buf, true)])
		}
		return sugardb.VerifState{}, false
	}
}

func (rr *replRun) client(n *Node, db int) *PipeClient {
	if n.Cli == nil {
		n.Cli = Dial(n.DB)
		rr.cliDb[n.ID] = 0
	}
	if rr.cliDb[n.ID] != db {
		n.Cli.Do("SELECT", strconv.Itoa(db))
		rr.cliDb[n.ID] = db
	}
	return n.Cli
}

func setOf(v sugardb.VerifState, db int, key string) (map[string]bool, bool) {
	e, ok := v.DBs[db][key]
	if !ok || e.Value.Kind != "set" {
		return nil, false
	}
	m := map[string]bool{}
	for _, x := range e.Value.Set {
		m[x] = true
	}
	return m, true
}

// popped reconstructs the random choice a node made for SPOP from its dataset before and after.
func popped(before, after sugardb.VerifState, db int, key string, like Reply, count int64) map[string]any {
	b, ok := setOf(before, db, key)
	if !ok {
		return like.JSON()
	}
	a, _ := setOf(after, db, key)
	var gone []string
	for m := range b {
		if !a[m] {
			gone = append(gone, m)
		}
	}
	sort.Strings(gone)
	// a negative count selects |count| members with repetition: the selection is longer than the set of
	// members removed
	n := len(gone)
	if count < 0 && n > 0 {
		n = int(-count)
	}
	out := Reply{T: "arr"}
	for i := 0; i < n; i++ {
		out.A = append(out.A, Reply{T: "bulk", B: []byte(gone[i%len(gone)])})
	}
	return out.JSON()
}

// countOf reads a count argument the way the server does (any decimal literal with an integral value).
func countOf(t Tok) int64 {
	switch t.Kind {
	case "i":
		return t.I
	case "q":
		if t.Inf == 0 && t.I%4 == 0 {
			return t.I / 4
		}
	case "b":
		if f, err := strconv.ParseFloat(string(t.B), 64); err == nil && f == float64(int64(f)) {
			return int64(f)
		}
	}
	return 1
}

func (rr *replRun) isSync(cmd []Tok) bool {
	name := lower(cmd[0].S)
	if v, ok := rr.sync[name]; ok {
		return v
	}
	if len(cmd) > 1 {
		if v, ok := rr.sync[name+"|"+lower(cmd[1].S)]; ok {
			return v
		}
	}
	return false
}

func lower(s string) string {
	b := []byte(s)
	for i, c := range b {
		if c >= 'A' && c <= 'Z' {
			b[i] = c + 32
		}
	}
	return string(b)
}

// step sends one command to one node and records the outcome on every node.
func (rr *replRun) step(cmd []Tok, db int, entry *Node) bool {
	waitFor(15*time.Second, func() bool { return rr.c.Leader() != nil })
	lead := rr.c.Leader()
	if lead == nil {
		die(2, "no leader")
	}
	role := "local"
	if rr.isSync(cmd) {
		switch {
		case entry == lead:
			role = "leader"
		case entry.Forward:
			role = "forward"
		default:
			role = "reject"
		}
	}
	cli := rr.client(entry, db)
	c0, d0 := rr.al.snapshot()
	rr.al.mu.Lock()
	fwd0 := rr.al.fwdD
	rr.al.mu.Unlock()
	wire := make([]string, len(cmd))
	for i, t := range cmd {
		wire[i] = rr.c.Ep.Wire(t)
	}
	r := cli.Do(wire...)
	if len(cmd) > 0 && r.T == "int" && r.N >= 0 {
		switch upper(cmd[0].S) {
		case "EXPIRETIME":
			r.N -= rr.c.Ep.Base.Unix()
		case "PEXPIRETIME":
			r.N -= rr.c.Ep.Base.UnixMilli()
		}
	}
	ev := map[string]any{"ev": "cmd", "run": rr.run, "node": entry.ID, "role": role, "db": strconv.Itoa(db),
		"cmd": toksJSON(cmd), "r": r.JSON()}
	if r.T == "err" {
		ev["etext"] = string(r.B)
	}
	lost := false
	if r.T == "none" || r.T == "closed" {
		ev["hang"] = true
	} else {
		if role == "forward" && r.T != "err" {
			// the write travels to the leader by gossip: wait for it to reach the leader's state machine
			if !waitFor(20*time.Second, func() bool { c1, _ := rr.al.snapshot(); return c1[lead.ID] > c0[lead.ID] }) {
				lost = true
			}
		}
		if lostDel, stuck := rr.settle(lead, d0, fwd0); lostDel {
			lost = true
		} else if stuck {
			ev["stuck"] = true
		}
	}
	ev["lost"] = lost
	cur := rr.observe(ev, c0, d0)
	g := map[string]any{}
	for _, n := range rr.live() {
		if upper(cmd[0].S) == "SPOP" && len(cmd) >= 2 && !(n == entry && role == "leader") {
			count := int64(1)
			if len(cmd) >= 3 {
				count = countOf(cmd[2])
			}
			g[n.ID] = popped(rr.prev[n.ID], cur[n.ID], db, cmd[1].S, r, count)
		} else {
			g[n.ID] = r.JSON()
		}
	}
	ev["g"] = g
	rr.prev = cur
	rr.tr.Emit(ev)
	rr.tot["events"]++
	rr.tot["role_"+role]++
	if len(*rr.sample) < 2 && role != "local" && r.T != "err" {
		*rr.sample = append(*rr.sample, ev)
	}
	return ev["hang"] == nil && ev["stuck"] == nil
}

// burst sends the same non-idempotent write k times back to back through a forwarding follower and
// waits until the leader's state machine has applied k more entries.
func (rr *replRun) burst(db int) bool {
	lead := rr.c.Leader()
	var entry *Node
	for _, n := range rr.live() {
		if n != lead && n.Forward {
			entry = n
		}
	}
	if entry == nil || lead == nil {
		return true
	}
	k := 2 + rr.r.Intn(3)
	var cmd []Tok
	switch rr.r.Intn(3) {
	case 0:
		cmd = []Tok{S("INCR"), S("bn")}
	case 1:
		cmd = []Tok{S("APPEND"), S("bs"), B("x")}
	default:
		cmd = []Tok{S("RPUSH"), S("bl"), B("e")}
	}
	cli := rr.client(entry, db)
	c0, d0 := rr.al.snapshot()
	rr.al.mu.Lock()
	fwd0 := rr.al.fwdD
	rr.al.mu.Unlock()
	wire := make([]string, len(cmd))
	for i, t := range cmd {
		wire[i] = rr.c.Ep.Wire(t)
	}
	oks := 0
	for i := 0; i < k; i++ {
		if r := cli.Do(wire...); r.T == "simple" {
			oks++
		}
	}
	lost := !waitFor(20*time.Second, func() bool { c1, _ := rr.al.snapshot(); return c1[lead.ID]-c0[lead.ID] >= oks })
	ev := map[string]any{"ev": "burst", "run": rr.run - 1, "node": entry.ID, "db": strconv.Itoa(db), "cmd": toksJSON(cmd),
		"times": k, "oks": oks, "lost": lost}
	if lostDel, stuck := rr.settle(lead, d0, fwd0); lostDel || stuck {
		ev["stuck"] = true
	}
	rr.prev = rr.observe(ev, c0, d0)
	rr.tr.Emit(ev)
	rr.tot["events"]++
	rr.tot["bursts"]++
	return ev["stuck"] == nil && !rr.failed
}

// settle waits until the step is over on every node: replication has quiesced AND every key deletion that
// a node enqueued or handed to gossip while applying (followers come across expired entries when THEY apply
// the entry, after the leader has replied) has reached the log and been applied everywhere.
func (rr *replRun) settle(lead *Node, d0 map[string]int, fwd0 int) (lostDel bool, stuck bool) {
	for round := 0; round < 6; round++ {
		if !rr.c.Quiesce(10 * time.Second) {
			return false, true
		}
		rr.al.mu.Lock()
		fd := rr.al.fwdD - fwd0
		rr.al.mu.Unlock()
		_, d1 := rr.al.snapshot()
		if d1[lead.ID]-d0[lead.ID] >= fd {
			// nothing outstanding; one more look after a short pause, for a follower that is just about to forward
			time.Sleep(3 * time.Millisecond)
			rr.al.mu.Lock()
			again := rr.al.fwdD - fwd0
			rr.al.mu.Unlock()
			if again == fd {
				return false, !rr.c.Quiesce(10 * time.Second)
			}
			continue
		}
		if !waitFor(20*time.Second, func() bool { _, d := rr.al.snapshot(); return d[lead.ID]-d0[lead.ID] >= fd }) {
			return true, false
		}
	}
	return false, !rr.c.Quiesce(10 * time.Second)
}

func (rr *replRun) pickEntry(sync bool) *Node {
	lead := rr.c.Leader()
	live := rr.live()
	if !sync {
		return live[rr.r.Intn(len(live))]
	}
	x := rr.r.Intn(100)
	if x < 74 {
		return lead
	}
	var cand []*Node
	for _, n := range live {
		if n != lead && n.Forward == (x >= 87) {
			cand = append(cand, n)
		}
	}
	if len(cand) == 0 {
		return lead
	}
	return cand[rr.r.Intn(len(cand))]
}

// program runs one generated program on the cluster, starting from an empty dataset.
func (rr *replRun) program(p Program) bool {
	lead := rr.c.Leader()
	c0, d0 := rr.al.snapshot()
	cli := rr.client(lead, 0)
	cli.Do("FLUSHALL")
	rr.t = StartMs
	rr.setClocks()
	// the program runs in a database picked at random (programs with select steps move on from there)
	db := []int{0, 0, 1, 10}[rr.r.Intn(4)]
	cli = rr.client(lead, db)
	for _, c := range p.Preset {
		wire := make([]string, len(c))
		for i, t := range c {
			wire[i] = rr.c.Ep.Wire(t)
		}
		cli.Do(wire...)
	}
	stuck := !rr.c.Quiesce(15 * time.Second)
	fwd, skew := map[string]any{}, map[string]any{}
	for _, n := range rr.live() {
		fwd[n.ID] = n.Forward
		skew[n.ID] = rr.skew[n.ID]
	}
	preset := make([]any, len(p.Preset))
	for i, c := range p.Preset {
		preset[i] = toksJSON(c)
	}
	ev := map[string]any{"ev": "reset", "run": rr.run, "fwd": fwd, "skew": skew, "preset": preset}
	if stuck {
		// a node does not catch up with the leader's log: it will never converge
		ev["stuck"] = true
	}
	rr.prev = rr.observe(ev, c0, d0)
	rr.tr.Emit(ev)
	rr.run++
	if stuck {
		return false
	}
	for _, s := range p.Steps {
		if s.Tick > 0 {
			rr.t += s.Tick
			rr.setClocks()
		}
		switch s.Kind {
		case "select":
			db = s.Db
			continue
		case "sample":
			lead = rr.c.Leader()
			c0, d0 := rr.al.snapshot()
			rr.al.mu.Lock()
			fwd0 := rr.al.fwdD
			rr.al.mu.Unlock()
			ev := map[string]any{"ev": "sample", "run": rr.run - 1, "db": strconv.Itoa(s.Db), "node": lead.ID}
			done := make(chan error, 1)
			go func() { done <- lead.DB.VerifRunSampler(s.Db) }()
			select {
			case err := <-done:
				if err != nil {
					ev["err"] = err.Error()
				}
			case <-time.After(10 * time.Second):
				ev["hang"] = true
			}
			if lostDel, stuck := rr.settle(lead, d0, fwd0); lostDel || stuck {
				ev["stuck"] = true
			}
			rr.prev = rr.observe(ev, c0, d0)
			rr.tr.Emit(ev)
			rr.tot["events"]++
			rr.tot["samples_run"]++
			if ev["hang"] != nil || ev["stuck"] != nil {
				return false
			}
			continue
		}
		entry := rr.pickEntry(rr.isSync(s.Cmd))
		if s.At == "leader" {
			entry = rr.c.Leader()
		}
		if !rr.step(s.Cmd, db, entry) {
			return false
		}
		if rr.r.Intn(12) == 0 && !rr.burst(db) {
			return false
		}
	}
	return true
}

func (rr *replRun) simple(kind string, extra map[string]any) {
	c0, d0 := rr.al.snapshot()
	ev := map[string]any{"ev": kind, "run": rr.run - 1}
	for k, v := range extra {
		ev[k] = v
	}
	rr.prev = rr.observe(ev, c0, d0)
	rr.tr.Emit(ev)
	rr.tot["events"]++
	rr.tot[kind]++
}

// replScenarios: short scripted programs for shapes the random programs reach only now and then - a
// read-modify-write on the leader of a key whose deadline has passed but which nobody has removed yet
// (the handler comes across the expired entry, a deletion is replicated behind the write that re-creates
// the key), the same through a follower's read, and an expiry set, passed and overwritten.
func replScenarios() []Program {
	L := func(t int64, c ...Tok) Step { return Step{Cmd: c, Tick: t, At: "leader"} }
	A := func(t int64, c ...Tok) Step { return Step{Cmd: c, Tick: t} }
	return []Program{
		{Steps: []Step{
			L(0, S("SET"), S("w1"), B("10"), S("PX"), I(50)),
			L(100, S("INCR"), S("w1")),
			L(0, S("GET"), S("w1")),
			A(0, S("MGET"), S("w1"), S("w1")),
			L(0, S("RPUSH"), S("w2"), B("a")),
			L(0, S("PEXPIRE"), S("w2"), I(40)),
			L(100, S("LPUSH"), S("w2"), B("b")),
			A(0, S("LRANGE"), S("w2"), I(0), I(-1)),
			L(0, S("SET"), S("w3"), B("x"), S("PX"), I(30)),
			L(100, S("APPEND"), S("w3"), B("yz")),
			A(500, S("GET"), S("w3")),
			A(0, S("MGET"), S("w3")),
		}},
		{Steps: []Step{
			L(0, S("SADD"), S("w4"), B("m")),
			L(0, S("PEXPIRE"), S("w4"), I(20)),
			A(100, S("MGET"), S("w4")),
			L(0, S("SADD"), S("w4"), B("n")),
			A(0, S("SMEMBERS"), S("w4")),
			L(0, S("SET"), S("w5"), B("1"), S("PX"), I(20)),
			L(100, S("SET"), S("w5"), B("2")),
			A(0, S("TTL"), S("w5")),
			L(0, S("HSET"), S("w6"), B("f"), B("v")),
			L(0, S("PEXPIRE"), S("w6"), I(20)),
			L(100, S("HSET"), S("w6"), B("g"), B("w")),
			A(0, S("HGETALL"), S("w6")),
		}},
	}
}

func replPrograms(r *rand.Rand, n, length int) []Program {
	var out []Program
	for i := 0; i < n; i++ {
		seed := r.Int63()
		var ps []Program
		switch r.Intn(8) {
		case 0:
			ps = RandomKVPrograms(seed, 1, length, KVProfile{Canonical: true})
		case 1:
			ps = RandomKVPrograms(seed, 1, length, KVProfile{Canonical: true, Sample: 9, TickHeavy: true, ExpiryMix: true})
		case 2, 3:
			ps = RandomKVPrograms(seed, 1, length, KVProfile{Canonical: true, Select: 5, Sample: 25, Dbs: []int{0, 1, 10}})
		case 4:
			ps = RandomHashPrograms(seed, 1, length)
		case 5:
			ps = RandomListPrograms(seed, 1, length)
		case 6:
			ps = RandomSetPrograms(seed, 1, length)
		default:
			ps = RandomZSetPrograms(seed, 1, length)
		}
		out = append(out, ps...)
	}
	return out
}

func cmdRepl(args []string) {
	fs := flag.NewFlagSet("repl", flag.ExitOnError)
	out := fs.String("out", "", "trace file")
	statsPath := fs.String("stats", "", "stats file")
	seed := fs.Int64("seed", 1, "seed")
	nprog := fs.Int("n", 6, "programs on the cluster")
	length := fs.Int("len", 25, "steps per program")
	skewed := fs.Bool("skew", false, "give the nodes different clocks")
	_ = fs.Parse(args)
	if len(fs.Args()) > 0 && fs.Arg(0) == "table" {
		replTable()
		return
	}
	if len(fs.Args()) > 0 && fs.Arg(0) == "dupprobe" {
		quiet()
		al := newApplyLog()
		sugardb.VerifSetHandler(al.handle)
		c, err := newCluster(3, []bool{false, false, true}, []int64{0, 0, 0}, al)
		if err != nil {
			die(2, "%v", err)
		}
		f := Dial(c.Nodes[2].DB)
		for i := 0; i < 3; i++ {
			fmt.Fprintf(os.Stderr, "PROBE forwarded INCR: %+v\n", f.Do("INCR", "ctr").T)
		}
		time.Sleep(4 * time.Second)
		l := Dial(c.Leader().DB)
		fmt.Fprintf(os.Stderr, "PROBE leader GET ctr: %s\n", string(l.Do("GET", "ctr").B))
		return
	}
	quiet()
	log.SetOutput(os.Stderr)
	tr, err := NewTrace(*out)
	if err != nil {
		die(2, "%v", err)
	}
	r := rand.New(rand.NewSource(*seed))
	al := newApplyLog()
	sugardb.VerifSetHandler(al.handle)
	skew := map[string]int64{"N0": 0, "N1": 0, "N2": 0, "N3": 0}
	if *skewed {
		skew = map[string]int64{"N0": 0, "N1": 40, "N2": -25, "N3": 1500}
	}
	c, err := newCluster(3, []bool{false, false, true}, []int64{skew["N0"], skew["N1"], skew["N2"]}, al)
	if err != nil {
		die(2, "%v", err)
	}
	var samples []any
	rr := &replRun{c: c, tr: tr, al: al, r: r, sync: map[string]bool{}, cliDb: map[string]int{}, tot: map[string]int{},
		sample: &samples, skew: skew, t: StartMs}
	for _, e := range c.Nodes[0].DB.VerifCommandTable() {
		rr.sync[e.Name] = e.Sync
	}
	progs := replPrograms(r, *nprog, *length)
	if sc := replScenarios(); len(progs) > len(sc) {
		// the scripted scenarios run as the second and third program (after the cluster has seen one random one)
		progs = append(progs[:1], append(sc, progs[1:len(progs)-len(sc)]...)...)
	}
	ok := true
	for i, p := range progs {
		if !rr.program(p) {
			ok = false
			break
		}
		switch {
		case i == len(progs)/3:
			// a fresh node joins and replays the whole log
			rr.setClocks()
			if err := c.Join("N3", false, rr.t+skew["N3"]); err != nil {
				rr.simple("join", map[string]any{"id": "N3", "err": err.Error()})
				ok = false
			} else {
				rr.simple("join", map[string]any{"id": "N3"})
			}
		case i == len(progs)/2:
			// the leader hands leadership over
			old := c.Leader()
			err := old.DB.VerifRaftTransfer()
			waitFor(10*time.Second, func() bool { l := c.Leader(); return l != nil && l != old })
			c.Quiesce(10 * time.Second)
			x := map[string]any{"from": old.ID}
			if err != nil {
				x["err"] = err.Error()
			}
			rr.simple("transfer", x)
		case i == (2*len(progs))/3 && len(rr.live()) == 4:
			// a follower shuts down; the remaining three carry on
			for _, n := range rr.live() {
				if n != c.Leader() && !n.Forward && n.ID != "N3" {
					_ = n.DB.VerifRaftStop()
					n.Stopped = true
					rr.simple("stop", map[string]any{"id": n.ID})
					break
				}
			}
		}
		if !ok || rr.failed {
			ok = false
			break
		}
	}
	if ok {
		// state-machine snapshot of the leader installed on a fresh single-node cluster; the snapshot holds
		// different keys in three databases
		if *seed%2 == 0 {
			// every other run restores a dataset the snapshot format can carry (strings and hashes of strings):
			// a list in it ends the restoring process (open finding), which says nothing about the rest
			ok = rr.step([]Tok{S("FLUSHALL")}, 0, c.Leader())
		}
		for _, db := range []int{0, 1, 10} {
			d := strconv.Itoa(db)
			for _, cmd := range [][]Tok{
				{S("SET"), S("r" + d), B("v" + d)},
				{S("HSET"), S("rh" + d), B("f"), B("x" + d)},
				{S("SET"), S("rt" + d), B("t"), S("PXAT"), At(rr.t+3600000, "ms")},
			} {
				if ok && !rr.step(cmd, db, c.Leader()) {
					ok = false
				}
			}
		}
	}
	if ok {
		lead := c.Leader()
		// raft takes a snapshot in two steps: Snapshot() on the state-machine goroutine, Persist() later while
		// further entries are applied.  Two non-idempotent writes land in between; the fresh node restores the
		// snapshot and then replays exactly those entries.
		snapID, err := lead.DB.VerifRaftSnapshotBegin()
		al.mu.Lock()
		mark := len(al.raw[lead.ID])
		al.mu.Unlock()
		if err == nil {
			for _, w := range []struct {
				db  int
				cmd []Tok
			}{{0, []Tok{S("APPEND"), S("r0"), B("x")}}, {1, []Tok{S("APPEND"), S("r1"), B("y")}}} {
				if ok && !rr.step(w.cmd, w.db, lead) {
					ok = false
				}
			}
		}
		var b []byte
		if err == nil {
			b, err = lead.DB.VerifRaftSnapshotPersist(snapID, rr.t)
		}
		al.mu.Lock()
		var later []string
		for _, d := range al.raw[lead.ID][mark:] {
			later = append(later, base64.StdEncoding.EncodeToString(d))
		}
		al.mu.Unlock()
		ev := map[string]any{"ev": "restore", "run": rr.run - 1, "src": lead.ID, "now": rr.t, "replayed": len(later)}
		if err != nil {
			ev["err"] = err.Error()
		} else {
			// the restore runs in a child process: FSM.Restore ends the process (log.Fatal) on values it cannot take back
			snapFile := *out + ".snap"
			resFile := *out + ".restored.json"
			_ = os.WriteFile(snapFile, b, 0o644)
			laterFile := *out + ".later.json"
			lb, _ := json.Marshal(later)
			_ = os.WriteFile(laterFile, lb, 0o644)
			defer os.Remove(laterFile)
			self, _ := os.Executable()
			cmd := exec.Command(self, "replrestore", "-snap", snapFile, "-later", laterFile, "-now", strconv.FormatInt(rr.t, 10), "-res", resFile)
			var stderr bytes.Buffer
			cmd.Stderr = &stderr
			runErr := cmd.Run()
			ev["src_st"] = projState(c.Ep, lead.DB.VerifDump())
			if rb, rerr := os.ReadFile(resFile); runErr == nil && rerr == nil {
				var st any
				_ = json.Unmarshal(rb, &st)
				ev["st"] = st
				ev["died"] = false
			} else {
				ev["st"] = []any{}
				ev["died"] = true
				lines := strings.Split(strings.TrimSpace(stderr.String()), "\n")
				why := ""
				for _, l := range lines {
					if !strings.Contains(l, "raft:") && !strings.Contains(l, "memberlist") {
						why = l
					}
				}
				ev["why"] = why
			}
			_ = os.Remove(snapFile)
			_ = os.Remove(resFile)
		}
		tr.Emit(ev)
		rr.tot["events"]++
		rr.tot["restore"]++
	}
	_ = tr.Close()
	if HangDump != "" {
		_ = os.WriteFile(*out+".hang.txt", []byte(HangDump), 0o644)
	}
	al.mu.Lock()
	bad := append([]string{}, al.bad...)
	al.mu.Unlock()
	if *statsPath != "" {
		m := map[string]any{"programs": len(progs), "samples": samples, "lines": tr.N, "apply_order_faults": bad, "completed": ok}
		for k, v := range rr.tot {
			m[k] = v
		}
		writeJSON(*statsPath, m)
	}
}

func replTable() {
	srv, err := NewSrv(SrvOpts{})
	if err != nil {
		die(2, "%v", err)
	}
	for _, c := range srv.DB.VerifCommandTable() {
		fmt.Fprintf(os.Stderr, "TABLE %s sync=%v cats=%v\n", c.Name, c.Sync, c.Categories)
	}
}

// cmdReplRestore: child process of the replication driver - a fresh single-node cluster installs a
// state-machine snapshot through FSM.Restore and prints its projected dataset.
func cmdReplRestore(args []string) {
	fs := flag.NewFlagSet("replrestore", flag.ExitOnError)
	snap := fs.String("snap", "", "snapshot bytes")
	now := fs.Int64("now", StartMs, "virtual time")
	res := fs.String("res", "", "result file")
	laterPath := fs.String("later", "", "log entries to replay after the restore (JSON array of base64)")
	_ = fs.Parse(args)
	quiet()
	log.SetOutput(os.Stderr)
	b, err := os.ReadFile(*snap)
	if err != nil {
		die(2, "%v", err)
	}
	fresh, err := startNode("R0", "", false, *now)
	if err != nil {
		die(2, "fresh node: %v", err)
	}
	if !waitFor(15*time.Second, func() bool { return fresh.DB.VerifRaft().State == "Leader" }) {
		die(2, "fresh node did not become leader")
	}
	if err := fresh.DB.VerifRaftRestore(b); err != nil {
		die(3, "restore: %v", err)
	}
	if *laterPath != "" {
		var later []string
		lb, err := os.ReadFile(*laterPath)
		if err == nil {
			err = json.Unmarshal(lb, &later)
		}
		if err != nil {
			die(2, "later entries: %v", err)
		}
		for i, e := range later {
			d, err := base64.StdEncoding.DecodeString(e)
			if err != nil {
				die(2, "later entry %d: %v", i, err)
			}
			fresh.DB.VerifRaftApply(uint64(1000+i), d)
		}
	}
	writeJSON(*res, projState(Epoch{Base: EpochBase}, fresh.DB.VerifDump()))
}
