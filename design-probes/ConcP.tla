---- MODULE ConcP ----
EXTENDS Integers, Sequences, FiniteSets, TLC, Json
CONSTANTS Procs, Prog          \* Prog[p] = [h |-> handler, k |-> key, v |-> arg]
Keys == {"x", "y"}
Absent == -1                   \* values are small ints; -1 = no key
VARIABLES store, pc, loc, reply, sched
vars == <<store, pc, loc, reply, sched>>

\* handler programs = the keyspace calls of the Go handler, in order (internal/modules/generic/commands.go)
Steps(h) == CASE h = "INCR"   -> <<"getValues", "setValues">>             \* handleIncr :393
              [] h = "SET"    -> <<"keysExist", "setValues">>             \* handleSet  :35 (no GET, no EX)
              [] h = "GET"    -> <<"keysExist", "getValues">>             \* handleGet  :111
              [] h = "GETDEL" -> <<"keysExist", "getValues", "deleteKey">>
              [] h = "RENAME" -> <<"getValues", "setValues", "deleteKey">> \* key -> v interpreted as new key

Init == /\ store = [k \in Keys |-> IF k = "x" THEN 5 ELSE Absent]
        /\ pc = [p \in Procs |-> 1] /\ loc = [p \in Procs |-> [ex |-> FALSE, val |-> Absent]]
        /\ reply = [p \in Procs |-> "pending"] /\ sched = <<>>

Done(p) == pc[p] > Len(Steps(Prog[p].h))
\* one keyspace call = one atomic step under storeLock
Step(p) ==
  /\ ~Done(p)
  /\ LET h == Prog[p].h  k == Prog[p].k  fn == Steps(h)[pc[p]]  last == pc[p] = Len(Steps(h)) IN
     /\ sched' = Append(sched, [p |-> p, fn |-> fn])
     /\ pc' = [pc EXCEPT ![p] = @ + 1]
     /\ CASE fn = "keysExist" ->
               /\ loc' = [loc EXCEPT ![p].ex = store[k] # Absent] /\ UNCHANGED store
               /\ reply' = IF h = "GET" /\ store[k] = Absent THEN [reply EXCEPT ![p] = "nil"]
                           ELSE IF h = "GETDEL" /\ store[k] = Absent THEN [reply EXCEPT ![p] = "nil"] ELSE reply
          [] fn = "getValues" ->
               /\ loc' = [loc EXCEPT ![p].val = store[k]] /\ UNCHANGED store
               /\ reply' = IF h = "GET" /\ reply[p] = "pending" THEN [reply EXCEPT ![p] = ToString(store[k])]
                           ELSE IF h = "RENAME" /\ store[k] = Absent THEN [reply EXCEPT ![p] = "err"] ELSE reply
          [] fn = "setValues" ->
               /\ UNCHANGED loc
               /\ IF h = "INCR" THEN LET n == IF loc[p].val = Absent THEN 1 ELSE loc[p].val + 1 IN
                                     store' = [store EXCEPT ![k] = n] /\ reply' = [reply EXCEPT ![p] = ToString(n)]
                  ELSE IF h = "SET" THEN store' = [store EXCEPT ![k] = Prog[p].v] /\ reply' = [reply EXCEPT ![p] = "OK"]
                  ELSE IF reply[p] = "err" THEN UNCHANGED <<store, reply>>
                  ELSE store' = [store EXCEPT ![Prog[p].v] = loc[p].val] /\ UNCHANGED reply
          [] fn = "deleteKey" ->
               /\ UNCHANGED loc
               /\ IF reply[p] \in {"nil", "err"} THEN UNCHANGED <<store, reply>>
                  ELSE /\ store' = [store EXCEPT ![k] = Absent]
                       /\ reply' = [reply EXCEPT ![p] = IF h = "GETDEL" THEN ToString(loc[p].val) ELSE "OK"]
Next == \E p \in Procs : Step(p)
Spec == Init /\ [][Next]_vars

\* serial oracle: run the same programs one after the other (each program alone is the sequential meaning)
RECURSIVE RunAlone(_, _, _, _, _)
RunAlone(S, p, i, l, r) ==
  IF i > Len(Steps(Prog[p].h)) THEN [S |-> S, r |-> r]
  ELSE LET h == Prog[p].h  k == Prog[p].k  fn == Steps(h)[i] IN
    CASE fn = "keysExist" -> RunAlone(S, p, i + 1, l, IF h \in {"GET", "GETDEL"} /\ S[k] = Absent THEN "nil" ELSE r)
      [] fn = "getValues" -> RunAlone(S, p, i + 1, S[k],
                               IF h = "GET" /\ r = "pending" THEN ToString(S[k]) ELSE IF h = "RENAME" /\ S[k] = Absent THEN "err" ELSE r)
      [] fn = "setValues" -> IF h = "INCR" THEN LET n == IF l = Absent THEN 1 ELSE l + 1 IN RunAlone([S EXCEPT ![k] = n], p, i + 1, l, ToString(n))
                             ELSE IF h = "SET" THEN RunAlone([S EXCEPT ![k] = Prog[p].v], p, i + 1, l, "OK")
                             ELSE IF r = "err" THEN RunAlone(S, p, i + 1, l, r) ELSE RunAlone([S EXCEPT ![Prog[p].v] = l], p, i + 1, l, r)
      [] fn = "deleteKey" -> IF r \in {"nil", "err"} THEN RunAlone(S, p, i + 1, l, r)
                             ELSE RunAlone([S EXCEPT ![k] = Absent], p, i + 1, l, IF h = "GETDEL" THEN ToString(l) ELSE "OK")
Serial(order) ==   \* order = <<p1, p2>>
  LET a == RunAlone([k \in Keys |-> IF k = "x" THEN 5 ELSE Absent], order[1], 1, Absent, "pending")
      b == RunAlone(a.S, order[2], 1, Absent, "pending")
  IN [S |-> b.S, r |-> (order[1] :> a.r) @@ (order[2] :> b.r)]
AllDone == \A p \in Procs : Done(p)
Outcome == [S |-> store, r |-> reply]
Serialisable == AllDone => \E o \in {<<1, 2>>, <<2, 1>>} : Serial(o) = Outcome
Emit == AllDone => PrintT(<<"BEH", ToJson([sched |-> sched, store |-> store, reply |-> reply,
                                           serialisable |-> \E o \in {<<1, 2>>, <<2, 1>>} : Serial(o) = Outcome])>>)
====
