---- MODULE Mini ----
EXTENDS Integers, Sequences, FiniteSets, TLC, Json
CONSTANTS Deviations
Keys == {"k1", "k2", "k3"}
Trace == ndJsonDeserialize("mini.ndjson")
VARIABLES store, l, dev
Absent == [t |-> "none"]

\* ---------- bytes / numbers
IsDigit(b) == b >= 48 /\ b <= 57
AllDigits(s) == Len(s) > 0 /\ \A i \in 1..Len(s) : IsDigit(s[i])
RECURSIVE DigitsVal(_)
DigitsVal(s) == IF s = <<>> THEN 0 ELSE DigitsVal(SubSeq(s, 1, Len(s) - 1)) * 10 + (s[Len(s)] - 48)
IsCanonInt(s) == \/ s = <<48>>
                 \/ (AllDigits(s) /\ s[1] # 48)
                 \/ (Len(s) > 1 /\ s[1] = 45 /\ AllDigits(Tail(s)) /\ s[2] # 48)
IsLooseInt(s) == AllDigits(s) \/ (Len(s) > 1 /\ s[1] \in {43, 45} /\ AllDigits(Tail(s)))
LooseVal(s) == IF s[1] = 45 THEN 0 - DigitsVal(Tail(s)) ELSE IF s[1] = 43 THEN DigitsVal(Tail(s)) ELSE DigitsVal(s)
RECURSIVE NatToBytes(_)
NatToBytes(n) == IF n < 10 THEN <<48 + n>> ELSE NatToBytes(n \div 10) \o <<48 + (n % 10)>>
IntToBytes(n) == IF n < 0 THEN <<45>> \o NatToBytes(0 - n) ELSE NatToBytes(n)
HasCRLF(s) == \E i \in 1..Len(s) : s[i] \in {10, 13}
SeqToSet(s) == {s[i] : i \in 1..Len(s)}

\* what a written string becomes (D = active deviations)
Typed(v, D) == IF IsCanonInt(v) THEN [t |-> "int", v |-> LooseVal(v)]
               ELSE IF "AdaptCanon" \in D /\ IsLooseInt(v) THEN [t |-> "int", v |-> LooseVal(v)]
               ELSE [t |-> "str", v |-> v]
Bytes(x) == IF x.t = "int" THEN IntToBytes(x.v) ELSE x.v
StrR(b) == [t |-> "str", v |-> b]
IntR(n) == [t |-> "int", v |-> n]
Ok == [t |-> "ok"]  Err == [t |-> "err"]  Nil == [t |-> "nil"]  Arr(a) == [t |-> "arr", v |-> a]
Out(S, r) == [S |-> S, r |-> r, rel |-> "eq"]

\* ---------- LRANGE, ideal and as coded
LRangeIdeal(lst, s0, e0) ==
  LET n == Len(lst)
      s1 == IF s0 < 0 THEN s0 + n ELSE s0   e1 == IF e0 < 0 THEN e0 + n ELSE e0
      s == IF s1 < 0 THEN 0 ELSE s1          e == IF e1 >= n THEN n - 1 ELSE e1
  IN IF s > e \/ s >= n THEN Arr(<<>>) ELSE Arr([i \in 1..(e - s + 1) |-> StrR(lst[s + i])])
LRangeCode(lst, s0, e0) ==
  LET n == Len(lst)
      s == IF s0 < 0 THEN n + s0 ELSE s0
      e1 == IF e0 < 0 THEN n - e0 ELSE e0
      e == IF e1 > n THEN n - 1 ELSE e1
  IN IF s > e \/ s > n THEN Arr(<<>>)
     ELSE IF s < 0 \/ e >= n THEN [t |-> "panic"]
     ELSE Arr([i \in 1..(e - s + 1) |-> StrR(lst[s + i])])

\* ---------- command semantics; D = set of deviations allowed to fire
Exec(S, e, D) ==
  LET k == e.k  cur == S[k] IN
  CASE e.op = "SET" ->
         IF (e.opt = "NX" /\ cur # Absent) \/ (e.opt = "XX" /\ cur = Absent) THEN Out(S, Err)
         ELSE Out([S EXCEPT ![k] = Typed(e.v, D)], Ok)
    [] e.op = "GET" ->
         IF cur = Absent THEN Out(S, Nil)
         ELSE IF cur.t \in {"str", "int"} THEN
                IF "SimpleCRLF" \in D /\ HasCRLF(Bytes(cur)) THEN Out(S, [t |-> "malformed"]) ELSE Out(S, StrR(Bytes(cur)))
         ELSE IF "GetWrongType" \in D THEN [S |-> S, r |-> Nil, rel |-> "anystr"] ELSE Out(S, Err)
    [] e.op = "DEL" ->
         LET ks == {e.k, e.k2}  hit == {x \in ks : S[x] # Absent} IN
         Out([x \in Keys |-> IF x \in ks THEN Absent ELSE S[x]], IntR(Cardinality(hit)))
    [] e.op = "INCR" ->
         IF cur = Absent THEN Out([S EXCEPT ![k] = StrR(<<49>>)], IntR(1))
         ELSE IF cur.t = "int" THEN Out([S EXCEPT ![k] = StrR(IntToBytes(cur.v + 1))], IntR(cur.v + 1))
         ELSE IF cur.t = "str" /\ IsLooseInt(cur.v) THEN Out([S EXCEPT ![k] = StrR(IntToBytes(LooseVal(cur.v) + 1))], IntR(LooseVal(cur.v) + 1))
         ELSE Out(S, Err)
    [] e.op = "APPEND" ->
         IF cur = Absent THEN Out([S EXCEPT ![k] = Typed(e.v, D)], IntR(Len(e.v)))
         ELSE IF cur.t = "str" THEN Out([S EXCEPT ![k] = Typed(cur.v \o e.v, D)], IntR(Len(cur.v) + Len(e.v)))
         ELSE Out(S, Err)
    [] e.op = "STRLEN" ->
         IF cur = Absent THEN Out(S, IntR(0)) ELSE IF cur.t = "str" THEN Out(S, IntR(Len(cur.v))) ELSE Out(S, Err)
    [] e.op = "RPUSH" ->
         IF cur = Absent THEN Out([S EXCEPT ![k] = [t |-> "list", v |-> e.vs]], IntR(Len(e.vs)))
         ELSE IF cur.t = "list" THEN Out([S EXCEPT ![k] = [t |-> "list", v |-> cur.v \o e.vs]], IntR(Len(cur.v) + Len(e.vs)))
         ELSE Out(S, Err)
    [] e.op = "LRANGE" ->
         IF cur = Absent THEN Out(S, Arr(<<>>))
         ELSE IF cur.t # "list" THEN Out(S, Err)
         ELSE IF "LRangeIdx" \in D THEN Out(S, LRangeCode(cur.v, e.i, e.j)) ELSE Out(S, LRangeIdeal(cur.v, e.i, e.j))
    [] e.op = "SADD" ->
         LET new == SeqToSet(e.vs) IN
         IF cur = Absent THEN Out([S EXCEPT ![k] = [t |-> "set", v |-> new]],
                                  IntR(IF "SAddCountDup" \in D THEN Len(e.vs) ELSE Cardinality(new)))
         ELSE IF cur.t = "set" THEN Out([S EXCEPT ![k] = [t |-> "set", v |-> cur.v \cup new]], IntR(Cardinality(new \ cur.v)))
         ELSE Out(S, Err)
    [] e.op = "SPOP" ->
         IF cur = Absent THEN Out(S, Nil)
         ELSE IF cur.t # "set" THEN Out(S, Err)
         ELSE [S |-> S, r |-> Nil, rel |-> "spop"]     \* relational: judged against the logged reply
    [] OTHER -> Out(S, Err)

\* ---------- reply comparison (tag first; never compares values of different shape)
RECURSIVE REq(_, _)
REq(a, b) == /\ a.t = b.t
             /\ (a.t \in {"int", "str"} => a.v = b.v)
             /\ (a.t = "arr" => Len(a.v) = Len(b.v) /\ \A i \in 1..Len(a.v) : REq(a.v[i], b.v[i]))

\* projection of the logged state
Proj(st) == [x \in Keys |-> IF x \in DOMAIN st
                            THEN IF st[x].t = "set" THEN [t |-> "set", v |-> SeqToSet(st[x].v)] ELSE [t |-> st[x].t, v |-> st[x].v]
                            ELSE Absent]

Relevant == {"AdaptCanon", "SimpleCRLF", "GetWrongType", "LRangeIdx", "SAddCountDup", "EmptyArrNoCRLF"} \cap Deviations

Matches(S, e, D) ==
  LET o == Exec(S, e, D) IN
  CASE o.rel = "eq"     -> REq(o.r, e.reply) /\ o.S = Proj(e.st)
    [] o.rel = "anystr" -> e.reply.t \in {"str", "malformed"} /\ o.S = Proj(e.st)
    [] o.rel = "spop"   -> LET cur == S[e.k].v  want == IF e.i >= Cardinality(cur) THEN Cardinality(cur) ELSE e.i IN
                           /\ IF want = 0 /\ "EmptyArrNoCRLF" \in D THEN e.reply.t = "malformed" ELSE e.reply.t = "arr" /\ Len(e.reply.v) = want
                           /\ e.reply.t = "arr" =>
                             /\ \A i \in 1..Len(e.reply.v) : e.reply.v[i].t = "str" /\ e.reply.v[i].v \in cur
                             /\ Cardinality({e.reply.v[i].v : i \in 1..Len(e.reply.v)}) = want
                             /\ Proj(e.st) = [S EXCEPT ![e.k] = [t |-> "set", v |-> cur \ {e.reply.v[i].v : i \in 1..Len(e.reply.v)}]]
                           /\ e.reply.t # "arr" => Proj(e.st) = S

Init == store = [k \in Keys |-> Absent] /\ l = 1 /\ dev = {}
Reset == /\ l <= Len(Trace) /\ Trace[l].op = "RESET"
         /\ store' = [k \in Keys |-> Absent] /\ l' = l + 1 /\ dev' = dev
RelFor(op) == (CASE op \in {"SET", "APPEND"} -> {"AdaptCanon"}
                 [] op = "GET" -> {"SimpleCRLF", "GetWrongType"}
                 [] op = "LRANGE" -> {"LRangeIdx"}
                 [] op = "SADD" -> {"SAddCountDup"}
                 [] op = "SPOP" -> {"EmptyArrNoCRLF"}
                 [] OTHER -> {}) \cap Deviations
Step == /\ l <= Len(Trace) /\ Trace[l].op # "RESET"
        /\ IF Matches(store, Trace[l], {}) THEN dev' = dev
           ELSE \E D \in (SUBSET RelFor(Trace[l].op)) \ {{}} :
                  /\ Matches(store, Trace[l], D)
                  /\ \A D2 \in (SUBSET D) \ {D} : ~Matches(store, Trace[l], D2)
                  /\ dev' = dev \cup D
        /\ store' = Proj(Trace[l].st)
        /\ l' = l + 1
Next == Reset \/ Step
Spec == Init /\ [][Next]_<<store, l, dev>>
Accepted == /\ TLCGet("stats").diameter - 1 = Len(Trace)
Report == l = Len(Trace) + 1 => PrintT(<<"DEVIATIONS-USED", dev>>)
====
