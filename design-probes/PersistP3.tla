---- MODULE PersistP3 ----
EXTENDS Integers, Sequences, FiniteSets, TLC
CONSTANTS Strategy, MaxWrites, MaxCrashes, Faithful
Cmds == {"setA", "incr", "push"}
DS0 == [a |-> 0, n |-> 0, l |-> 0]
Apply(ds, c) == CASE c = "setA" -> [ds EXCEPT !.a = 1]
                  [] c = "incr" -> [ds EXCEPT !.n = @ + 1]
                  [] c = "push" -> [ds EXCEPT !.l = @ + 1]
RECURSIVE ApplyAll(_, _)
ApplyAll(ds, s) == IF s = <<>> THEN ds ELSE ApplyAll(Apply(ds, Head(s)), Tail(s))

VARIABLES mem, executed, acked, log, synced, pre, wpc, wcmd, rpc, rcopy, crashes, bad, why
vars == <<mem, executed, acked, log, synced, pre, wpc, wcmd, rpc, rcopy, crashes, bad, why>>

Init == /\ mem = DS0 /\ executed = <<>> /\ acked = 0 /\ log = <<>> /\ synced = 0
        /\ pre = [set |-> FALSE, ds |-> DS0] /\ wpc = "idle" /\ wcmd = "setA"
        /\ rpc = "idle" /\ rcopy = DS0 /\ crashes = 0 /\ bad = FALSE /\ why = "none"

\* ---- writer: handler ; LogCommand ; (sync) ; reply        sugardb/modules.go:174-188
WHandle(c) == /\ wpc = "idle" /\ Len(executed) < MaxWrites
              /\ mem' = Apply(mem, c) /\ executed' = Append(executed, c) /\ wcmd' = c /\ wpc' = "handled"
              /\ UNCHANGED <<acked, log, synced, pre, rpc, rcopy, crashes, bad, why>>
WLog == /\ wpc = "handled"
        /\ log' = Append(log, wcmd)
        /\ synced' = IF Strategy = "always" THEN Len(log') ELSE synced
        /\ wpc' = "logged"
        /\ UNCHANGED <<mem, executed, acked, pre, wcmd, rpc, rcopy, crashes, bad, why>>
WAck == /\ wpc = "logged" /\ acked' = Len(executed) /\ wpc' = "idle"
        /\ UNCHANGED <<mem, executed, log, synced, pre, wcmd, rpc, rcopy, crashes, bad, why>>
SyncTick == /\ Strategy = "everysec" /\ synced < Len(log) /\ synced' = Len(log)
            /\ UNCHANGED <<mem, executed, acked, log, pre, wpc, wcmd, rpc, rcopy, crashes, bad, why>>

\* ---- rewrite, as coded: copy state ; truncate preamble ; write+sync preamble ; truncate log     aof/engine.go:163-181
RCopy == /\ Faithful /\ rpc = "idle" /\ wpc = "idle"          \* getState waits for stateMutationInProgress = false
         /\ rcopy' = mem /\ rpc' = "copied"
         /\ UNCHANGED <<mem, executed, acked, log, synced, pre, wpc, wcmd, crashes, bad, why>>
RPreTrunc == /\ rpc = "copied" /\ pre' = [set |-> FALSE, ds |-> DS0] /\ rpc' = "pretrunc"
             /\ UNCHANGED <<mem, executed, acked, log, synced, wpc, wcmd, rcopy, crashes, bad, why>>
RPreWrite == /\ rpc = "pretrunc" /\ pre' = [set |-> TRUE, ds |-> rcopy] /\ rpc' = "prewritten"
             /\ UNCHANGED <<mem, executed, acked, log, synced, wpc, wcmd, rcopy, crashes, bad, why>>
RLogTrunc == /\ rpc = "prewritten" /\ log' = <<>> /\ synced' = 0 /\ rpc' = "idle"
             /\ UNCHANGED <<mem, executed, acked, pre, wpc, wcmd, rcopy, crashes, bad, why>>
\* ---- rewrite, ideal: one atomic replacement of (preamble, log) by the current state
RAtomic == /\ ~Faithful /\ wpc = "idle" /\ pre' = [set |-> TRUE, ds |-> mem] /\ log' = <<>> /\ synced' = 0
           /\ UNCHANGED <<mem, executed, acked, wpc, wcmd, rpc, rcopy, crashes, bad, why>>

\* ---- crash: keep k >= synced records, maybe a torn piece of the next; then restore (engine.go:183)
Replay(base, lg) == LET cut == IF \E i \in 1..Len(lg) : lg[i] = "TORN"
                               THEN (CHOOSE i \in 1..Len(lg) : lg[i] = "TORN" /\ \A j \in 1..(i-1) : lg[j] # "TORN") - 1
                               ELSE Len(lg)
                    IN ApplyAll(base, SubSeq(lg, 1, cut))
Crash(k, torn) ==
  /\ crashes < MaxCrashes /\ k \in synced..Len(log) /\ (torn => k < Len(log))
  /\ LET kept0 == SubSeq(log, 1, k) \o (IF torn THEN <<"TORN">> ELSE <<>>)
         kept == IF Faithful THEN kept0 ELSE SelectSeq(kept0, LAMBDA x : x # "TORN")   \* ideal restore drops a torn tail
         rec == Replay(IF pre.set THEN pre.ds ELSE DS0, kept)
         ps == {p \in 0..Len(executed) : rec = ApplyAll(DS0, SubSeq(executed, 1, p))}
         need == IF Strategy = "always" THEN acked ELSE 0
         good == {p \in ps : p >= need}
     IN /\ log' = kept /\ synced' = Len(kept) /\ mem' = rec
        /\ IF good # {} THEN /\ executed' = SubSeq(executed, 1, CHOOSE p \in good : \A q \in good : q <= p)
                             /\ bad' = bad /\ why' = why
           ELSE /\ executed' = <<>> /\ bad' = TRUE
                /\ why' = IF ps = {} THEN "not-a-prefix" ELSE "acked-write-lost"
        /\ acked' = Len(executed') /\ wpc' = "idle" /\ rpc' = "idle" /\ crashes' = crashes + 1
        /\ UNCHANGED <<pre, wcmd, rcopy>>

Next == \/ \E c \in Cmds : WHandle(c) \/ WLog \/ WAck \/ SyncTick
        \/ RCopy \/ RPreTrunc \/ RPreWrite \/ RLogTrunc \/ RAtomic
        \/ \E k \in 0..MaxWrites : \E t \in BOOLEAN : Crash(k, t)
Spec == Init /\ [][Next]_vars
Durable == ~bad
Image == Replay(IF pre.set THEN pre.ds ELSE DS0, log)
ImageOK == \E p \in acked..Len(executed) : Image = ApplyAll(DS0, SubSeq(executed, 1, p))
Keeps(A) == [][(A /\ ImageOK) => ImageOK']_vars
P_WHandle == Keeps(\E c \in Cmds : WHandle(c))
P_WLog == Keeps(WLog)
P_WAck == Keeps(WAck)
P_RCopy == Keeps(RCopy)
P_RPreTrunc == Keeps(RPreTrunc)
P_RPreWrite == Keeps(RPreWrite)
P_RLogTrunc == Keeps(RLogTrunc)
NoCrashNext == (\E c \in Cmds : WHandle(c)) \/ WLog \/ WAck \/ RCopy \/ RPreTrunc \/ RPreWrite \/ RLogTrunc
NoCrashSpec == Init /\ [][NoCrashNext]_vars
====
