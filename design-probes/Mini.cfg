SPECIFICATION Spec
CONSTANTS Deviations = {"AdaptCanon", "SimpleCRLF", "GetWrongType", "LRangeIdx", "SAddCountDup", "EmptyArrNoCRLF"}
INVARIANT Report
POSTCONDITION Accepted
CHECK_DEADLOCK FALSE
