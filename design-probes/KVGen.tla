---- MODULE KVGen ----
EXTENDS KV, Json, TLC
VARIABLES hist
GInit == Init /\ hist = <<>>
GNext == /\ Len(hist) < 3
         /\ \E k \in Keys :
             \/ \E v \in Vals : Set(k, v) /\ hist' = Append(hist, [op |-> "SET", k |-> k, v |-> v, reply |-> reply', store |-> store'])
             \/ Get(k) /\ hist' = Append(hist, [op |-> "GET", k |-> k, reply |-> reply', store |-> store'])
             \/ Del(k) /\ hist' = Append(hist, [op |-> "DEL", k |-> k, reply |-> reply', store |-> store'])
GSpec == GInit /\ [][GNext]_<<vars, hist>>
Emit == IF Len(hist) = 3 THEN PrintT(<<"BEH", ToJson(hist)>>) ELSE TRUE
====
