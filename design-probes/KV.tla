---- MODULE KV ----
EXTENDS Integers, Sequences, FiniteSets, TLC
CONSTANTS Keys, Vals
VARIABLES store, reply
vars == <<store, reply>>
Nil == [t |-> "nil"]
Init == store = [k \in Keys |-> Nil] /\ reply = Nil
Set(k, v) == store' = [store EXCEPT ![k] = [t |-> "str", v |-> v]] /\ reply' = [t |-> "ok"]
Get(k) == UNCHANGED store /\ reply' = store[k]
Del(k) == store' = [store EXCEPT ![k] = Nil] /\ reply' = [t |-> "int", v |-> IF store[k] = Nil THEN 0 ELSE 1]
Next == \E k \in Keys : (\E v \in Vals : Set(k, v)) \/ Get(k) \/ Del(k)
Spec == Init /\ [][Next]_vars
====
