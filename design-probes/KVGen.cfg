SPECIFICATION GSpec
CONSTANTS Keys = {"k1","k2"}
Vals = {"a"}
INVARIANT Emit
CHECK_DEADLOCK FALSE
