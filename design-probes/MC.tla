---- MODULE MC ----
EXTENDS ConcP
IncrIncr == (1 :> [h |-> "INCR", k |-> "x", v |-> 0]) @@ (2 :> [h |-> "INCR", k |-> "x", v |-> 0])
SetGet == (1 :> [h |-> "SET", k |-> "x", v |-> 9]) @@ (2 :> [h |-> "GET", k |-> "x", v |-> 0])
RenameIncr == (1 :> [h |-> "RENAME", k |-> "x", v |-> "y"]) @@ (2 :> [h |-> "INCR", k |-> "x", v |-> 0])
====
